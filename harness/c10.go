package main

// C10 — multipart reassembly delivers each message once, complete and unmixed.
//
// op `combine`: an arrival history (indices into a table of segment values)
// is fed to the function returned by pdu.CombineMultipartDeliverSM; the
// observation is the callback trace: for every input, the callbacks made during
// that call, each as the list of PDU identities (arrival positions, 0 = nil).
// Every history is (1) judged directly against the property by an oracle that
// is independent of the implementation and (2) a model case: Model.Combiner.crun
// evaluated in coqc must reproduce the trace.

import (
	"encoding/hex"
	"encoding/json"
	"fmt"
	"sort"
	"strings"
	"sync/atomic"
	"time"

	"github.com/M2MGateway/go-smpp/pdu"
)

func init() {
	corrTable["C10"] = corrC10
	replayTable["C10"] = replayC10
}

// ---------------------------------------------------------------- values
type segVal struct {
	Src, Dst pdu.Address
	UDH      map[byte][]byte // nil: no user data header
}

func (s segVal) build() *pdu.DeliverSM {
	p := &pdu.DeliverSM{SourceAddr: s.Src, DestAddr: s.Dst}
	if s.UDH != nil {
		p.ESMClass.UDHIndicator = true
		u := pdu.UserDataHeader{}
		for k, v := range s.UDH {
			u[k] = append([]byte(nil), v...)
		}
		p.Message.UDHeader = u
	}
	return p
}

func coqSeg(s segVal) string {
	// compact form (Model/CombinerRun.v: sg): the UDH as one string "<key hex><data hex>/<key hex><data hex>…"
	keys := make([]int, 0, len(s.UDH))
	n := 0
	for k, v := range s.UDH {
		keys = append(keys, int(k))
		n += 3 + 2*len(v)
	}
	if n <= 900 && len(s.Src.No) <= 400 && len(s.Dst.No) <= 400 {
		sort.Ints(keys)
		var sb strings.Builder
		for i, k := range keys {
			if i > 0 {
				sb.WriteByte('/')
			}
			fmt.Fprintf(&sb, "%02x%s", k, hex.EncodeToString(s.UDH[byte(k)]))
		}
		return fmt.Sprintf(`(sg %d %d "%s" %d %d "%s" %v "%s")`, s.Src.TON, s.Src.NPI, hex.EncodeToString([]byte(s.Src.No)),
			s.Dst.TON, s.Dst.NPI, hex.EncodeToString([]byte(s.Dst.No)), s.UDH != nil, sb.String())
	}
	udh := "None"
	if s.UDH != nil {
		udh = "(Some " + coqKVs8(s.UDH) + ")"
	}
	return fmt.Sprintf("{| d_id := 0; d_src := %s; d_dst := %s; d_udh := %s |}", coqAddr(s.Src), coqAddr(s.Dst), udh)
}

func coqSegTable(t []segVal) string {
	items := make([]string, len(t))
	for i, s := range t {
		items[i] = coqSeg(s)
	}
	return coqList(items)
}

func coqNatList(xs []int) string {
	s := make([]string, len(xs))
	for i, x := range xs {
		s[i] = fmt.Sprintf("%d%%nat", x)
	}
	return coqList(s)
}

// coqTrace prints a trace with every identity (arrival position) projected to
// the table index of the segment value that arrived there (from 1; 0 = nil):
// which of several arrivals of the same value is delivered is not compared.
func coqTrace(hist []int, tr [][][]int) string {
	steps := make([]string, len(tr))
	for i, cbs := range tr {
		cs := make([]string, len(cbs))
		for j, cb := range cbs {
			ids := make([]string, len(cb))
			for k, id := range cb {
				switch {
				case id < 0 || id > len(hist):
					id = 99999999 // a pointer that was never fed in
				case id > 0:
					id = hist[id-1] + 1
				}
				ids[k] = fmt.Sprint(id)
			}
			cs[j] = coqList(ids)
		}
		steps[i] = coqList(cs)
	}
	return coqList(steps)
}

// 8-bit (IEI 0) and 16-bit (IEI 8) concatenation elements
func ie0(ref, total, seq int) map[byte][]byte {
	return map[byte][]byte{0: {byte(ref), byte(total), byte(seq)}}
}
func ie8(ref, total, seq int) map[byte][]byte {
	return map[byte][]byte{8: {byte(ref >> 8), byte(ref), byte(total), byte(seq)}}
}

// ---------------------------------------------------------------- running the implementation
type combineObs struct {
	Trace    [][][]int // per input: callbacks, each a list of ids (arrival position, 0 = nil, -1 = unknown pointer)
	PanicAt  int       // -1: none
	PanicMsg string
	Hung     bool   // the call for input PanicAt+1 never returned (PanicAt/PanicMsg are set: every "did not return normally" path applies)
	Skipped  bool   // not run: the run had already met maxStalls calls that never returned
	Mutated  string // non-empty: a slice handed to the callback did not keep its content until the end of the run
}

func runCombine(table []segVal, hist []int) combineObs {
	ps := make([]*pdu.DeliverSM, len(hist))
	for j, ix := range hist {
		ps[j] = table[ix].build()
	}
	return runCombinePDUs(ps)
}

// runCombinePDUs feeds the PDUs, in order, to a fresh combiner — under the watchdog (c11_watch.go): a call
// that does not return ends the history there (the combiner instance and its goroutine are abandoned).
func runCombinePDUs(ps []*pdu.DeliverSM) combineObs {
	if stallsExhausted() {
		return combineObs{PanicAt: -1, Skipped: true, Trace: make([][][]int, len(ps))}
	}
	var progress int64
	var obs combineObs
	hung, at, waited := stallWatch(&progress, func() { obs = runCombineInner(ps, &progress) })
	if hung {
		return combineObs{PanicAt: int(at), Hung: true,
			PanicMsg: fmt.Sprintf("the call for input %d had not returned after %v (the inputs before it returned at once)", at+1, waited.Round(100*time.Millisecond))}
	}
	return obs
}

func runCombineInner(ps []*pdu.DeliverSM, progress *int64) combineObs {
	obs := combineObs{PanicAt: -1}
	ids := map[*pdu.DeliverSM]int{}
	var cur [][]int
	// every slice handed to the callback is kept (the slice itself, not a copy) next to a snapshot taken
	// during the callback: a consumer that queues the slice must still find all N segments in it later
	type keptSlice struct {
		at          int
		slice, snap []*pdu.DeliverSM
	}
	var kept []keptSlice
	at := 0
	add := pdu.CombineMultipartDeliverSM(func(parts []*pdu.DeliverSM) {
		kept = append(kept, keptSlice{at, parts, append([]*pdu.DeliverSM(nil), parts...)})
		l := make([]int, len(parts))
		for i, p := range parts {
			switch id, ok := ids[p]; {
			case p == nil:
				l[i] = 0
			case ok:
				l[i] = id
			default:
				l[i] = -1
			}
		}
		cur = append(cur, l)
	})
	for j, p := range ps {
		ids[p] = j + 1
		cur = nil
		at = j
		if panicked, msg := guard(func() { add(p) }); panicked {
			obs.PanicAt, obs.PanicMsg = j, msg
			return obs
		}
		obs.Trace = append(obs.Trace, cur)
		atomic.AddInt64(progress, 1)
	}
	for _, k := range kept {
		for i := range k.snap {
			if obs.Mutated == "" && (len(k.slice) != len(k.snap) || k.slice[i] != k.snap[i]) {
				obs.Mutated = fmt.Sprintf("the slice passed to the callback at input %d held PDU %d at position %d; after input %d it holds %s there",
					k.at+1, ids[k.snap[i]], i+1, len(ps), describePtr(ids, k.slice[i]))
			}
		}
	}
	return obs
}

func describePtr(ids map[*pdu.DeliverSM]int, p *pdu.DeliverSM) string {
	if p == nil {
		return "nil"
	}
	if id, ok := ids[p]; ok {
		return fmt.Sprintf("PDU %d", id)
	}
	return "a PDU that never arrived"
}

// projection classes: which of several arrivals of one segment class (same
// addresses, reference, total, sequence number) ends up in a delivery is not
// compared; every arrival is projected to the first table entry of its class.
func projOf(table []segVal, hist []int) []int {
	first := map[string]int{}
	canon := make([]int, len(table))
	for i, s := range table {
		key := fmt.Sprintf("exact|%v|%v|%v", s.Src, s.Dst, s.UDH)
		if d := s.UDH[0]; len(d) >= 3 {
			key = fmt.Sprintf("seg|%v|%v|%d|%d|%d", s.Src, s.Dst, int(d[0]), d[1], d[2])
		} else if d := s.UDH[8]; len(d) >= 4 {
			key = fmt.Sprintf("seg|%v|%v|%d|%d|%d", s.Src, s.Dst, int(d[0])<<8|int(d[1]), d[2], d[3])
		}
		if j, ok := first[key]; ok {
			canon[i] = j
		} else {
			first[key] = i
			canon[i] = i
		}
	}
	proj := make([]int, len(hist))
	for j, ix := range hist {
		proj[j] = canon[ix]
	}
	return proj
}

// ---------------------------------------------------------------- the oracle (written from the property, not from the code)
type hdrKind int

const (
	hNone      hdrKind = iota // no concatenation element: a non-concatenated PDU
	hOK                       // exactly one well-formed element (IEI 0 with 3 octets or IEI 8 with 4)
	hMalformed                // an element of another length, or both elements: the property demands no particular delivery
)

func specHeader(u map[byte][]byte) (kind hdrKind, ref, total, seq int) {
	d0, has0 := u[0]
	d8, has8 := u[8]
	switch {
	case !has0 && !has8:
		return hNone, 0, 0, 0
	case has0 && has8:
		return hMalformed, 0, 0, 0
	case has0 && len(d0) == 3:
		return hOK, int(d0[0]), int(d0[1]), int(d0[2])
	case has8 && len(d8) == 4:
		return hOK, int(d8[0])<<8 | int(d8[1]), int(d8[2]), int(d8[3])
	}
	return hMalformed, 0, 0, 0
}

func is16bit(u map[byte][]byte) bool { _, ok := u[8]; return ok }

type msgKey struct {
	src, dst pdu.Address
	ref      int
}

type epoch struct {
	total  int
	wide   bool                 // 16-bit reference form
	latest map[int]int          // sequence number -> id of the most recent segment carrying it
	all    map[int]map[int]bool // sequence number -> ids of all segments of this epoch carrying it
}

// judge checks one observed trace.  Safety clauses are demanded of every
// history; the liveness clause (a delivery exactly when the last missing
// segment arrives) only of histories in which every segment is well formed
// (1 <= sequence <= total, one total per message in progress) — for the others
// the property only demands that nothing is delivered incomplete or mixed and
// that nothing panics.
func judge(table []segVal, hist []int, obs combineObs) (class, what, observed, required string) {
	class, what, observed, required, _ = judgeFull(table, hist, obs)
	return
}

// judgeInfo: what the oracle demanded liveness of.  lenient: the history holds something the
// property leaves open (malformed numbering under some key, a malformed element, both elements in
// one PDU); strict[k]: every segment of key k was well formed (liveness was demanded of k throughout).
type judgeInfo struct {
	strict    map[msgKey]bool
	ambiguous bool
	lenient   bool
}

func judgeFull(table []segVal, hist []int, obs combineObs) (class, what, observed, required string, info judgeInfo) {
	if obs.Skipped {
		info.lenient = true
		return "", "", "", "", info
	}
	if obs.Hung {
		return "combine/never-returns", "a call of the combiner did not return", obs.PanicMsg, "returns normally", info
	}
	if obs.PanicAt >= 0 {
		return "combine/panic", "the combiner panicked", fmt.Sprintf("panic at input %d: %s", obs.PanicAt+1, obs.PanicMsg), "returns normally", info
	}
	if obs.Mutated != "" {
		return "combine/delivered-slice-changed-after-callback", "a slice handed to the callback lost a segment after the callback returned",
			obs.Mutated, "the N segments passed stay in the slice passed (it is the consumer's from then on)", info
	}
	delivered := map[int]bool{}
	open := map[msgKey]*epoch{}
	strict := map[msgKey]bool{}
	info.strict = strict
	// an element pair (IEI 0 and IEI 8 in one PDU) may count for either key: liveness is then demanded of no key
	ambiguous := false
	for _, ix := range hist {
		_, has0 := table[ix].UDH[0]
		_, has8 := table[ix].UDH[8]
		ambiguous = ambiguous || (has0 && has8)
	}
	for j, ix := range hist {
		id := j + 1
		s := table[ix]
		kind, ref, total, seq := specHeader(s.UDH)
		cbs := obs.Trace[j]
		// ---- safety, for every callback made during this call
		for _, cb := range cbs {
			if len(cb) == 0 {
				return "combine/empty-delivery", "callback invoked with no PDU", fmt.Sprintf("input %d: callback []", id), "a delivery carries at least one PDU", info
			}
			hasCur := false
			for _, x := range cb {
				if x == 0 {
					return "combine/incomplete-delivery", "an incomplete message was delivered (nil slot)", fmt.Sprintf("input %d: callback %v", id, cb), "all N segments present", info
				}
				if x < 0 || x > id {
					return "combine/delivered-unseen", "a delivery contains a PDU that has not arrived", fmt.Sprintf("input %d: callback %v", id, cb), "only PDUs received so far", info
				}
				if delivered[x] {
					return "combine/redelivery", "a PDU was delivered twice", fmt.Sprintf("input %d: callback %v, PDU %d delivered before", id, cb, x), "each PDU delivered at most once", info
				}
				delivered[x] = true
				if x == id {
					hasCur = true
				}
			}
			if !hasCur {
				return "combine/delivery-without-trigger", "a delivery was made that does not contain the PDU just received", fmt.Sprintf("input %d: callback %v", id, cb), "a delivery is triggered by, and contains, the arriving PDU", info
			}
			k0, r0, t0, _ := specHeader(table[hist[cb[0]-1]].UDH)
			if (len(cb) == 1 && k0 != hOK) || k0 == hMalformed {
				continue // a non-concatenated (or malformed: nothing in particular is demanded) PDU
			}
			for pos, x := range cb {
				sx := table[hist[x-1]]
				kx, rx, tx, qx := specHeader(sx.UDH)
				s0 := table[hist[cb[0]-1]]
				if kx == hMalformed {
					continue
				}
				if kx != hOK || k0 != hOK || sx.Src != s0.Src || sx.Dst != s0.Dst || rx != r0 {
					return "combine/mixed-delivery", "segments differing in source, destination or reference were delivered together",
						fmt.Sprintf("input %d: callback %v", id, cb), "one (source, destination, reference) per delivery", info
				}
				if tx != len(cb) || t0 != len(cb) {
					return "combine/incomplete-delivery", "a delivery does not carry the N segments its segments announce",
						fmt.Sprintf("input %d: callback %v, segment %d announces total %d", id, cb, x, tx), "exactly N segments", info
				}
				if qx != pos+1 {
					return "combine/out-of-order", "segments are not passed in sequence-number order",
						fmt.Sprintf("input %d: callback %v, position %d holds sequence %d", id, cb, pos+1, qx), "position i holds sequence i", info
				}
			}
		}
		// ---- what the property demands at this input
		switch kind {
		case hNone:
			if len(cbs) != 1 || len(cbs[0]) != 1 || cbs[0][0] != id {
				return "combine/plain-not-immediate", "a non-concatenated PDU was not delivered at once, alone",
					fmt.Sprintf("input %d: callbacks %v", id, cbs), fmt.Sprintf("exactly one callback [%d]", id), info
			}
		case hMalformed:
			// no particular delivery demanded (C11: a value or an ignored segment); nor of any key the
			// element could be read as belonging to (an over-long element read by its leading octets)
			info.lenient = true
			if d := s.UDH[0]; len(d) >= 3 {
				strict[msgKey{s.Src, s.Dst, int(d[0])}] = false
			}
			if d := s.UDH[8]; len(d) >= 4 {
				strict[msgKey{s.Src, s.Dst, int(d[0])<<8 | int(d[1])}] = false
			}
		case hOK:
			k := msgKey{s.Src, s.Dst, ref}
			if _, seen := strict[k]; !seen {
				strict[k] = true
			}
			e := open[k]
			if seq < 1 || seq > total || (e != nil && (e.total != total || e.wide != is16bit(s.UDH))) {
				strict[k] = false // malformed numbering: from here on only safety is demanded for this key
				continue
			}
			if !strict[k] || ambiguous {
				continue
			}
			if e == nil {
				e = &epoch{total: total, wide: is16bit(s.UDH), latest: map[int]int{}, all: map[int]map[int]bool{}}
				open[k] = e
			}
			e.latest[seq] = id
			if e.all[seq] == nil {
				e.all[seq] = map[int]bool{}
			}
			e.all[seq][id] = true
			if len(e.latest) == e.total {
				want := make([]int, e.total)
				for q := 1; q <= e.total; q++ {
					want[q-1] = e.latest[q]
				}
				delete(open, k)
				// which of several arrivals of one sequence number is passed is not prescribed
				good := len(cbs) == 1 && len(cbs[0]) == e.total
				for q := 1; good && q <= e.total; q++ {
					good = e.all[q][cbs[0][q-1]]
				}
				if !good {
					return "combine/not-at-last-segment", "the last missing segment arrived but the message was not delivered (once, complete, in order)",
						fmt.Sprintf("input %d: callbacks %v", id, cbs), fmt.Sprintf("exactly one callback, e.g. %v", want), info
				}
			} else if len(cbs) != 0 {
				return "combine/premature-delivery", "a delivery was made although segments are still missing",
					fmt.Sprintf("input %d: callbacks %v, have sequences %v of %d", id, cbs, keysOf(e.latest), e.total), "no callback", info
			}
		}
	}
	info.ambiguous = ambiguous
	info.lenient = info.lenient || ambiguous
	for _, ok := range strict {
		info.lenient = info.lenient || !ok
	}
	return "", "", "", "", info
}

func keysOf(m map[int]int) []int {
	var ks []int
	for k := range m {
		ks = append(ks, k)
	}
	sort.Ints(ks)
	return ks
}

// ---------------------------------------------------------------- replayable input text
type jsonSeg struct {
	Src [3]interface{}    `json:"src"` // ton, npi, number (hex)
	Dst [3]interface{}    `json:"dst"`
	UDH map[string]string `json:"udh"` // IEI -> hex; absent = no UDH
}
type jsonHist struct {
	Op    string    `json:"op"`
	Table []jsonSeg `json:"table"`
	Hist  []int     `json:"history"`
}

func histInput(table []segVal, hist []int) string {
	jh := jsonHist{Op: "combine", Hist: hist}
	for _, s := range table {
		js := jsonSeg{Src: [3]interface{}{s.Src.TON, s.Src.NPI, hex.EncodeToString([]byte(s.Src.No))},
			Dst: [3]interface{}{s.Dst.TON, s.Dst.NPI, hex.EncodeToString([]byte(s.Dst.No))}}
		if s.UDH != nil {
			js.UDH = map[string]string{}
			for k, v := range s.UDH {
				js.UDH[fmt.Sprint(k)] = hex.EncodeToString(v)
			}
		}
		jh.Table = append(jh.Table, js)
	}
	b, _ := json.Marshal(jh)
	return string(b)
}

func parseHistInput(arg string) (table []segVal, hist []int, err error) {
	var jh jsonHist
	dec := json.NewDecoder(strings.NewReader(arg))
	dec.UseNumber()
	if err = dec.Decode(&jh); err != nil {
		return
	}
	addr := func(a [3]interface{}) pdu.Address {
		ton, _ := a[0].(json.Number).Int64()
		npi, _ := a[1].(json.Number).Int64()
		no, _ := hex.DecodeString(a[2].(string))
		return pdu.Address{TON: byte(ton), NPI: byte(npi), No: string(no)}
	}
	for _, js := range jh.Table {
		s := segVal{Src: addr(js.Src), Dst: addr(js.Dst)}
		if js.UDH != nil {
			s.UDH = map[byte][]byte{}
			for k, v := range js.UDH {
				var id int
				fmt.Sscan(k, &id)
				d, _ := hex.DecodeString(v)
				s.UDH[byte(id)] = d
			}
		}
		table = append(table, s)
	}
	return table, jh.Hist, nil
}

func replayC10(arg string) string {
	arg = strings.TrimSpace(arg)
	if strings.HasPrefix(arg, "long ") || strings.HasPrefix(arg, "order ") {
		return replayLong(arg)
	}
	table, hist, err := parseHistInput(arg)
	if err != nil {
		return "bad replay input: " + err.Error()
	}
	obs := runCombine(table, hist)
	class, what, observed, required := judge(table, hist, obs)
	if class == "" {
		return fmt.Sprintf("trace=%v : satisfies the property", obs.Trace)
	}
	return fmt.Sprintf("trace=%v panicAt=%d : %s — %s; observed %s; required %s", obs.Trace, obs.PanicAt, class, what, observed, required)
}

// ---------------------------------------------------------------- key sets
// Adversarial (source, destination, reference, form) choices for up to four
// concurrent messages.  form 0 = 8-bit reference (IEI 0), 1 = 16-bit (IEI 8).
type msgID struct {
	Src, Dst pdu.Address
	Ref      int
	Form     int
}

func keySets() map[string][]msgID {
	a := func(ton, npi byte, no string) pdu.Address { return pdu.Address{TON: ton, NPI: npi, No: no} }
	return map[string][]msgID{
		// D9: fmt.Sprint("…", "12", 3) == fmt.Sprint("…", "1", 23)
		"digit-prefix-dst-vs-ref": {{a(1, 1, "100"), a(1, 1, "12"), 3, 0}, {a(1, 1, "100"), a(1, 1, "1"), 23, 0}, {a(1, 1, "100"), a(1, 1, "123"), 0, 0}, {a(1, 1, "100"), a(1, 1, ""), 123, 0}},
		// source number against the destination TON that follows it
		"digit-prefix-src-vs-ton": {{a(1, 1, "555"), a(11, 1, "9"), 7, 0}, {a(1, 1, "5551"), a(1, 1, "9"), 7, 0}, {a(1, 1, "55511"), a(0, 1, "9"), 7, 0}, {a(1, 1, "5"), a(5, 1, "9"), 7, 0}},
		// numbers containing the separator Sprint inserts between integers
		"space-in-number":         {{a(1, 1, "7 1"), a(1, 1, "8"), 9, 0}, {a(1, 17, " 1"), a(1, 1, "8"), 9, 0}, {a(1, 1, "7"), a(1, 1, "1 18"), 9, 0}, {a(1, 1, "7 11"), a(0, 1, "8"), 9, 0}},
		"equal-ref-different-dst": {{a(1, 1, "100"), a(1, 1, "200"), 77, 0}, {a(1, 1, "100"), a(1, 1, "201"), 77, 0}, {a(1, 1, "100"), a(1, 1, "20"), 77, 0}, {a(1, 1, "100"), a(1, 1, "2000"), 77, 0}},
		"equal-ref-different-src": {{a(1, 1, "100"), a(1, 1, "200"), 77, 1}, {a(1, 1, "101"), a(1, 1, "200"), 77, 1}, {a(2, 1, "100"), a(1, 1, "200"), 77, 1}, {a(1, 2, "100"), a(1, 1, "200"), 77, 1}},
		"different-ton-npi":       {{a(0, 0, "42"), a(0, 0, "43"), 1, 0}, {a(0, 0, "42"), a(0, 1, "43"), 1, 0}, {a(0, 0, "42"), a(1, 0, "43"), 1, 0}, {a(1, 0, "42"), a(0, 0, "43"), 1, 0}},
		// 8- and 16-bit forms: equal low octet, different value
		"ref-8bit-vs-16bit": {{a(1, 1, "100"), a(1, 1, "200"), 5, 0}, {a(1, 1, "100"), a(1, 1, "200"), 0x0105, 1}, {a(1, 1, "100"), a(1, 1, "200"), 0x0500, 1}, {a(1, 1, "100"), a(1, 1, "200"), 255, 0}},
		"empty-addresses":   {{a(0, 0, ""), a(0, 0, ""), 0, 0}, {a(0, 0, ""), a(0, 0, ""), 1, 0}, {a(0, 0, ""), a(0, 0, "0"), 0, 0}, {a(0, 0, "0"), a(0, 0, ""), 0, 0}},
		// what a "normalising" key would merge: letter case (alphanumeric senders), a leading '+', leading zeros
		"letters-and-case":      {{a(5, 0, "Bank"), a(1, 1, "200"), 9, 0}, {a(5, 0, "BANK"), a(1, 1, "200"), 9, 0}, {a(5, 0, "bank"), a(1, 1, "200"), 9, 0}, {a(5, 0, "Bank "), a(1, 1, "200"), 9, 0}},
		"plus-and-leading-zero": {{a(1, 1, "100"), a(1, 1, "+200"), 9, 1}, {a(1, 1, "100"), a(1, 1, "200"), 9, 1}, {a(1, 1, "100"), a(1, 1, "0200"), 9, 1}, {a(1, 1, "100"), a(1, 1, "00200"), 9, 1}},
		// octets a text-based key could mangle: NUL, invalid UTF-8, a multi-octet UTF-8 sequence against its Latin-1 reading
		"nul-and-high-octets": {{a(1, 1, "1\x002"), a(1, 1, "9"), 9, 0}, {a(1, 1, "1\xff2"), a(1, 1, "9"), 9, 0}, {a(1, 1, "1\xc3\xa92"), a(1, 1, "9"), 9, 0}, {a(1, 1, "1\xef\xbf\xbd2"), a(1, 1, "9"), 9, 0}},
		// every class of 16-bit reference value a key encoding could confuse, between one address pair
		"reference-classes": {{a(1, 1, "100"), a(1, 1, "200"), 0xD800, 1}, {a(1, 1, "100"), a(1, 1, "200"), 0xDFFF, 1}, {a(1, 1, "100"), a(1, 1, "200"), 0xFFFD, 1}, {a(1, 1, "100"), a(1, 1, "200"), 0xFFFF, 1}},
	}
}

func (m msgID) seg(total, seq int) segVal {
	if m.Form == 0 {
		return segVal{m.Src, m.Dst, ie0(m.Ref, total, seq)}
	}
	return segVal{m.Src, m.Dst, ie8(m.Ref, total, seq)}
}

// nextPerm advances xs to the next permutation in lexicographic order
// (multiset-aware: equal entries are not swapped), false after the last.
func nextPerm(xs []int) bool {
	i := len(xs) - 2
	for i >= 0 && xs[i] >= xs[i+1] {
		i--
	}
	if i < 0 {
		return false
	}
	j := len(xs) - 1
	for xs[j] <= xs[i] {
		j--
	}
	xs[i], xs[j] = xs[j], xs[i]
	for l, r := i+1, len(xs)-1; l < r; l, r = l+1, r-1 {
		xs[l], xs[r] = xs[r], xs[l]
	}
	return true
}

// ---------------------------------------------------------------- the run
type c10Batch struct {
	table []segVal
	items []string
	desc  string
}

func (b *c10Batch) flush(r *Run) {
	if len(b.items) == 0 {
		return
	}
	r.Case(fmt.Sprintf("combine batch of %d histories: %s", len(b.items), b.desc),
		fmt.Sprintf("chk_combine_text %s \"%s\"", coqSegTable(b.table), strings.Join(b.items, "/")))
	b.items = nil
}

// compactCase is the text form "<ixs>|<step>;<step>…" of one history and its
// (projected) trace, see Model/Combiner.v; ok=false if it cannot be written so.
func compactCase(table []segVal, hist []int, tr [][][]int) (string, bool) {
	if len(table) > 50 || len(hist) == 0 {
		return "", false
	}
	var sb strings.Builder
	for _, ix := range hist {
		sb.WriteByte(byte('A' + ix))
	}
	sb.WriteByte('|')
	for j, cbs := range tr {
		if j > 0 {
			sb.WriteByte(';')
		}
		for k, cb := range cbs {
			if k > 0 {
				sb.WriteByte(',')
			}
			if len(cb) == 0 {
				return "", false
			}
			for _, id := range cb {
				if id < 0 || id > len(hist) {
					return "", false
				}
				if id > 0 {
					id = hist[id-1] + 1
				}
				sb.WriteByte(byte('A' + id))
			}
		}
	}
	return sb.String(), true
}

// one history: run, judge, count, emit.  modelCase: also a model case (batched when b != nil).
func c10One(r *Run, table []segVal, tkey string, hist []int, bucket string, b *c10Batch, modelCase bool) combineObs {
	obs := runCombine(table, hist)
	nontrivial := false
	for _, cbs := range obs.Trace {
		for _, cb := range cbs {
			if len(cb) > 1 {
				nontrivial = true
			}
		}
	}
	if bucket != "" {
		key := fmt.Sprintf("%s|%v|%s", bucket, hist, tkey)
		r.Count(key, nontrivial || obs.PanicAt >= 0, bucket)
	}
	class, what, observed, required, info := judgeFull(table, hist, obs)
	if class != "" {
		r.Fail(class, what, histInput(table, hist), observed, required)
	}
	if !modelCase || obs.Skipped {
		return obs
	}
	if info.lenient && obs.PanicAt < 0 {
		lenientCase(r, table, hist, obs, info)
		return obs
	}
	proj := projOf(table, hist)
	if obs.PanicAt >= 0 {
		r.Case("combine "+histInput(table, hist), fmt.Sprintf("chk_combine %s %s Panic", coqSegTable(table), coqNatList(hist)))
		return obs
	}
	if b != nil {
		if txt, ok := compactCase(table, hist, obs.Trace); ok {
			b.items = append(b.items, txt)
			if len(b.items) >= 400 {
				b.flush(r)
			}
			return obs
		}
	}
	r.Case("combine "+histInput(table, hist), fmt.Sprintf("chk_combine_proj %s %s %s (Ok %s)", coqSegTable(table), coqNatList(hist), coqNatList(proj), coqTrace(proj, obs.Trace)))
	return obs
}

func tableKey(t []segVal) string {
	var sb strings.Builder
	for _, s := range t {
		fmt.Fprintf(&sb, "%v/%v/%v;", s.Src, s.Dst, s.UDH)
	}
	return sb.String()
}

// referenceCases emits ONE model case for the history: the callback trace of
// the keyed combiner and, for each message key of the table, the callbacks the
// implementation made at the steps whose input carries that key — which must be
// what the single-message reference combiner and the set-style specification
// do on that sub-history.
func referenceCases(r *Run, table []segVal, hist []int, obs combineObs) {
	if obs.PanicAt >= 0 || obs.Skipped {
		return
	}
	if _, _, _, _, info := judgeFull(table, hist, obs); info.lenient {
		lenientCase(r, table, hist, obs, info)
		return
	}
	proj := projOf(table, hist)
	var refs []string
	// the set-style specification is quadratic in the message size: 255-part messages go through the trace only
	if len(table) <= 60 && len(hist) <= 90 {
		type k struct {
			src, dst pdu.Address
			ref      uint16
		}
		keyOf := func(s segVal) (k, bool) {
			h := pdu.UserDataHeader(s.UDH).ConcatenatedHeader()
			if h == nil {
				return k{}, false
			}
			return k{s.Src, s.Dst, h.Reference}, true
		}
		seen := map[k]bool{}
		for ki, s := range table {
			kk, ok := keyOf(s)
			if !ok || seen[kk] {
				continue
			}
			seen[kk] = true
			var sub [][][]int
			for j, ix := range hist {
				if k2, ok2 := keyOf(table[ix]); ok2 && k2 == kk {
					sub = append(sub, obs.Trace[j])
				}
			}
			refs = append(refs, fmt.Sprintf("(%d%%nat, %s)", ki, coqTrace(proj, sub)))
		}
	}
	r.Case("combine+reference+set-spec "+histInput(table, hist),
		fmt.Sprintf("chk_history %s %s %s %s %s", coqSegTable(table), coqNatList(hist), coqNatList(proj), coqTrace(proj, obs.Trace), coqList(refs)))
}

// lenientCase: the model case of a history that holds something C10/C11 leave open (malformed
// numbering, a malformed element, both elements in one PDU: ignored? restarted? which element wins?).
// Compared: the model returns normally, and for every key all of whose segments are well formed the
// callbacks at its arrivals are the model's, the reference combiner's and the set-style specification's.
func lenientCase(r *Run, table []segVal, hist []int, obs combineObs, info judgeInfo) {
	proj := projOf(table, hist)
	var refs []string
	if !info.ambiguous && len(table) <= 60 && len(hist) <= 90 {
		seen := map[msgKey]bool{}
		for ki, s := range table {
			kind, ref, _, _ := specHeader(s.UDH)
			k := msgKey{s.Src, s.Dst, ref}
			if kind != hOK || seen[k] || !info.strict[k] {
				continue
			}
			seen[k] = true
			var sub [][][]int
			for j, ix := range hist {
				if k2, r2, _, _ := specHeader(table[ix].UDH); k2 == hOK && (msgKey{table[ix].Src, table[ix].Dst, r2}) == k {
					sub = append(sub, obs.Trace[j])
				}
			}
			refs = append(refs, fmt.Sprintf("(%d%%nat, %s)", ki, coqTrace(proj, sub)))
		}
	}
	r.Case("combine (lenient: returns normally + well-formed keys) "+histInput(table, hist),
		fmt.Sprintf("chk_history_lenient %s %s %s %s", coqSegTable(table), coqNatList(hist), coqNatList(proj), coqList(refs)))
}

func corrC10(r *Run) {
	r.Import("Model.CombinerRun")
	r.Import("Model.ComposeCombineRun")
	r.PerShard(80)
	r.Rule = "arrival histories of deliver_sm PDUs through pdu.CombineMultipartDeliverSM: corpus (pre-repair witnesses) first; " +
		"all distinct orderings of the segments of m concurrent messages of N parts (m,N small) with duplicated segments, over every adversarial key set; " +
		"random histories beyond (more messages, up to 255 parts, plain PDUs, malformed numbering, mixed 8/16-bit forms); " +
		"non-trivial = distinct (key set, history) in which a concatenated message of >= 2 parts was delivered or a panic occurred"
	sets := keySets()
	var setNames []string
	for n := range sets {
		setNames = append(setNames, n)
	}
	sort.Strings(setNames)

	// ---- corpus: the pre-repair witnesses
	{
		ks := sets["digit-prefix-dst-vs-ref"]
		t := []segVal{ks[0].seg(2, 1), ks[0].seg(2, 2), ks[1].seg(2, 1), ks[1].seg(2, 2)}
		for _, h := range [][]int{{0, 2, 1, 3}, {0, 3}, {2, 1}, {0, 2, 3, 1}} { // D9: mixed delivery under the Sprint key
			obs := c10One(r, t, tableKey(t), h, "corpus/D9", nil, true)
			referenceCases(r, t, h, obs)
		}
		m := ks[0]
		t = []segVal{m.seg(2, 0), m.seg(2, 3), m.seg(2, 1), m.seg(3, 3), m.seg(2, 2), m.seg(0, 0), m.seg(0, 1), m.seg(255, 255), m.seg(1, 1)}
		for _, h := range [][]int{{0}, {1}, {2, 3}, {2, 3, 4}, {5}, {6}, {7, 2, 4}, {3, 2, 4}, {8, 8}, {2, 0, 1, 3, 4}} { // D8
			obs := c10One(r, t, tableKey(t), h, "corpus/D8", nil, true)
			referenceCases(r, t, h, obs)
		}
		r.Sample(map[string]interface{}{"op": "combine", "history": "dst 12/ref 3 part 1, dst 1/ref 23 part 1, dst 12/ref 3 part 2, dst 1/ref 23 part 2",
			"trace": fmt.Sprint(runCombine([]segVal{ks[0].seg(2, 1), ks[0].seg(2, 2), ks[1].seg(2, 1), ks[1].seg(2, 2)}, []int{0, 2, 1, 3}).Trace)})
	}

	// ---- exhaustive orderings
	type shape struct {
		m, n, dups int
		model      int // every model-th history becomes a model case (1 = all)
		cap        int // stop after this many orderings (0 = all); beyond: random sample
	}
	// (1,2,2) and (1,3,2): a message with two more arrivals of its segments — after the delivery a
	// duplicate starts a fresh, incomplete entry and must not fire (C10_at_most_once, C10_duplicate_after_delivery)
	shapes := []shape{{1, 1, 1, 1, 0}, {1, 2, 1, 1, 0}, {1, 3, 1, 1, 0}, {1, 2, 2, 1, 0}, {1, 3, 2, 1, 0}, {1, 4, 0, 1, 0}, {2, 2, 0, 1, 0}, {2, 2, 1, 1, 0}, {3, 2, 0, 1, 0}, {2, 3, 0, 1, 0}}
	if r.Quick {
		shapes = append(shapes, shape{2, 2, 2, 6, 0}, shape{2, 3, 1, 18, 0}, shape{3, 2, 1, 18, 0})
	} else {
		shapes = append(shapes, shape{2, 2, 2, 1, 0}, shape{2, 3, 1, 2, 0}, shape{3, 2, 1, 2, 0}, shape{4, 2, 0, 8, 0}, shape{3, 3, 0, 60, 0})
	}
	// the quick tier takes, per shape, the eight original key sets and two of the four round-5 ones (rotating with shape and seed);
	// single-message shapes do not depend on what separates messages: two key sets (one per reference form)
	round5 := []string{"letters-and-case", "nul-and-high-octets", "plus-and-leading-zero", "reference-classes"}
	isRound5 := map[string]bool{}
	for _, n := range round5 {
		isRound5[n] = true
	}
	for si, sh := range shapes {
		names := setNames
		if r.Quick {
			names = nil
			for _, n := range setNames {
				if !isRound5[n] {
					names = append(names, n)
				}
			}
			names = append(names, round5[(si+int(r.Seed))%4], round5[(si+int(r.Seed)+2)%4])
			if sh.m == 1 {
				names = []string{"digit-prefix-dst-vs-ref", "equal-ref-different-src"}
			}
		}
		if sh.m*sh.n+sh.dups >= 7 {
			// large shapes: rotate through the key sets instead of the full product
			names = []string{setNames[(si+int(r.Seed))%len(setNames)], "digit-prefix-dst-vs-ref"}
			if !r.Quick && sh.m*sh.n < 9 {
				names = setNames
			}
		}
		for _, name := range names {
			ks := sets[name]
			var table []segVal
			for mi := 0; mi < sh.m; mi++ {
				for q := 1; q <= sh.n; q++ {
					table = append(table, ks[mi].seg(sh.n, q))
				}
			}
			// which segments are duplicated: every choice for one duplicate, a seeded choice for more
			dupChoices := [][]int{{}}
			if sh.dups == 1 {
				dupChoices = nil
				for i := range table {
					dupChoices = append(dupChoices, []int{i})
				}
				if len(table) > 4 {
					dupChoices = [][]int{{0}, {len(table) - 1}, {r.Rng.Intn(len(table))}}
				}
			} else if sh.dups == 2 {
				dupChoices = [][]int{{0, 0}, {0, 1}, {1, 2}, {0, 3}, {r.Rng.Intn(len(table)), r.Rng.Intn(len(table))}}
			}
			for _, dc0 := range dupChoices {
				dc := make([]int, len(dc0))
				for i, x := range dc0 {
					dc[i] = x % len(table)
				}
				hist := make([]int, 0, len(table)+len(dc))
				for i := range table {
					hist = append(hist, i)
				}
				hist = append(hist, dc...)
				sort.Ints(hist)
				bucket := fmt.Sprintf("exhaustive/m=%d,N=%d,dups=%d", sh.m, sh.n, len(dc))
				b := &c10Batch{table: table, desc: fmt.Sprintf("%s keys=%s dup=%v", bucket, name, dc)}
				cnt := 0
				tkey := tableKey(table)
				for ok := true; ok; ok = nextPerm(hist) {
					h := append([]int(nil), hist...)
					obs := c10One(r, table, tkey, h, bucket, b, cnt%sh.model == 0)
					if cnt%997 == 0 {
						referenceCases(r, table, h, obs)
					}
					cnt++
				}
				b.flush(r)
			}
		}
	}
	{
		ks := sets["digit-prefix-dst-vs-ref"]
		r.Sample(map[string]interface{}{"op": "combine", "what": "exhaustive orderings", "example_table": fmt.Sprint(ks[0].seg(2, 1), ks[1].seg(2, 1))})
	}
	// 3 messages x 3 parts: 362,880 orderings — all of them in the thorough tier (above), a random sample here
	if r.Quick {
		ks := sets[setNames[int(r.Seed)%len(setNames)]]
		var table []segVal
		for mi := 0; mi < 3; mi++ {
			for q := 1; q <= 3; q++ {
				table = append(table, ks[mi].seg(3, q))
			}
		}
		b := &c10Batch{table: table, desc: "random orderings m=3,N=3"}
		tkey := tableKey(table)
		for i := 0; i < 4000; i++ {
			h := r.Rng.perm(9)
			c10One(r, table, tkey, h, "sampled/m=3,N=3", b, i%8 == 0)
		}
		b.flush(r)
	}

	// ---- random histories beyond
	n := r.N(550, 8000)
	for i := 0; i < n; i++ {
		name := setNames[r.Rng.Intn(len(setNames))]
		ks := sets[name]
		m := 1 + r.Rng.Intn(4)
		var table []segVal
		lenient := r.Rng.Intn(3) == 0
		for mi := 0; mi < m; mi++ {
			total := r.Rng.Pick([]int{1, 2, 2, 3, 4, 5, 8, 2 + r.Rng.Intn(10)})
			if r.Rng.Intn(120) == 0 {
				total = r.Rng.Pick([]int{254, 255})
			}
			id := ks[mi]
			if r.Rng.Intn(6) == 0 {
				id.Ref = r.Rng.Pick([]int{0, 1, 254, 255, 256, 0xFFFF, r.Rng.Intn(0x10000)})
				id.Form = 1
				if id.Ref < 256 && r.Rng.Bool() {
					id.Form = 0
				}
			}
			for q := 1; q <= total; q++ {
				s := id.seg(total, q)
				if lenient && r.Rng.Intn(12) == 0 {
					// the same reference value in the other form (one key for the code)
					alt := id
					alt.Form = 1 - id.Form
					if alt.Form == 1 || id.Ref < 256 {
						s = alt.seg(total, q)
					}
				}
				table = append(table, s)
			}
			if lenient {
				// malformed numbering under the same key
				for c := r.Rng.Intn(3); c > 0; c-- {
					table = append(table, id.seg(r.Rng.Pick([]int{0, 1, total, total + 1, total - 1, 255}), r.Rng.Pick([]int{0, 1, total, total + 1, 255, r.Rng.Intn(256)})))
				}
			}
		}
		nStrictSegs := len(table)
		// plain PDUs and (lenient) malformed elements
		if r.Rng.Intn(2) == 0 {
			table = append(table, segVal{ks[0].Src, ks[0].Dst, nil})
			if r.Rng.Bool() {
				table = append(table, segVal{ks[0].Src, ks[0].Dst, map[byte][]byte{0x24: {1}, 5: {0, 1, 2, 3}}})
			}
		}
		if lenient && r.Rng.Intn(2) == 0 {
			table = append(table, segVal{ks[0].Src, ks[0].Dst, map[byte][]byte{0: r.Rng.Bytes(r.Rng.Intn(3))}},
				segVal{ks[0].Src, ks[0].Dst, map[byte][]byte{0: {byte(ks[0].Ref), 2, 1}, 8: {0, byte(ks[0].Ref), 2, 2}}})
		}
		if len(table) > 300 {
			table = table[:300]
		}
		// history: a shuffle of all segments, some repeated, some dropped
		var hist []int
		for ix := range table {
			c := 1
			switch r.Rng.Intn(10) {
			case 0:
				c = 0
			case 1, 2:
				c = 2
			case 3:
				c = 3
			}
			if ix >= nStrictSegs {
				c = 1 + r.Rng.Intn(2)
			}
			for ; c > 0; c-- {
				hist = append(hist, ix)
			}
		}
		r.Rng.shuffle(hist)
		if r.Rng.Intn(4) == 0 {
			sort.Ints(hist) // in-order arrival
		}
		bucket := "random/strict"
		if lenient {
			bucket = "random/malformed-numbering"
		}
		obs := c10One(r, table, tableKey(table), hist, bucket, nil, i%3 != 0)
		if i%3 == 0 {
			referenceCases(r, table, hist, obs)
			if obs.PanicAt >= 0 {
				r.Case("combine "+histInput(table, hist), fmt.Sprintf("chk_combine %s %s Panic", coqSegTable(table), coqNatList(hist)))
			}
		}
		if i == 0 {
			r.Sample(map[string]interface{}{"op": "combine", "keys": name, "history": hist, "trace": fmt.Sprint(obs.Trace)})
		}
	}

	// ---- long histories and large totals (c10_long.go)
	c10LongAndLarge(r)

	// ---- what separates messages, at scale (c10_keys.go): reference classes, many messages open at once, two instances
	c10RefClasses(r)
	c10Open(r)
	c10TwoInstances(r)

	// ---- end to end: real ComposeMultipartShortMessage output through the combiner (c10_e2e.go)
	c10EndToEnd(r)

	// ---- the key: Go's struct equality against the model's beq_key, and the legacy Sprint key
	var ids []msgID
	for _, name := range setNames {
		ids = append(ids, sets[name]...)
	}
	type goKey struct {
		Src, Dst pdu.Address
		Ref      uint16
	}
	coqKey := func(m msgID) string {
		return fmt.Sprintf("{| k_src := %s; k_dst := %s; k_ref := %d |}", coqAddr(m.Src), coqAddr(m.Dst), m.Ref)
	}
	for i, a := range ids {
		sp := fmt.Sprint(a.Src.TON, a.Src.NPI, a.Src.No, a.Dst.TON, a.Dst.NPI, a.Dst.No, uint16(a.Ref))
		r.Count("legacy-key/"+sp+fmt.Sprint(i), true, "key/legacy-sprint")
		r.Case(fmt.Sprintf("legacy_key %+v", a), fmt.Sprintf("beq_bytes (legacy_key %s %s %d) %s", coqAddr(a.Src), coqAddr(a.Dst), a.Ref, coqHex([]byte(sp))))
		for j, b := range ids {
			if j < i || (j-i > 4 && (i*31+j)%7 != 0) {
				continue
			}
			eq := goKey{a.Src, a.Dst, uint16(a.Ref)} == goKey{b.Src, b.Dst, uint16(b.Ref)}
			r.Count(fmt.Sprintf("key-eq/%d/%d", i, j), true, "key/equality")
			r.Case(fmt.Sprintf("beq_key %+v %+v", a, b), fmt.Sprintf("Bool.eqb (beq_key %s %s) %s", coqKey(a), coqKey(b), coqBool(eq)))
		}
	}
	spreadHeavy(r, func(e string) bool {
		return strings.HasPrefix(e, "chk_long ") || (strings.HasPrefix(e, "chk_open ") && (strings.Contains(e, " 1000%nat") || strings.Contains(e, " 1025%nat") || strings.Contains(e, "00%nat")))
	})
}

func (r *Rng) perm(n int) []int {
	p := make([]int, n)
	for i := range p {
		p[i] = i
	}
	r.shuffle(p)
	return p
}

func (r *Rng) shuffle(p []int) {
	for i := len(p) - 1; i > 0; i-- {
		j := r.Intn(i + 1)
		p[i], p[j] = p[j], p[i]
	}
}
