package main

// C20, time half: pdu.Time (absolute "YYMMDDhhmmsstnnp") and pdu.Duration
// (relative "YYMMDDhhmmsst00R").  Ops (DESIGN.md Appendix B; strings travel
// as lower-case hex, "-" for the empty string):
//
//	timeparse <hex>          -> ok <tenths> <q> | err | panic
//	timefmt   <tenths> <q>   -> ok <hex>
//	durparse  <hex>          -> ok <tenths> | err | panic
//	durfmt    <tenths>       -> ok <hex>
//
// <tenths> = tenths of a second since 2000-01-01T00:00:00Z (absolute) or the
// period in tenths of a second (relative); <q> = zone offset in quarter hours.
// The same op lines are (a) executed on the implementation here, (b) turned
// into Gallina terms evaluated by coqc (r.Case), (c) in the thorough tier fed
// to the extracted OCaml model (c20_extract.go).

import (
	"encoding/hex"
	"fmt"
	"strconv"
	"strings"
	"time"
	_ "time/tzdata" // the DST locations must be there on every machine

	"github.com/M2MGateway/go-smpp/pdu"
)

const unix2000 = 946684800 // 2000-01-01T00:00:00Z

func floorDiv(a, b int64) int64 {
	q := a / b
	if (a%b != 0) && ((a < 0) != (b < 0)) {
		q--
	}
	return q
}
func floorMod(a, b int64) int64 { return a - floorDiv(a, b)*b }

func tenthsOf(x time.Time) int64 { return (x.Unix()-unix2000)*10 + int64(x.Nanosecond()/1e8) }
func timeAt(t int64, q int) time.Time {
	return time.Unix(floorDiv(t, 10)+unix2000, floorMod(t, 10)*1e8).In(time.FixedZone("", q*900))
}

func hexStr(s string) string {
	if s == "" {
		return "-"
	}
	return hex.EncodeToString([]byte(s))
}
func unhexStr(h string) string {
	if h == "-" {
		return ""
	}
	b, _ := hex.DecodeString(h)
	return string(b)
}

// ---------------------------------------------------------------- the four ops on the implementation

type timeObs struct {
	class string // ok | err | panic
	t     int64
	q     int
	exact bool // value is a whole number of tenths in a whole number of quarter hours
	x     pdu.Time
}

func opTimeParse(s string) (o timeObs) {
	var tm pdu.Time
	var err error
	if p, _ := guard(func() { err = tm.From(s) }); p {
		o.class = "panic"
		return
	}
	if err != nil {
		o.class = "err"
		return
	}
	_, off := tm.Zone()
	o.class, o.t, o.q, o.x = "ok", tenthsOf(tm.Time), off/900, tm
	o.exact = tm.Nanosecond()%1e8 == 0 && off%900 == 0
	return
}

func opTimeFmt(t int64, q int) string { return pdu.Time{Time: timeAt(t, q)}.String() }

func opDurParse(s string) (class string, d int64, exact bool) {
	var du pdu.Duration
	var err error
	if p, _ := guard(func() { err = du.From(s) }); p {
		return "panic", 0, false
	}
	if err != nil {
		return "err", 0, false
	}
	return "ok", floorDiv(int64(du.Duration), 1e8), floorMod(int64(du.Duration), 1e8) == 0
}

func opDurFmt(d int64) string { return pdu.Duration{Duration: time.Duration(d) * 1e8}.String() }

// c20Op executes one op line on the implementation and returns the canonical observation.
func c20Op(line string) string {
	f := strings.Fields(line)
	if len(f) < 2 {
		return "bad-op"
	}
	switch f[0] {
	case "timeparse":
		o := opTimeParse(unhexStr(f[1]))
		if o.class != "ok" {
			return o.class
		}
		return fmt.Sprintf("ok %d %d", o.t, o.q)
	case "timefmt":
		if len(f) < 3 {
			return "bad-op"
		}
		t, _ := strconv.ParseInt(f[1], 10, 64)
		q, _ := strconv.Atoi(f[2])
		return "ok " + hexStr(opTimeFmt(t, q))
	case "durparse":
		c, d, _ := opDurParse(unhexStr(f[1]))
		if c != "ok" {
			return c
		}
		return fmt.Sprintf("ok %d", d)
	case "durfmt":
		d, _ := strconv.ParseInt(f[1], 10, 64)
		return "ok " + hexStr(opDurFmt(d))
	}
	return "bad-op"
}

// c20Term is the closed boolean Gallina term that is true iff the model
// reproduces observation obs of op line.
func c20Term(line, obs string) string {
	f := strings.Fields(line)
	o := strings.Fields(obs)
	str := func(h string) string { return coqHex([]byte(unhexStr(h))) }
	z := func(s string) string { n, _ := strconv.ParseInt(s, 10, 64); return coqZ(n) }
	switch f[0] {
	case "timeparse":
		switch o[0] {
		case "ok":
			return fmt.Sprintf("time_parse_is %s %s %s", str(f[1]), z(o[1]), z(o[2]))
		case "err":
			return fmt.Sprintf("time_parse_rejects %s", str(f[1]))
		}
		return fmt.Sprintf("is_panic (time_parse %s)", str(f[1]))
	case "timefmt":
		return fmt.Sprintf("time_format_is %s %s %s", z(f[1]), z(f[2]), str(o[1]))
	case "durparse":
		switch o[0] {
		case "ok":
			return fmt.Sprintf("dur_parse_is %s %s", str(f[1]), z(o[1]))
		case "err":
			return fmt.Sprintf("dur_parse_rejects %s", str(f[1]))
		}
		return fmt.Sprintf("is_panic (dur_parse %s)", str(f[1]))
	case "durfmt":
		return fmt.Sprintf("dur_format_is %s %s", z(f[1]), str(o[1]))
	}
	return "false"
}

// ---------------------------------------------------------------- the standard's reading, written independently
// (SMPP v5 4.7.23.4): fields at fixed positions, a real calendar date.

var mdays = [13]int{0, 31, 28, 31, 30, 31, 30, 31, 31, 30, 31, 30, 31}

func isLeap(y int) bool { return y%4 == 0 && (y%100 != 0 || y%400 == 0) }
func daysIn(y, m int) int {
	if m == 2 && isLeap(y) {
		return 29
	}
	return mdays[m]
}

// days since 2000-01-01 by counting (deliberately not the era algorithm of the model, not package time)
func daysSince2000(y, m, d int) int64 {
	n := int64(0)
	for yy := 2000; yy < y; yy++ {
		n += 365
		if isLeap(yy) {
			n++
		}
	}
	for mm := 1; mm < m; mm++ {
		n += int64(daysIn(y, mm))
	}
	return n + int64(d-1)
}

type absFields struct {
	yy, mo, dd, hh, mi, ss, t, nn int
	p                             byte
}

func readFields(s string) (f absFields, ok bool) {
	if len(s) != 16 {
		return f, false
	}
	for i := 0; i < 15; i++ {
		if s[i] < '0' || s[i] > '9' {
			return f, false
		}
	}
	two := func(i int) int { return int(s[i]-'0')*10 + int(s[i+1]-'0') }
	return absFields{two(0), two(2), two(4), two(6), two(8), two(10), int(s[12] - '0'), two(13), s[15]}, true
}

// validAbs: valid absolute time string of property C20; returns what it denotes
func validAbs(s string) (ok bool, t int64, q int) {
	f, ok := readFields(s)
	if !ok || (f.p != '+' && f.p != '-') || f.mo < 1 || f.mo > 12 || f.dd < 1 || f.dd > daysIn(2000+f.yy, f.mo) ||
		f.hh > 23 || f.mi > 59 || f.ss > 59 || f.nn > 48 {
		return false, 0, 0
	}
	q = f.nn
	if f.p == '-' {
		q = -q
	}
	local := daysSince2000(2000+f.yy, f.mo, f.dd)*864000 + int64(f.hh)*36000 + int64(f.mi)*600 + int64(f.ss)*10 + int64(f.t)
	return true, local - int64(q)*9000, q
}

func validRel(s string) bool {
	f, ok := readFields(s)
	return ok && f.p == 'R' && f.nn == 0 && f.mo <= 12 && f.dd <= 31 && f.hh <= 23 && f.mi <= 59 && f.ss <= 59
}

const centuryTenths = 36525 * 864000

func inTimeDomain(t int64, q int) bool {
	l := t + int64(q)*9000
	return q >= -48 && q <= 48 && l >= 0 && l < centuryTenths
}

const durMax = 100 * 8760 * 36000 // 100 "years" of 8760 h, in tenths

// ---------------------------------------------------------------- run one op: direct tests + model case

type c20Time struct {
	r        *Run
	caseLeft map[string]int // model-case budget per op (direct tests are unbudgeted)
	advLeft  map[string]int // advisory-case budget per op (inputs outside the property's quantifier)
	// every op line executed, with the implementation's observation, for the
	// extracted-model comparison (c20_extract.go).  strict = the input lies in
	// the property's quantifier (or is pinned by the repository's own tests):
	// only those are compared as model cases, so that a correct change of what
	// happens OUTSIDE the property (stricter validation of malformed strings,
	// another rendering of unrepresentable years ...) raises no alarm.
	ops    []string
	obs    []string
	strict []bool
}

func (c *c20Time) emit(line, obs string, strict, force bool) {
	c.ops = append(c.ops, line)
	c.obs = append(c.obs, obs)
	c.strict = append(c.strict, strict)
	op := strings.Fields(line)[0]
	if !strict {
		// outside the property's quantifier (malformed strings, instants / periods out of range): an ADVISORY model case
		// (a disagreement is a note in the evidence, not a violation) -- this is what ties C20_time_parse_total's acceptance
		// shape and C20_time_domain_edge to the implementation without alarming on stricter validation
		if c.advLeft[op] > 0 {
			c.advLeft[op]--
			c.r.Advisory(line+" -> "+obs, c20Term(line, obs))
		}
		return
	}
	if !force {
		if c.caseLeft[op] <= 0 {
			return
		}
		c.caseLeft[op]--
	}
	c.r.Case(line+" -> "+obs, c20Term(line, obs))
}

// inputs outside the property that TestTime / TestDuration of the repository pin
func pinnedByRepoTests(s string) bool { return s == "" || s == "000101000000000" }

func (c *c20Time) timeParse(s, bucket string, force bool) {
	r := c.r
	line := "timeparse " + hexStr(s)
	o := opTimeParse(s)
	valid, wt, wq := validAbs(s)
	vb := "not-valid"
	if valid {
		vb = "valid"
	}
	r.Count(line, s != "", "timeparse/"+bucket+"/"+vb+"/"+o.class)
	obs := o.class
	if o.class == "ok" {
		obs = fmt.Sprintf("ok %d %d", o.t, o.q)
	}
	show := fmt.Sprintf("timeparse %s (%q)", hexStr(s), s)
	if o.class == "panic" {
		r.Fail("time/parse/panic", "Time.From panics", show, "panic", "a value or an error")
	}
	if valid {
		switch {
		case o.class != "ok":
			r.Fail("time/parse/valid-rejected", "Time.From rejects a valid absolute time string", show, o.class, "accepted")
		case !o.exact || o.t != wt || o.q != wq:
			r.Fail("time/parse/layout", "Time.From does not read the fields at the positions SMPP v5 4.7.23.4 assigns",
				show, fmt.Sprintf("instant=%d tenths after 2000-01-01T00:00Z, offset=%d quarter hours (%s)", o.t, o.q, o.x.Time.Format(time.RFC3339Nano)),
				fmt.Sprintf("instant=%d offset=%d", wt, wq))
		default:
			back := o.x.String()
			if back != s {
				class := "time/parse-fmt"
				if f, _ := readFields(s); f.nn == 0 && f.p == '-' {
					class = "time/parse-fmt/nn=00,p=minus"
				}
				r.Fail(class, "parsing then formatting a valid absolute time string does not return the same 16 characters",
					show, fmt.Sprintf("%q", back), fmt.Sprintf("%q", s))
			}
		}
	}
	c.emit(line, obs, valid || pinnedByRepoTests(s), force)
	if o.class == "ok" && o.exact && s != "" {
		// the formatter on whatever value came out
		c.timeFmt(o.t, o.q, bucket+"/reformat", force)
	}
}

func (c *c20Time) timeFmt(t int64, q int, bucket string, force bool) {
	r := c.r
	line := fmt.Sprintf("timefmt %d %d", t, q)
	s := opTimeFmt(t, q)
	dom := inTimeDomain(t, q)
	db := "outside-domain"
	if dom {
		db = "in-domain"
	}
	r.Count(line, true, "timefmt/"+bucket+"/"+db)
	if dom {
		show := fmt.Sprintf("timefmt %d %d (%s)", t, q, timeAt(t, q).Format(time.RFC3339Nano))
		o := opTimeParse(s)
		valid, _, _ := validAbs(s)
		switch {
		case !valid:
			r.Fail("time/fmt/invalid-string", "Time.String of a representable instant is not a valid absolute time string", show, fmt.Sprintf("%q", s), "a valid 16-character string")
		case o.class != "ok" || !o.exact || o.t != t || o.q != q:
			r.Fail("time/fmt-parse", "formatting then parsing an absolute time does not return the same instant and offset",
				show, fmt.Sprintf("string=%q parsed=%s instant=%d offset=%d", s, o.class, o.t, o.q), fmt.Sprintf("instant=%d offset=%d", t, q))
		}
	}
	c.emit(line, "ok "+hexStr(s), dom, force)
}

func (c *c20Time) durFmt(d int64, bucket string, force bool) {
	r := c.r
	line := fmt.Sprintf("durfmt %d", d)
	s := opDurFmt(d)
	dom := d >= 10 && d < durMax
	db := "outside-domain"
	if dom {
		db = "in-domain"
	}
	r.Count(line, true, "durfmt/"+bucket+"/"+db)
	if dom {
		show := fmt.Sprintf("durfmt %d (%s)", d, time.Duration(d)*1e8)
		cl, back, exact := opDurParse(s)
		switch {
		case !validRel(s):
			r.Fail("duration/fmt/invalid-string", "Duration.String of a period in range is not a valid relative time string", show, fmt.Sprintf("%q", s), "a valid 16-character string")
		case cl != "ok" || !exact || back != d:
			r.Fail("duration/fmt-parse", "formatting then parsing a relative period does not return the same duration",
				show, fmt.Sprintf("string=%q parsed=%s %d", s, cl, back), fmt.Sprintf("%d", d))
		}
	}
	c.emit(line, "ok "+hexStr(s), dom || d == 0, force)
}

func (c *c20Time) durParse(s, bucket string, force bool) {
	r := c.r
	line := "durparse " + hexStr(s)
	cl, d, exact := opDurParse(s)
	vb := "not-valid"
	if validRel(s) {
		vb = "valid"
	}
	r.Count(line, s != "", "durparse/"+bucket+"/"+vb+"/"+cl)
	obs := cl
	if cl == "ok" {
		obs = fmt.Sprintf("ok %d", d)
	}
	show := fmt.Sprintf("durparse %s (%q)", hexStr(s), s)
	if cl == "panic" {
		r.Fail("duration/parse/panic", "Duration.From panics", show, "panic", "a value or an error")
	}
	if validRel(s) {
		f, _ := readFields(s)
		want := ((((int64(f.yy)*8760+int64(f.mo)*720+int64(f.dd)*24+int64(f.hh))*60+int64(f.mi))*60 + int64(f.ss)) * 10) + int64(f.t)
		if cl != "ok" || !exact || d != want {
			r.Fail("duration/parse/layout", "Duration.From does not read the fields at the positions SMPP v5 4.7.23.5 assigns",
				show, fmt.Sprintf("%s %d", cl, d), fmt.Sprintf("ok %d", want))
		}
	}
	c.emit(line, obs, validRel(s) || pinnedByRepoTests(s), force)
}

// ---------------------------------------------------------------- generators

func absString(yy, mo, dd, hh, mi, ss, t, nn int, p byte) string {
	return fmt.Sprintf("%02d%02d%02d%02d%02d%02d%d%02d%c", yy, mo, dd, hh, mi, ss, t, nn, p)
}

var malformedChars = []byte("+-R rx:/.09_\x00\xff")

func mutateTimeStr(rng *Rng, s string) string {
	b := []byte(s)
	switch rng.Intn(6) {
	case 0: // wrong length
		n := rng.Pick([]int{1, 2, 8, 14, 15, 17, 18, 32})
		for len(b) < n {
			b = append(b, byte('0'+rng.Intn(10)))
		}
		b = b[:n]
	case 1: // another final symbol
		if len(b) > 0 {
			b[len(b)-1] = rng.Byte()
		}
	default: // 1..3 positions overwritten (sign characters are what strconv.ParseInt also accepts)
		for k := 1 + rng.Intn(3); k > 0 && len(b) > 0; k-- {
			b[rng.Intn(len(b))] = malformedChars[rng.Intn(len(malformedChars))]
		}
	}
	return string(b)
}

func corrC20Time(r *Run) *c20Time {
	r.Import("Model.SmppTime")
	c := &c20Time{r: r, caseLeft: map[string]int{}, advLeft: map[string]int{}}
	for _, op := range []string{"timeparse", "timefmt", "durparse", "durfmt"} {
		c.advLeft[op] = r.N(200, 2000)
	}
	rng := r.Rng
	// kernel-case budgets (each op line is ALSO a direct test; in the thorough tier every line additionally
	// goes through the extracted model, the kernel cases being the vm_compute slice all three must agree on)
	c.caseLeft["timeparse"] = r.N(2600, 30000)
	c.caseLeft["timefmt"] = r.N(2600, 34000)
	c.caseLeft["durfmt"] = r.N(1000, 12000)
	c.caseLeft["durparse"] = r.N(400, 5000)

	// ---- 0. corpus: the repository's own vectors and the known finding first
	for _, s := range []string{"", "000101000000000+", "111019080000704-", "201020182347832+", "991231235959948+",
		"000101000000000", "020610233429000-", "000229235959900-", "020610233429000R"} {
		c.timeParse(s, "corpus", true)
	}
	for _, s := range []string{"", "000007000000000R", "010203040506700R", "991025033429000R", "000101000000000", "000101000000000+"} {
		c.durParse(s, "corpus", true)
	}

	// ---- 1. month lengths of 2000..2099 as package time sees them (ties valid_date / days_in_month)
	for y := 2000; y <= 2099; y++ {
		var l []string
		for m := 1; m <= 12; m++ {
			got := time.Date(y, time.Month(m+1), 0, 0, 0, 0, 0, time.UTC).Day()
			if got != daysIn(y, m) {
				r.Notes = append(r.Notes, fmt.Sprintf("harness calendar disagrees with package time at %d-%02d", y, m))
			}
			l = append(l, coqZ(int64(got)))
		}
		r.Count(fmt.Sprintf("monthlen/%d", y), true, "month lengths of a year")
		r.Case(fmt.Sprintf("month_lengths %d", y), fmt.Sprintf("month_lengths_are %s %s", coqZ(int64(y)), coqList(l)))
	}

	// ---- 2. absolute strings: the full product of boundary values of each component
	years := []int{0, 1, 96, 99} // 2000 leap (400 rule), 2001, 2096 leap, 2099
	days := []int{1, 28, 29, 30, 31}
	hm := []int{0, 23}
	ms := []int{0, 59}
	ts := []int{0, 9}
	nns := []int{0, 1, 48}
	type cand struct {
		s      string
		corner bool
	}
	var prod []cand
	for _, yy := range years {
		for mo := 1; mo <= 12; mo++ {
			for _, dd := range days {
				for _, hh := range hm {
					for _, mi := range ms {
						for _, ss := range ms {
							for _, t := range ts {
								for _, nn := range nns {
									for _, p := range []byte{'+', '-'} {
										corner := (yy == 0 || yy == 99) && (mo == 1 || mo == 2 || mo == 12) // the product the property's quantifier lists
										prod = append(prod, cand{absString(yy, mo, dd, hh, mi, ss, t, nn, p), corner})
									}
								}
							}
						}
					}
				}
			}
		}
	}
	// the listed product always reaches the kernel model in full; the wider product (4 years x 12 months) reaches it in
	// seeded random order while the quick budget lasts (all of it in the thorough tier); every string is a direct test
	for _, x := range prod {
		if x.corner {
			c.timeParse(x.s, "boundary-product", true)
		}
	}
	perm := make([]int, len(prod))
	for i := range perm {
		perm[i] = i
	}
	for i := len(perm) - 1; i > 0; i-- {
		j := rng.Intn(i + 1)
		perm[i], perm[j] = perm[j], perm[i]
	}
	for _, i := range perm {
		if !prod[i].corner {
			c.timeParse(prod[i].s, "boundary-product", false)
		}
	}
	r.Sample(map[string]interface{}{"op": "timeparse", "string": "991231235959948-", "note": "one of the boundary product"})

	// ---- 3. absolute strings: random interior points (valid by construction)
	n := r.N(6000, 120000)
	for i := 0; i < n; i++ {
		yy, mo := rng.Intn(100), 1+rng.Intn(12)
		dd := 1 + rng.Intn(daysIn(2000+yy, mo))
		p := byte('+')
		if rng.Bool() {
			p = '-'
		}
		s := absString(yy, mo, dd, rng.Intn(24), rng.Intn(60), rng.Intn(60), rng.Intn(10), rng.Intn(49), p)
		c.timeParse(s, "random-valid", i < r.N(600, 10000))
		if i < 2 {
			r.Sample(map[string]interface{}{"op": "timeparse", "string": s})
		}
	}

	// ---- 4. absolute strings the standard does not allow: fields out of range (time.Date carries over),
	// nn up to 99, characters strconv.ParseInt accepts or rejects, wrong lengths and symbols
	n = r.N(1500, 30000)
	for i := 0; i < n; i++ {
		var s string
		switch i % 3 {
		case 0: // fifteen random digits
			b := make([]byte, 16)
			for k := 0; k < 15; k++ {
				b[k] = byte('0' + rng.Intn(10))
			}
			b[15] = "+-"[rng.Intn(2)]
			s = string(b)
		case 1:
			s = mutateTimeStr(rng, prod[rng.Intn(len(prod))].s)
		default:
			s = mutateTimeStr(rng, mutateTimeStr(rng, prod[rng.Intn(len(prod))].s))
		}
		c.timeParse(s, "malformed", i < r.N(900, n))
		if i%2 == 0 {
			if i%4 == 0 && len(s) == 16 {
				s = s[:15] + "R"
			}
			c.durParse(s, "malformed", i < r.N(900, n))
		}
	}

	// ---- 5. instants: both ends of the representable range in every zone, leap days, just outside
	for q := -48; q <= 48; q++ {
		off := int64(q) * 9000
		for _, l := range []int64{0, 1, centuryTenths - 2, centuryTenths - 1, -1, centuryTenths} {
			c.timeFmt(l-off, q, "range-ends", true)
		}
	}
	for _, y := range []int{2000, 2001, 2004, 2096, 2099} {
		for _, md := range [][2]int{{2, 28}, {3, 1}, {12, 31}, {1, 1}} {
			d0 := daysSince2000(y, md[0], md[1]) * 864000
			for _, l := range []int64{d0, d0 + 863999, d0 + 864000, d0 - 1} {
				for _, q := range []int{0, 1, -1, 48, -48} {
					c.timeFmt(l-int64(q)*9000, q, "leap-and-year-ends", true)
				}
			}
		}
	}
	// random interior instants x random zone
	n = r.N(6000, 120000)
	for i := 0; i < n; i++ {
		q := rng.Intn(97) - 48
		l := int64(rng.U64() % uint64(centuryTenths))
		c.timeFmt(l-int64(q)*9000, q, "random", i < r.N(2500, 12000))
		if i < 2 {
			r.Sample(map[string]interface{}{"op": "timefmt", "tenths_since_2000": l - int64(q)*9000, "quarter_hours": q, "string": opTimeFmt(l-int64(q)*9000, q)})
		}
	}
	// a few instants well outside (1990..2110, zones up to +-99 quarter hours): model comparison only
	n = r.N(300, 3000)
	for i := 0; i < n; i++ {
		q := rng.Intn(199) - 99
		l := int64(rng.U64()%uint64(120*366*864000)) - 10*366*864000
		c.timeFmt(l-int64(q)*9000, q, "far-outside", i < r.N(300, n))
	}

	// ---- 6. periods: unit boundaries, a dense grid at the low end, a coarse grid over the whole range, random
	units := []int64{10, 600, 36000, 864000, 720 * 36000, 8760 * 36000}
	ks := []int64{1, 2, 9, 10, 11, 12, 13, 23, 24, 25, 28, 29, 30, 31, 59, 60, 61, 98, 99, 100}
	for _, u := range units {
		for _, k := range ks {
			for _, dlt := range []int64{-1, 0, 1} {
				c.durFmt(k*u+dlt, "unit-boundaries", true)
			}
		}
	}
	for _, d := range []int64{-10, 0, 1, 9, 10, 11, durMax - 1, durMax, durMax + 1, 1 << 36} {
		c.durFmt(d, "range-ends", true)
	}
	for d := int64(0); d < int64(r.N(3000, 40000)); d++ {
		c.durFmt(d, "dense-low", d < 700)
	}
	step := int64(r.N(7919*211, 7919*53)) // coprime to every unit
	for d := int64(10); d < durMax; d += step {
		c.durFmt(d, "coarse-grid", false)
	}
	n = r.N(3000, 60000)
	for i := 0; i < n; i++ {
		d := int64(rng.U64() % uint64(durMax))
		if i%4 == 0 { // mixed-radix digits chosen independently: many zero / maximal fields
			lims := []int64{60, 60, 24, 30, 12, 100}
			d = int64(rng.Intn(10))
			for k, u := range units {
				switch rng.Intn(3) {
				case 0:
				case 1:
					d += (lims[k] - 1) * u
				default:
					d += int64(rng.Intn(int(lims[k]))) * u
				}
			}
			d %= durMax
		}
		c.durFmt(d, "random", i < r.N(600, 5000))
		if i < 2 {
			r.Sample(map[string]interface{}{"op": "durfmt", "tenths": d, "string": opDurFmt(d)})
		}
	}
	// relative strings: the formatter's outputs and field-wise random strings back through the parser
	n = r.N(600, 12000)
	for i := 0; i < n; i++ {
		s := fmt.Sprintf("%02d%02d%02d%02d%02d%02d%d%02dR", rng.Intn(100), rng.Intn(14), rng.Intn(33), rng.Intn(25),
			rng.Intn(61), rng.Intn(61), rng.Intn(10), rng.Pick([]int{0, 0, 0, 1, 48}))
		c.durParse(s, "field-wise", true)
	}
	c.receiverHistories(prod[0].s)
	c.boundaryOffsets()
	c.locations()
	c.receiverLocations()
	return c
}

// receiverLocations (seeded C20-z2): receiver state that NO earlier From call can produce.  The variable is assigned
// directly a time.Time in time.UTC, time.Local, a DST location on either side of a switch, a named fixed zone, or the
// zero Time; then From(s) for valid strings whose offset EQUALS the receiver's current offset (dated in every season, so
// on both sides of the receiver's DST switches) and for other offsets.  What the variable holds afterwards - instant,
// offset, String() - must be what a fresh variable holds.  Same for Duration and the octet codecs with receivers built by
// direct assignment (negative, huge, sub-tenth durations; arbitrary struct contents).
func (c *c20Time) receiverLocations() {
	r, rng := c.r, c.r.Rng
	locs := []*time.Location{time.UTC, time.Local, time.FixedZone("CEST", 7200), time.FixedZone("", 3600), time.FixedZone("-", -5*3600)}
	for _, name := range []string{"Europe/Berlin", "America/New_York", "Australia/Sydney", "Australia/Lord_Howe", "Asia/Kathmandu", "America/St_Johns"} {
		if l, err := time.LoadLocation(name); err == nil {
			locs = append(locs, l)
		} else {
			r.Notes = append(r.Notes, "zone database entry missing: "+name)
		}
	}
	months := []int{1, 3, 4, 6, 8, 10, 11, 12}
	var priors []time.Time
	for _, loc := range locs {
		for _, mo := range []int{1, 4, 7, 10, 12} {
			priors = append(priors, time.Date(2000+rng.Intn(100), time.Month(mo), 1+rng.Intn(28), rng.Intn(24), rng.Intn(60), rng.Intn(60), rng.Intn(10)*1e8, loc))
		}
	}
	priors = append(priors, time.Time{}, time.Now(), time.Now().UTC())
	for _, prior := range priors {
		_, off0 := prior.Zone()
		var strs []string
		if off0%900 == 0 && off0 >= -48*900 && off0 <= 48*900 { // the receiver's own offset, in every season
			nn, p := off0/900, byte('+')
			if nn < 0 {
				nn, p = -nn, '-'
			}
			for _, mo := range months {
				strs = append(strs, absString(rng.Intn(100), mo, 1+rng.Intn(28), rng.Intn(24), rng.Intn(60), rng.Intn(60), rng.Intn(10), nn, p))
			}
		}
		for k := 0; k < 3; k++ { // other offsets
			strs = append(strs, absString(rng.Intn(100), 1+rng.Intn(12), 1+rng.Intn(28), rng.Intn(24), rng.Intn(60), rng.Intn(60), rng.Intn(10), 1+rng.Intn(48), "+-"[rng.Intn(2)]))
		}
		strs = append(strs, "", "000101000000000")
		for _, s := range strs {
			tm := pdu.Time{Time: prior}
			err := tm.From(s)
			fresh := opTimeParse(s)
			_, off := tm.Zone()
			t1, q1 := tenthsOf(tm.Time), off/900
			show := fmt.Sprintf("timefrom receiver=%s (%s) then %s (%q)", prior.Format(time.RFC3339Nano), prior.Location(), hexStr(s), s)
			r.Count(show, true, "timefrom/receiver assigned directly: "+prior.Location().String())
			valid, _, _ := validAbs(s)
			switch {
			case (err == nil) != (fresh.class == "ok"):
				r.Fail("time/receiver/error-class", "Time.From on a variable that already holds a value returns another error class than on a fresh variable", show, fmt.Sprint(err), fresh.class)
			case valid && (t1 != fresh.t || q1 != fresh.q || off%900 != 0 || tm.String() != fresh.x.String()):
				r.Fail("time/receiver/location", "Time.From of a valid string into a variable holding a time in another Location does not store the instant and offset of the string", show,
					fmt.Sprintf("instant=%d offset=%ds %q (%s)", t1, off, tm.String(), tm.Time.Format(time.RFC3339Nano)),
					fmt.Sprintf("instant=%d offset=%ds %q", fresh.t, fresh.q*900, fresh.x.String()))
			case s == "" && (!tm.IsZero() || tm.String() != ""):
				r.Fail("time/receiver/empty-string", "Time.From(\"\") into a variable that already holds a value does not store the null time", show, tm.String(), "\"\"")
			}
			if valid && off0%900 == 0 && prior.Nanosecond()%1e8 == 0 {
				r.Case(show, fmt.Sprintf("time_from_is %s %s %s %s %s %s", coqZ(tenthsOf(prior)), coqZ(int64(off0/900)), coqHex([]byte(s)), coqBool(err == nil), coqZ(t1), coqZ(int64(q1))))
			}
		}
	}
	// Duration: receivers no From call produces
	for _, d0 := range []time.Duration{-time.Hour, 1, 99999999, 1<<62 - 1, -1 << 62, 12345678912345, time.Duration(rng.U64())} {
		for _, s := range []string{"000000000010000R", "991130235959900R", "", fmt.Sprintf("%02d%02d%02d%02d%02d%02d%d00R", rng.Intn(100), rng.Intn(12), rng.Intn(30), rng.Intn(24), rng.Intn(60), rng.Intn(60), rng.Intn(10))} {
			du := pdu.Duration{Duration: d0}
			err := du.From(s)
			cl, fd, _ := opDurParse(s)
			show := fmt.Sprintf("durfrom receiver=%d ns then %s (%q)", int64(d0), hexStr(s), s)
			r.Count(show, true, "durfrom/receiver assigned directly")
			if (err == nil) != (cl == "ok") || cl == "ok" && (floorDiv(int64(du.Duration), 1e8) != fd || int64(du.Duration)%1e8 != 0) {
				r.Fail("duration/receiver/valid-string", "Duration.From into a variable assigned directly does not store the value of the string", show,
					fmt.Sprintf("err=%v %d ns", err, int64(du.Duration)), fmt.Sprintf("%s %d tenths", cl, fd))
			}
		}
	}
}

// boundaryOffsets (audit C20-D2): every offset nn = 02..47, both signs, at year / month / day boundaries (alternating
// midnight and the last tenth of the day) - on every run, as strict cases.
func (c *c20Time) boundaryOffsets() {
	dates := [][3]int{{0, 1, 1}, {99, 12, 31}, {0, 2, 29}, {99, 2, 28}, {0, 12, 31}, {1, 1, 1}}
	for nn := 2; nn <= 47; nn++ {
		for _, p := range []byte{'+', '-'} {
			for k, d := range dates {
				if (nn+k)%2 == 0 {
					c.timeParse(absString(d[0], d[1], d[2], 0, 0, 0, 0, nn, p), "boundary-offsets-02..47", (nn+k)%3 == 0)
				} else {
					c.timeParse(absString(d[0], d[1], d[2], 23, 59, 59, 9, nn, p), "boundary-offsets-02..47", (nn+k)%3 == 0)
				}
			}
		}
	}
}

// locations (audit C20-D3): pdu.Time values whose time.Time is NOT in time.FixedZone("", q*900): time.UTC, time.Local,
// named fixed zones, a DST location when the zone database is there, time.Now() with its monotonic reading.  Time.String
// must print what it prints for the same instant in the anonymous fixed zone of the same offset, and Time.From must
// read it back to the same instant and offset.
func (c *c20Time) locations() {
	r, rng := c.r, c.r.Rng
	locs := []*time.Location{time.UTC, time.Local, time.FixedZone("CEST", 7200), time.FixedZone("-", -3600), time.FixedZone("UTC", 0),
		time.FixedZone("+0545", 5*3600+45*60)}
	for _, name := range []string{"Europe/Berlin", "America/New_York", "Australia/Lord_Howe"} {
		if l, err := time.LoadLocation(name); err == nil {
			locs = append(locs, l)
		}
	}
	check := func(x time.Time, what string) {
		_, off := x.Zone()
		if off%900 != 0 || off < -48*900 || off > 48*900 {
			return // outside the property (e.g. a half-hour DST zone such as Lord Howe in summer)
		}
		t, q := floorDiv((x.Unix()-unix2000)*10+int64(x.Nanosecond()/1e8), 1), off/900
		if !inTimeDomain(t, q) {
			return
		}
		got := pdu.Time{Time: x}.String()
		want := opTimeFmt(t, q)
		show := fmt.Sprintf("timefmt %d %d (%s, %s)", t, q, x.Format(time.RFC3339Nano), what)
		r.Count("loc/"+what+"/"+show, true, "timefmt/location: "+what)
		if got != want {
			r.Fail("time/fmt/location", "Time.String depends on the Location / monotonic reading of the time.Time, not only on instant and offset", show,
				fmt.Sprintf("%q", got), fmt.Sprintf("%q as for the same instant in time.FixedZone(\"\", offset)", want))
			return
		}
		o := opTimeParse(got)
		if o.class != "ok" || o.t != t || o.q != q {
			r.Fail("time/fmt-parse/location", "formatting then parsing an absolute time in a named Location does not return the same instant and offset", show,
				fmt.Sprintf("string=%q parsed=%s instant=%d offset=%d", got, o.class, o.t, o.q), fmt.Sprintf("instant=%d offset=%d", t, q))
		}
	}
	n := r.N(150, 1500)
	for i := 0; i < n; i++ {
		l := int64(rng.U64() % uint64(centuryTenths))
		base := time.Unix(floorDiv(l, 10)+unix2000, floorMod(l, 10)*1e8+int64(rng.Intn(1e8))) // sub-tenth nanoseconds are truncated
		for _, loc := range locs {
			check(base.In(loc), loc.String())
		}
	}
	now := time.Now() // carries a monotonic clock reading
	check(now, "time.Now() with monotonic reading")
	check(now.Round(0), "time.Now() without monotonic reading")
	check(now.UTC(), "time.Now().UTC()")
	if a, b := (pdu.Time{Time: now}).String(), (pdu.Time{Time: now.Round(0)}).String(); a != b {
		r.Fail("time/fmt/location", "Time.String differs with and without the monotonic clock reading", "timefmt now", a, b)
	}
}

// ---------------------------------------------------------------- receivers that already hold a value
// From is a method on a pointer.  Every op above starts from a fresh variable; here one variable is used for a
// history of calls (and is pre-set without From), and what it holds after the LAST call must be what a fresh
// variable would hold: the value of a valid string, the zero value after "" (the repository's tests pin "" as the
// null time / period).  After a rejected string only the error class is required (the variable's content is an
// advisory case).
func (c *c20Time) receiverHistories(anyValid string) {
	r, rng := c.r, c.r.Rng
	randValid := func() string {
		yy, mo := rng.Intn(100), 1+rng.Intn(12)
		p := byte('+')
		if rng.Bool() {
			p = '-'
		}
		return absString(yy, mo, 1+rng.Intn(daysIn(2000+yy, mo)), rng.Intn(24), rng.Intn(60), rng.Intn(60), rng.Intn(10), 1+rng.Intn(48), p)
	}
	randRel := func() string {
		return fmt.Sprintf("%02d%02d%02d%02d%02d%02d%d00R", rng.Intn(100), rng.Intn(12), rng.Intn(30), rng.Intn(24), rng.Intn(60), rng.Intn(60), rng.Intn(10))
	}
	rejected := []string{"000101000000000", "020610233429000R", "0206102334290000+", "x", "991231235959948*"}
	n := r.N(300, 2000)
	for i := 0; i < n; i++ {
		// ---- pdu.Time
		var tm pdu.Time
		var hist []string
		switch i % 4 {
		case 0: // pre-set without From
			tm = pdu.Time{Time: timeAt(int64(rng.U64()%uint64(centuryTenths)), rng.Intn(97)-48)}
			hist = append(hist, "preset")
		default:
			for k := 1 + rng.Intn(3); k > 0; k-- {
				s0 := randValid()
				if rng.Intn(5) == 0 {
					s0 = rejected[rng.Intn(len(rejected))]
				}
				_ = tm.From(s0)
				hist = append(hist, s0)
			}
		}
		_, off0 := tm.Zone()
		t0, q0, exact0 := tenthsOf(tm.Time), off0/900, tm.Nanosecond()%1e8 == 0 && off0%900 == 0
		var last string
		switch rng.Intn(4) {
		case 0:
			last = ""
		case 1:
			last = rejected[rng.Intn(len(rejected))]
		default:
			last = randValid()
		}
		err := tm.From(last)
		_, off := tm.Zone()
		t1, q1 := tenthsOf(tm.Time), off/900
		fresh := opTimeParse(last)
		show := fmt.Sprintf("timefrom history=%q then %s (%q)", hist, hexStr(last), last)
		r.Count(show, true, "timefrom/reused receiver")
		valid, _, _ := validAbs(last)
		switch {
		case (err == nil) != (fresh.class == "ok"):
			r.Fail("time/receiver/error-class", "Time.From on a variable that already holds a value returns another error class than on a fresh variable", show,
				fmt.Sprint(err), fresh.class)
		case valid && (t1 != fresh.t || q1 != fresh.q || tm.String() != fresh.x.String()):
			r.Fail("time/receiver/valid-string", "Time.From of a valid string into a variable that already holds a value does not store the value of the string", show,
				fmt.Sprintf("instant=%d offset=%d %q", t1, q1, tm.String()), fmt.Sprintf("instant=%d offset=%d %q", fresh.t, fresh.q, fresh.x.String()))
		case last == "" && (!tm.IsZero() || tm.String() != ""):
			r.Fail("time/receiver/empty-string", "Time.From(\"\") into a variable that already holds a value does not store the null time", show,
				fmt.Sprintf("%q (%s)", tm.String(), tm.Time.Format(time.RFC3339Nano)), "\"\" (zero time)")
		}
		if exact0 {
			term := fmt.Sprintf("time_from_is %s %s %s %s %s %s", coqZ(t0), coqZ(int64(q0)), coqHex([]byte(last)), coqBool(err == nil), coqZ(t1), coqZ(int64(q1)))
			if valid || last == "" {
				r.Case(show, term)
			} else {
				r.Advisory(show, term)
			}
		}
		// ---- pdu.Duration
		var du pdu.Duration
		hist = nil
		switch i % 4 {
		case 1:
			du = pdu.Duration{Duration: time.Duration(rng.U64()%uint64(durMax)) * 1e8}
			hist = append(hist, "preset")
		default:
			for k := 1 + rng.Intn(3); k > 0; k-- {
				s0 := randRel()
				_ = du.From(s0)
				hist = append(hist, s0)
			}
		}
		d0, dexact := floorDiv(int64(du.Duration), 1e8), floorMod(int64(du.Duration), 1e8) == 0
		switch rng.Intn(4) {
		case 0:
			last = ""
		case 1:
			last = rejected[rng.Intn(len(rejected))]
		default:
			last = randRel()
		}
		err = du.From(last)
		d1 := floorDiv(int64(du.Duration), 1e8)
		cl, fd, _ := opDurParse(last)
		show = fmt.Sprintf("durfrom history=%q then %s (%q)", hist, hexStr(last), last)
		r.Count(show, true, "durfrom/reused receiver")
		switch {
		case (err == nil) != (cl == "ok"):
			r.Fail("duration/receiver/error-class", "Duration.From on a variable that already holds a value returns another error class than on a fresh variable", show,
				fmt.Sprint(err), cl)
		case validRel(last) && d1 != fd:
			r.Fail("duration/receiver/valid-string", "Duration.From of a valid string into a variable that already holds a value does not store the value of the string", show,
				fmt.Sprintf("%d tenths (%s)", d1, du.Duration), fmt.Sprintf("%d tenths", fd))
		case last == "" && (du.Duration != 0 || du.String() != ""):
			r.Fail("duration/receiver/empty-string", "Duration.From(\"\") into a variable that already holds a value does not store the null period", show,
				fmt.Sprintf("%s %q", du.Duration, du.String()), "0 \"\"")
		}
		if dexact {
			term := fmt.Sprintf("dur_from_is %s %s %s %s", coqZ(d0), coqHex([]byte(last)), coqBool(err == nil), coqZ(d1))
			if validRel(last) || last == "" {
				r.Case(show, term)
			} else {
				r.Advisory(show, term)
			}
		}
	}
	_ = anyValid
}

// replay: re-run one recorded op line ("timeparse <hex> ...", "timefmt <tenths> <q> ...", "durfmt <tenths> ...",
// "durparse <hex> ...") on the implementation
func init() {
	replayTable["C20"] = func(arg string) string {
		if i := strings.Index(arg, "timefrom receiver="); i >= 0 {
			return replayTimeFrom(arg[i:])
		}
		f := strings.Fields(arg)
		if len(f) < 2 {
			return "no op line"
		}
		n := 2
		if f[0] == "timefmt" {
			n = 3
		}
		if len(f) < n {
			return "bad op line"
		}
		line := strings.Join(f[:n], " ")
		obs := c20Op(line)
		if o := strings.Fields(obs); len(o) == 2 && (f[0] == "timefmt" || f[0] == "durfmt") {
			obs += fmt.Sprintf(" (%q)", unhexStr(o[1]))
		}
		return line + " -> " + obs
	}
}

// replayTimeFrom re-runs "timefrom receiver=<RFC3339Nano> (<location>) then <hex> ..." : the receiver is rebuilt in the named
// location (fixed offset when the name is not in the zone database), then From(string) and the same into a fresh variable.
func replayTimeFrom(line string) string {
	var stamp, loc, hx string
	if _, err := fmt.Sscanf(line, "timefrom receiver=%s (%s then %s", &stamp, &loc, &hx); err != nil {
		return "cannot parse: " + line
	}
	loc = strings.TrimSuffix(loc, ")")
	hx = strings.Trim(hx, "\"\\ ")
	x, err := time.Parse(time.RFC3339Nano, stamp)
	if err != nil {
		return "cannot parse the receiver's time: " + stamp
	}
	switch l, lerr := time.LoadLocation(loc); {
	case loc == "Local":
		x = x.In(time.Local)
	case lerr == nil && loc != "":
		x = x.In(l)
	}
	str := unhexStr(hx)
	tm := pdu.Time{Time: x}
	err = tm.From(str)
	var fresh pdu.Time
	ferr := fresh.From(str)
	return fmt.Sprintf("receiver %s (%s); From(%q): err=%v holds %s String()=%q; fresh variable: err=%v holds %s String()=%q",
		x.Format(time.RFC3339Nano), x.Location(), str, err, tm.Time.Format(time.RFC3339Nano), tm.String(), ferr, fresh.Time.Format(time.RFC3339Nano), fresh.String())
}
