package main

// C14 — concurrent senders never interleave or tear frames on the wire.

import (
	"bytes"
	"encoding/binary"
	"encoding/hex"
	"fmt"
	"os"
	"sync"
	"time"

	"github.com/M2MGateway/go-smpp/pdu"
)

func init() { corrTable["C14"] = func(r *Run) { connInChild(r, corrC14) } }

// respFor builds the response the peer sends for request p stamped with seq.
func respFor(p interface{}, seq int32) interface{} {
	q := clonePDU(p)
	pdu.WriteSequence(q, seq)
	return q.(pdu.Responsable).Resp()
}

// respStatus: the same response carrying a command_status (the peer refusing the request).
func respStatus(p interface{}, seq int32, status uint32) interface{} {
	r := respFor(p, seq)
	pduHeader(r).CommandStatus = pdu.CommandStatus(status)
	return r
}

// expectedFrame: the Marshal encoding of p with the given sequence number, or nil when Marshal refuses it.
func expectedFrame(p interface{}, seq int32) []byte {
	q := clonePDU(p)
	pdu.WriteSequence(q, seq)
	var b bytes.Buffer
	if _, err := pdu.Marshal(&b, q); err != nil {
		return nil
	}
	return b.Bytes()
}

// genSendable draws a PDU of a random registered type whose frame stays below limit octets.
func genSendable(r *Rng, ts []pduType, responsable bool, limit int) interface{} {
	for tries := 0; ; tries++ {
		genCap("genSendable", tries, fmt.Sprintf("responsable=%v limit=%d", responsable, limit))
		t := ts[r.Intn(len(ts))]
		p := genPDU(r, t, modeDomain)
		if _, ok := p.(pdu.Responsable); responsable && !ok {
			continue
		}
		pdu.WriteSequence(p, 1)
		if f := expectedFrame(p, 1); f != nil && len(f) > limit {
			continue
		}
		return p
	}
}

// genBigPDU: a data_sm whose message_payload TLV pushes the frame beyond 32 KiB (io.Copy's buffer size).
func genBigPDU(r *Rng) interface{} {
	n := 33000 + r.Intn(27000)
	b := make([]byte, n)
	for i := range b {
		b[i] = byte(i*7 + n)
	}
	return &pdu.DataSM{ServiceType: "big", SourceAddr: pdu.Address{TON: 1, NPI: 1, No: "100"}, DestAddr: pdu.Address{TON: 1, NPI: 1, No: "200"},
		Tags: pdu.Tags{0x0424: b}}
}

type c14Plan struct {
	G     int
	Specs []CallSpec
}

func badSeq(r *Rng) int32 {
	return int32(r.Pick([]int{0, 0, -1, -2, -0x80000000, -(1 + r.Intn(100000))}))
}

// c14Check runs the direct C14 tests on what the transport saw.  calls: all issued calls.
func c14Check(r *Run, input string, writes []*WriteRec, calls []*Call, mode string) {
	// 1. one Write per frame
	var stream []byte
	for _, wr := range writes {
		if wr.Changed {
			// a transport that reads the buffer late puts these octets on the wire instead
			r.Fail("wire/"+mode+"/buffer-reused-during-write", "the buffer handed to the transport was overwritten (by another call) while the Write call was still in progress", input,
				fmt.Sprintf("Write #%d: at the call %s, at its return %s", wr.Idx, hex.EncodeToString(wr.Data[:min(len(wr.Data), 32)]), hex.EncodeToString(wr.Final[:min(len(wr.Final), 32)])),
				"every frame on the wire is the Marshal encoding of the PDU of its own call")
			stream = append(stream, wr.Final...)
			continue
		}
		stream = append(stream, wr.Data...)
		if !wr.Full {
			r.Fail("wire/"+mode+"/frame-not-in-one-write", "a transport Write call did not carry exactly one whole frame",
				input, fmt.Sprintf("Write #%d carried %d octets: %s", wr.Idx, len(wr.Data), hex.EncodeToString(wr.Data[:min(len(wr.Data), 48)])),
				"every frame is handed to the transport in a single Write")
			break
		}
	}
	// 2. the stream is a concatenation of whole frames, each the Marshal encoding of one successful call, each once
	want := map[string][]*Call{}
	for _, c := range calls {
		if c.Kind == "close" || c.Kind == "ping" || c.Kind == "kaclose" {
			continue
		}
		f := expectedFrame(c.P, c.Seq)
		reached := f != nil && c.Seq > 0 && !c.DeadlineFails && !c.WriteFails
		switch {
		case !reached && c.ret && c.Err == nil:
			r.Fail("send/"+mode+"/refusal-missing", "a call that cannot reach the transport returned nil", input,
				fmt.Sprintf("%s seq=%d status=%d %T deadline_fails=%v write_fails=%v returned nil", c.Kind, c.Seq, pduHeader(c.P).CommandStatus, c.P, c.DeadlineFails, c.WriteFails),
				"non-positive sequence numbers (whatever the other header fields), unmarshallable packets, calls whose write deadline cannot be set and calls whose transport Write fails return an error")
		case reached:
			want[string(f)] = append(want[string(f)], c)
		}
	}
	perG := map[int][]int{} // goroutine -> call ids in wire order
	rest := stream
	for len(rest) > 0 {
		if len(rest) < 16 {
			r.Fail("wire/"+mode+"/torn-stream", "the octet stream does not split into whole frames", input,
				fmt.Sprintf("%d trailing octets %s", len(rest), hex.EncodeToString(rest)), "concatenation of complete frames")
			return
		}
		l := int(binary.BigEndian.Uint32(rest[:4]))
		if l < 16 || l > len(rest) {
			r.Fail("wire/"+mode+"/torn-stream", "the octet stream does not split into whole frames", input,
				fmt.Sprintf("command_length %d with %d octets left: %s", l, len(rest), hex.EncodeToString(rest[:16])), "concatenation of complete frames")
			return
		}
		f := rest[:l]
		rest = rest[l:]
		cs := want[string(f)]
		if len(cs) == 0 {
			r.Fail("wire/"+mode+"/unexpected-frame", "a frame on the wire is not the Marshal encoding of a PDU passed to a successful call (or appears twice)", input,
				hex.EncodeToString(f[:min(len(f), 64)]), "each frame = Marshal encoding of one PDU of one successful call, once")
			return
		}
		want[string(f)] = cs[1:]
		perG[cs[0].G] = append(perG[cs[0].G], cs[0].ID)
	}
	for _, cs := range want {
		for _, c := range cs {
			if c.ret && c.Err == nil {
				r.Fail("wire/"+mode+"/frame-missing", "a call returned nil but its frame is not on the wire", input,
					fmt.Sprintf("%s seq=%d %T", c.Kind, c.Seq, c.P), "the frame of every successful call appears once")
				return
			}
		}
	}
	// 3. frames of one goroutine in call order (call ids grow in call order within a goroutine)
	for g, ids := range perG {
		for i := 1; i < len(ids); i++ {
			if ids[i] < ids[i-1] {
				r.Fail("wire/"+mode+"/goroutine-order", "frames of one goroutine are not in its call order", input,
					fmt.Sprintf("goroutine %d: call ids on the wire %v", g, ids), "per-goroutine call order")
				return
			}
		}
	}
}

func corrC14(r *Run) {
	r.Import("Model.ConnRun")
	r.PerShard(12)
	r.Rule = "forced schedules: 2..6 goroutines issuing 1..4 Send/Submit calls each with PDUs of all registered types (frames up to 3 kB, a few up to 20 kB), " +
		"every transport Write held and released in a random order, responses before or after the Write returns, non-positive sequence numbers, " +
		"non-zero command_status alone and together with a non-positive sequence number (Send and Submit), transport Writes that fail, unmarshallable packets, bare header-only PDUs of one type (enquire_link) from all goroutines at once, frames of 33..60 kB (beyond a 32 KiB copy buffer) and, with a write timeout configured, calls whose SetWriteDeadline the transport refuses mixed in; plus free-running rounds on the writer-holding transport of the property text; " +
		"non-trivial = schedules with at least two goroutines holding a Write at the same time; distinct by event list"
	ts := pduTypes()
	nForced := r.N(100, 1500)
	for i := 0; i < nForced; i++ {
		i := i
		confirmed(r, func() { c14Forced(r, ts, i) })
	}
	// the refusal clause for EVERY registered PDU type: sequence number 0 / -1 / MinInt32 x command_status zero / non-zero,
	// through Send and (request types) through Submit; on every run, forced here and free-running in round 0 below
	for ti := range ts {
		ti := ti
		confirmed(r, func() { c14Refusal(r, ts, ti) })
	}
	nFree := r.N(12+c14SweepRounds, 150)
	for i := 0; i < nFree; i++ {
		c14Free(r, ts, i)
	}
}

var c14BadSeqs = []int32{0, -1, -0x80000000}

const c14SweepRounds = 6

// c14Refusal: one registered type; goroutine 1 sits in the Write of a good frame while goroutine 0 issues the six
// (sequence, status) combinations through Send and, for a request type, through Submit (NextSequence hands the number out),
// then a good frame of its own.  The wire shows the two good frames and nothing else; every other call returned an error.
func c14Refusal(r *Run, ts []pduType, ti int) {
	rng := r.Rng
	t := ts[ti]
	w := NewWorld(true)
	defer w.Shutdown()
	if ti%2 == 1 {
		w.C.WriteTimeout = time.Hour
	}
	w.StartWatch()
	mk := func(seq int32, status uint32) interface{} {
		p := genPDU(rng, t, modeDomain)
		pduHeader(p).CommandStatus = pdu.CommandStatus(status)
		pdu.WriteSequence(p, seq)
		return p
	}
	base := int32(100 + rng.Intn(1000))
	other := w.Go(1, CallSpec{Kind: "send", Seq: base, P: mk(base, 0)})
	var specs []CallSpec
	for _, q := range c14BadSeqs {
		for _, st := range []uint32{0, uint32(rng.Pick([]int{1, 2, 3, 8, 0x58, 0xFF, 0x400}))} {
			specs = append(specs, CallSpec{Kind: "send", Seq: q, P: mk(q, st)})
			if _, ok := mk(1, 0).(pdu.Responsable); ok {
				specs = append(specs, CallSpec{Kind: "submit", Seq: q, P: mk(1, st)})
			}
		}
	}
	for i := len(specs) - 1; i > 0; i-- {
		j := rng.Intn(i + 1)
		specs[i], specs[j] = specs[j], specs[i]
	}
	specs = append(specs, CallSpec{Kind: "send", Seq: base + 1, P: mk(base+1, 0)})
	all := append(other, w.Go(0, specs...)...)
	for again := true; again && w.Stuck == ""; {
		again = false
		for _, c := range all {
			if w.Held(c) {
				w.Release(c)
				again = true
			}
		}
	}
	input := "sched " + w.Script()
	r.Count(input, true, "refusal-sweep/"+t.Name)
	if w.Stuck != "" {
		r.Fail("sched/not-quiescent", "the connection did not come to rest", input, w.Stuck[:min(len(w.Stuck), 1500)], "every forced event is followed by a state in which all goroutines wait")
		return
	}
	for _, p := range w.Panics() {
		r.Fail("panic", "a library goroutine panicked", input, p, "no panic")
	}
	c14Check(r, input, w.T.Writes(), all, "forced")
	for _, c := range all {
		if !w.Returned(c) {
			r.Fail("sched/call-blocked", "a call did not return although every Write was released", input, fmt.Sprintf("%s seq=%d", c.Kind, c.Seq), "every call returns")
		}
	}
	r.Case(fmt.Sprintf("refusal#%d %s %.160s", ti, t.Name, input), w.CaseExpr(connVariant))
}

func c14Forced(r *Run, ts []pduType, idx int) {
	rng := r.Rng
	w := NewWorld(true)
	defer w.Shutdown()
	timeouts := idx%2 == 1 // a write timeout is configured: Send sets a write deadline before every frame
	if timeouts {
		w.C.WriteTimeout = time.Hour
	}
	w.StartWatch()
	ng := 2 + rng.Intn(5)
	if idx < 4 {
		ng = 2
	}
	seq := int32(10 + rng.Intn(1000))
	var all []*Call
	var plans []c14Plan
	for g := 0; g < ng; g++ {
		n := 1 + rng.Intn(4)
		var specs []CallSpec
		for j := 0; j < n; j++ {
			limit := 3000
			if rng.Intn(25) == 0 {
				limit = 20000
			}
			kind := "send"
			if rng.Intn(4) == 0 {
				kind = "submit"
			}
			p := genSendable(rng, ts, kind == "submit", limit)
			if rng.Intn(70) == 0 || (idx == 2 && g == 0 && j == 0) {
				p = genBigPDU(rng) // a frame that does not fit a 32 KiB copy buffer
			}
			if bare := rng.Intn(9); bare < 2 || idx%8 == 3 {
				// header-only PDUs of one type from several goroutines at once: every frame differs from
				// its neighbours in the sequence number only
				kind = "send"
				p = &pdu.EnquireLink{}
				if bare == 1 {
					p = &pdu.EnquireLinkResp{}
				}
			}
			seq += int32(1 + rng.Intn(3))
			s := seq
			// a non-zero command_status (an error response: header-only on the wire) — alone, and together with a
			// non-positive sequence number: the refusal must not depend on any other header field
			forceBad := (idx == 3 || idx == 5) && g == 0 && j == 0
			if rng.Intn(8) == 0 || forceBad {
				pduHeader(p).CommandStatus = pdu.CommandStatus(rng.Pick([]int{1, 3, 8, 0x58, 0xFF, 1 + rng.Intn(0x400)}))
				if idx == 5 && forceBad {
					if _, ok := p.(pdu.Responsable); ok {
						kind = "submit" // NextSequence hands out a non-positive number
					}
				}
			}
			switch k := rng.Intn(12); {
			case k == 0 || k == 2 || forceBad:
				s = badSeq(rng)
			case k == 1:
				if sm, ok := p.(*pdu.SubmitSM); ok { // Marshal refuses a 141+ octet short message
					sm.Message.Message = rng.Bytes(141 + rng.Intn(100))
					sm.Message.UDHeader = nil
				}
			}
			if kind == "send" {
				pdu.WriteSequence(p, s)
			}
			// the transport refuses SetWriteDeadline for this call: it must fail without contributing octets
			dl := timeouts && (rng.Intn(8) == 0 || (idx == 1 && g == 0 && j == 0))
			// the transport's Write fails for this call: it must return the error and contribute no octets
			wf := !dl && (rng.Intn(16) == 0 || (idx == 7 && g == 0 && j == 0))
			specs = append(specs, CallSpec{Kind: kind, Seq: s, P: p, DeadlineFails: dl, WriteFails: wf})
		}
		plans = append(plans, c14Plan{g, specs})
	}
	for _, pl := range plans {
		all = append(all, w.Go(pl.G, pl.Specs...)...)
	}
	maxHeld := 0
	answered := map[int]bool{}
	for steps := 0; steps < 400 && w.Stuck == ""; steps++ {
		var held, waiting []*Call
		for _, c := range all {
			if w.Held(c) {
				held = append(held, c)
			} else if c.Kind == "submit" && c.begun > 0 && !w.Returned(c) && !answered[c.ID] {
				waiting = append(waiting, c)
			}
		}
		if len(held) > maxHeld {
			maxHeld = len(held)
		}
		if len(held) == 0 && len(waiting) == 0 {
			break
		}
		// the peer may answer a Submit as soon as its octets are on the wire, even before the Write returns
		var answerable []*Call
		for _, c := range held {
			if c.Kind == "submit" && !answered[c.ID] {
				answerable = append(answerable, c)
			}
		}
		answerable = append(answerable, waiting...)
		if len(answerable) > 0 && (len(held) == 0 || rng.Intn(3) == 0) {
			c := answerable[rng.Intn(len(answerable))]
			answered[c.ID] = true
			w.PeerPDU(respFor(c.P, c.Seq))
			continue
		}
		w.Release(held[rng.Intn(len(held))])
	}
	input := "sched " + w.Script()
	r.Count(input, maxHeld >= 2, fmt.Sprintf("forced/goroutines=%d", ng))
	if idx < 2 {
		r.Sample(map[string]interface{}{"mode": "forced", "goroutines": ng, "calls": len(all), "max_concurrent_held_writes": maxHeld, "schedule": w.Script()[:min(len(w.Script()), 600)]})
	}
	if w.Stuck != "" {
		r.Fail("sched/not-quiescent", "the connection did not come to rest", input, w.Stuck[:min(len(w.Stuck), 1500)], "every forced event is followed by a state in which all goroutines wait")
		return
	}
	for _, p := range w.Panics() {
		r.Fail("panic", "a library goroutine panicked", input, p, "no panic")
	}
	c14Check(r, input, w.T.Writes(), all, "forced")
	for _, c := range all {
		if !w.Returned(c) {
			r.Fail("sched/call-blocked", "a call did not return although its Write was released and its response delivered", input,
				fmt.Sprintf("%s seq=%d", c.Kind, c.Seq), "every call returns")
		} else if c.Kind == "submit" && c.Seq > 0 && c.Err == nil && pdu.ReadSequence(c.Resp) != c.Seq {
			r.Fail("submit/foreign-response", "Submit returned a response with a foreign sequence number", input, c.Class(), fmt.Sprintf("sequence %d", c.Seq))
		}
	}
	r.Case(fmt.Sprintf("sched#%d %.200s", idx, input), w.CaseExpr(connVariant))
}

// c14Free: the transport of the property text.  After each Write the writer is
// held until another writer has written or a grace period passes; goroutines run freely.
func c14Free(r *Run, ts []pduType, idx int) {
	rng := r.Rng
	w := NewWorld(true)
	defer w.Shutdown()
	w.T.HoldAll = false
	w.T.pairHold = true
	w.T.grace = 2 * time.Millisecond
	ng := 2 + rng.Intn(7)
	seq := int32(10)
	var all []*Call
	var wg sync.WaitGroup
	type prog struct{ calls []*Call }
	var progs []prog
	if idx < c14SweepRounds {
		// the first rounds: the refusal sweep, free-running (a sixth of the registered types per round: the model's cost grows
		// faster than the number of calls of one world): type x {0, -1, MinInt32} x {status 0, non-zero}, good frames in between
		ng = 4
		progs = make([]prog, ng)
		add := func(g int, p interface{}, s int32) {
			pdu.WriteSequence(p, s)
			c := &Call{ID: len(all), G: g, Kind: "send", Seq: s, P: p}
			all = append(all, c)
			progs[g].calls = append(progs[g].calls, c)
		}
		for ti, t := range ts {
			if ti%c14SweepRounds != idx {
				continue
			}
			for k, q := range c14BadSeqs {
				for _, st := range []uint32{0, uint32(1 + rng.Intn(0x400))} {
					p := genPDU(rng, t, modeDomain)
					pduHeader(p).CommandStatus = pdu.CommandStatus(st)
					add((ti+k)%ng, p, q)
				}
			}
			seq++
			add(ti%ng, genPDU(rng, t, modeDomain), seq)
		}
	}
	for g := 0; g < ng && idx >= c14SweepRounds; g++ {
		var pr prog
		for j, n := 0, 2+rng.Intn(6); j < n; j++ {
			p := genSendable(rng, ts, false, 3000)
			if rng.Intn(60) == 0 || (idx == c14SweepRounds && g == 0 && j == 1) {
				p = genBigPDU(rng)
			}
			if bare := rng.Intn(6); bare == 0 || idx%3 == 1 {
				p = &pdu.EnquireLink{} // all goroutines send the same header-only type: frames differ in the sequence number only
			}
			seq++
			s := seq
			if rng.Intn(10) == 0 {
				s = badSeq(rng)
				if rng.Bool() {
					pduHeader(p).CommandStatus = pdu.CommandStatus(1 + rng.Intn(0x400))
				}
			}
			pdu.WriteSequence(p, s)
			c := &Call{ID: len(all), G: g, Kind: "send", Seq: s, P: p}
			all = append(all, c)
			pr.calls = append(pr.calls, c)
		}
		progs = append(progs, pr)
	}
	start := make(chan struct{})
	for _, pr := range progs {
		wg.Add(1)
		go func(pr prog) {
			defer wg.Done()
			<-start
			for _, c := range pr.calls {
				func() {
					defer func() {
						if e := recover(); e != nil {
							c.Panic = fmt.Sprint(e)
						}
						c.ret = true
					}()
					c.Err = w.C.Send(c.P)
				}()
			}
		}(pr)
	}
	close(start)
	done := make(chan struct{})
	go func() { wg.Wait(); close(done) }()
	input := fmt.Sprintf("free goroutines=%d calls=%d seed-index=%d", ng, len(all), idx)
	select {
	case <-done:
	case <-time.After(20 * time.Second):
		r.Fail("free/not-finished", "concurrent senders did not finish", input, goDump()[:1500], "all Send calls return")
		return
	}
	r.Count(input, true, fmt.Sprintf("free/goroutines=%d", ng))
	for _, c := range all {
		if c.Panic != "" {
			r.Fail("panic", "Send panicked", input, c.Panic, "no panic")
		}
	}
	c14Check(r, input, w.T.Writes(), all, "free")
	// the same observation for the model: a schedule that yields this wire order exists and the model agrees on every frame
	r.Case(fmt.Sprintf("free#%d", idx), freeCase(all, w.T.Writes()))
}

// freeCase turns a free-running Send-only run into the forced schedule that
// reproduces its wire order: each call is started when its predecessor in the
// goroutine has returned, Writes happen in the observed order.
func freeCase(all []*Call, writes []*WriteRec) string {
	byG := map[int][]*Call{}
	var gs []int
	for _, c := range all {
		if _, ok := byG[c.G]; !ok {
			gs = append(gs, c.G)
		}
		byG[c.G] = append(byG[c.G], c)
	}
	next := map[int]int{}
	var groups, snaps, calls, wire, wireIDs []string
	var order []*Call
	nw := 0
	emitSnap := func() {
		var rets []string
		for _, c := range order {
			if c.said {
				rets = append(rets, fmt.Sprintf("(%d%%nat, %s)", c.ID, c.resTerm()))
			}
		}
		snaps = append(snaps, fmt.Sprintf("((%s, 0, %d, 0, false), %s)", coqList(rets), nw, coqList(append([]string(nil), wireIDs...))))
	}
	// advance goroutine g: start its next calls until one reaches the transport (is held)
	var advance func(g int) []string
	advance = func(g int) []string {
		var evs []string
		for next[g] < len(byG[g]) {
			c := byG[g][next[g]]
			next[g]++
			order = append(order, c)
			evs = append(evs, fmt.Sprintf("Start %d KSend %d %s %s", c.ID, c.G, coqZ(int64(c.Seq)), frameTerm(c.P, c.Seq)))
			if c.Seq > 0 && expectedFrame(c.P, c.Seq) != nil {
				nw++
				return evs // the model's settle performs the WireWrite; the call now sits in the Write
			}
			c.said = true // refused: returned at once
		}
		return evs
	}
	// The model writes a call's frame as soon as the call is started, so calls are
	// started in the observed wire order.
	cur := map[int]*Call{}
	for _, wr := range writes {
		var c *Call
		for _, x := range all {
			if x.Seq == wr.Seq && x.Seq > 0 {
				c = x
			}
		}
		if c == nil {
			fmt.Fprintf(os.Stderr, "freeCase: write #%d seq=%d id=%#x len=%d matches no call\n", wr.Idx, wr.Seq, wr.ID, len(wr.Data))
			return "false"
		}
		var evs []string
		if prev := cur[c.G]; prev != nil {
			prev.said = true
			evs = append(evs, fmt.Sprintf("WriteReturn %d", prev.ID))
		}
		evs = append(evs, advance(c.G)...)
		cur[c.G] = c
		groups = append(groups, coqList(evs))
		wireIDs = append(wireIDs, coqZ(int64(c.ID)))
		emitSnap()
		wire = append(wire, fmt.Sprintf("WCall %d %s", c.ID, coqHex(wr.Data)))
	}
	for _, g := range gs {
		var evs []string
		if prev := cur[g]; prev != nil {
			prev.said = true
			evs = append(evs, fmt.Sprintf("WriteReturn %d", prev.ID))
		}
		evs = append(evs, advance(g)...)
		if len(evs) > 0 {
			groups = append(groups, coqList(evs))
			emitSnap()
		}
	}
	for _, c := range order {
		calls = append(calls, fmt.Sprintf("(%d%%nat, %s)", c.ID, c.resTerm()))
	}
	obs := fmt.Sprintf("(mkObs %s [] %s 0 false 0)", coqList(calls), coqList(wire))
	return fmt.Sprintf("sched_admits %s true %s %s %s", connVariant, coqList(groups), coqList(snaps), obs)
}
