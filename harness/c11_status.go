package main

// C11: command_status over its whole range.  CommandStatus.String / Error are
// what fmt prints for a header, a PDU, and an unsuccess record; every status
// in 0..0x4FF, the SMPP-defined codes, the corners of the 32-bit range and
// random values go through them directly and through every accessor of PDUs
// that ReadPDU decodes from frames carrying that status.

import (
	"bytes"
	"fmt"

	"github.com/M2MGateway/go-smpp/pdu"
)

func c11Status(r *Run, ts []pduType) {
	sweep := statusSweep()
	for i := 0; i < r.N(400, 5000); i++ {
		v := uint32(r.Rng.U64())
		switch r.Rng.Intn(4) {
		case 0:
			v &= 0xFFFF
		case 1:
			v = v&0xFF | uint32(r.Rng.Intn(0x40))<<8
		}
		sweep = append(sweep, v)
	}
	pageClass := func(s uint32) string {
		if s < 0x10000 {
			return fmt.Sprintf("0x%Xxx", s>>8)
		}
		return "above-0xFFFF"
	}
	nack := typeByID(ts, 0x80000000)
	ssr := typeByID(ts, 0x80000004)
	smr := typeByID(ts, 0x80000021)
	var recs pdu.UnsuccessfulRecords
	flushRecs := func() {
		if len(recs) == 0 {
			return
		}
		p := &pdu.SubmitMultiResp{MessageID: "m", UnsuccessfulSMEs: recs}
		pdu.WriteSequence(p, 3)
		var buf bytes.Buffer
		if _, err := pdu.Marshal(&buf, p); err == nil {
			c11Frame(r, buf.Bytes(), "command_status in unsuccess records", false, nil)
		}
		recs = nil
	}
	_ = smr
	for i, s := range sweep {
		// ---- direct
		for _, which := range []string{"String", "Error"} {
			which := which
			var text string
			panicked, msg := guard(func() {
				if which == "String" {
					text = pdu.CommandStatus(s).String()
				} else {
					text = pdu.CommandStatus(s).Error()
				}
			})
			r.Count(fmt.Sprintf("status/%s/%d", which, s), s != 0, "command_status "+which)
			if panicked {
				r.Fail(fmt.Sprintf("command_status-panic/%s/status=%s", which, pageClass(s)), "CommandStatus."+which+" panicked",
					fmt.Sprintf("command_status 0x%08X", s), msg, "returns a text")
				if which == "String" {
					r.Case(fmt.Sprintf("command_status_string 0x%X", s), fmt.Sprintf("ocls (command_status_string command_status_named %d) =? 2", s))
				}
				continue
			}
			if which == "String" && (i%8 == 0 || s >= 0x100 && s < 0x200) {
				_ = text // C11 demands that String() returns, not which name or hex case it prints
				r.Case(fmt.Sprintf("command_status_string 0x%X", s), fmt.Sprintf("ocls (command_status_string command_status_named %d) =? 0", s))
			}
		}
		// ---- through ReadPDU and every accessor: a header-only response frame carrying the status
		for k, t := range []pduType{nack, ssr} {
			if k == 1 && i%4 != 0 {
				continue
			}
			c11Frame(r, rawFrameOf(t.ID, s, int32(1+i), nil), "command_status sweep/"+t.Name, i%16 == 0, nil)
		}
		// ---- and as the error code of an unsuccess record
		recs = append(recs, pdu.UnsuccessfulRecord{DestAddr: pdu.Address{TON: 1, NPI: 1, No: "1"}, ErrorStatusCode: pdu.CommandStatus(s)})
		if len(recs) == 60 {
			flushRecs()
		}
	}
	flushRecs()
	r.Sample(map[string]interface{}{"accessor": "CommandStatus.String/Error, %v of header and PDU", "domain": "0..0x4FF completely, corners of the 32-bit range, random values",
		"n": len(sweep)})

	// ---- a decoded UDH far longer than sm_length (the last element runs past UDHL): ShortMessage.ReadFrom's size arithmetic
	for _, id := range []uint32{5, 4} {
		for _, sml := range []int{0, 1, 3, 100, 253, 254, 255} {
			for _, udhl := range []int{253, 255, 3} {
				var body []byte
				body = append(body, 0)          // service_type ""
				body = append(body, 1, 1, '1', 0) // source
				body = append(body, 1, 1, '2', 0) // destination
				body = append(body, 0x40, 0, 0)   // esm_class with UDHI, protocol_id, priority
				body = append(body, 0, 0)         // schedule, validity
				body = append(body, 0, 0, 0, 0)   // registered_delivery, replace, data_coding, default id
				body = append(body, byte(sml))
				body = append(body, byte(udhl))
				if udhl >= 253 {
					body = append(body, 0x24, 250)
					body = append(body, bytes.Repeat([]byte{7}, 250)...)
				}
				body = append(body, 0x25, 255)
				body = append(body, bytes.Repeat([]byte{9}, 255)...)
				body = append(body, bytes.Repeat([]byte{0x41}, 260)...)
				c11Frame(r, rawFrameOf(id, 0, 9, body), "udh longer than sm_length", true, nil)
			}
		}
	}
}
