package main

import (
	"encoding/binary"
	"fmt"
	"reflect"

	"github.com/M2MGateway/go-smpp/pdu"
)

func init() { corrTable["C03"] = corrC03 }

// one element of a generated stream and what ReadPDU must make of it
type streamItem struct {
	frame []byte
	want  string      // ok | unknown-id | decode-err
	p     interface{} // original value for ok
	t     pduType
}

func rawFrame(id uint32, status uint32, seq int32, body []byte) []byte {
	f := make([]byte, 16+len(body))
	binary.BigEndian.PutUint32(f[0:], uint32(len(f)))
	binary.BigEndian.PutUint32(f[4:], id)
	binary.BigEndian.PutUint32(f[8:], status)
	binary.BigEndian.PutUint32(f[12:], uint32(seq))
	copy(f[16:], body)
	return f
}

func nonZeroBytes(r *Rng, n int) []byte {
	b := make([]byte, n)
	for i := range b {
		b[i] = 1 + byte(r.Intn(255))
	}
	return b
}

// earlyStop: a frame longer than the decoder's 4096-octet buffer whose decoding ends well before its last octet
func earlyStop(r *Rng) streamItem {
	seq := int32(1 + r.Intn(1000))
	n := r.Pick([]int{4081, 4200, 5000, 9000, 20000})
	switch r.Intn(3) {
	case 0: // header-only type, the rest of the frame is ignored
		id := []uint32{6, 0x80000006, 0x80000015, 0x80000008}[r.Intn(4)]
		return streamItem{frame: rawFrame(id, 0, seq, r.Bytes(n)), want: "ok-trailing"}
	case 1: // submit_multi with an invalid dest_flag right at the start of the destination list
		body := append([]byte{0, 0, 0, 0, 3, 9}, r.Bytes(n)...)
		return streamItem{frame: rawFrame(0x21, 0, seq, body), want: "decode-err"}
	default: // non-zero command_status in front of a large body: only the header counts
		return streamItem{frame: rawFrame(uint32(r.Pick([]int{4, 5, 0x80000004})), uint32(1+r.Intn(200)), seq, r.Bytes(n)), want: "ok-trailing"}
	}
}

func genStream(r *Rng, ts []pduType, nItems int, small bool) (items []streamItem, data []byte) {
	forced := -1
	if !small && r.Intn(2) == 0 {
		forced = r.Intn(nItems)
		nItems += 2 // something must follow it
	}
	for len(items) < nItems {
		var it streamItem
		if len(items) == forced {
			it = earlyStop(r)
			items = append(items, it)
			data = append(data, it.frame...)
			continue
		}
		switch r.Intn(11) {
		case 10: // an error response that still carries a (short) body: only the header counts
			id := []uint32{0x80000004, 0x80000005, 0x80000021, 4, 0x80000103}[r.Intn(5)]
			it = streamItem{frame: rawFrame(id, uint32(1+r.Intn(0x500)), int32(1+r.Intn(1000)), r.Bytes(1+r.Intn(40))), want: "ok-trailing"}
		case 0: // acceptable header, unknown command_id
			ids := []uint32{10, 0x0BAD, 0x80000000 | 0x0BAD, 0x7FFFFFFF, 0, 0xFFFFFFFF}
			it = streamItem{frame: rawFrame(ids[r.Intn(len(ids))], 0, int32(1+r.Intn(1000)), r.Bytes(r.Intn(40))), want: "unknown-id"}
		case 1: // known id, body that cannot be decoded (unterminated C-string); now and then longer than the decoder's 4096-octet buffer
			ids := []uint32{1, 2, 4, 5, 9, 0x80000004}
			n := r.Intn(30)
			if !small && r.Intn(3) == 0 {
				n = r.Pick([]int{4081, 4096, 5000, 9000})
			}
			it = streamItem{frame: rawFrame(ids[r.Intn(len(ids))], 0, int32(1+r.Intn(1000)), nonZeroBytes(r, n)), want: "decode-err"}
		case 2:
			if small || r.Intn(2) == 0 {
				f, p, t := genFrame(r, ts)
				if small && len(f) > 400 {
					continue
				}
				it = streamItem{frame: f, want: "ok", p: p, t: t}
				break
			}
			// decoding stops before the end of the frame: a header-only type followed by thousands of ignored octets
			id := []uint32{6, 0x80000006, 0x80000015, 0x80000008}[r.Intn(4)]
			seq := int32(1 + r.Intn(1000))
			it = streamItem{frame: rawFrame(id, 0, seq, r.Bytes(r.Pick([]int{1, 100, 4090, 5000}))), want: "ok-trailing"}
		default:
			f, p, t := genFrame(r, ts)
			if small && len(f) > 400 {
				continue
			}
			it = streamItem{frame: f, want: "ok", p: p, t: t}
		}
		items = append(items, it)
		data = append(data, it.frame...)
	}
	return
}

// maxFrameItem: a valid PDU whose frame has exactly 65536 (now and then 65535) octets — the largest command_length
// ReadPDU accepts.  Placed IN FRONT of other frames: an off-by-one in how much is consumed at the limit shows up as
// mis-framing of the follower.
func maxFrameItem(r *Rng, ts []pduType) (streamItem, bool) {
	for try := 0; try < 20; try++ {
		t := ts[r.Intn(len(ts))]
		hasTags, hasSkipped := false, false
		for j := 0; j < t.T.NumField(); j++ {
			if t.T.Field(j).Type == reflect.TypeOf(pdu.Tags{}) {
				hasTags = true
			}
			if classify(t.T.Field(j).Type) == "FSkipped" {
				hasSkipped = true
			}
		}
		if !hasTags || hasSkipped {
			continue
		}
		p := genPDU(r, t, modeDomain)
		target := r.Pick([]int{65536, 65536, 65536, 65535})
		fillTo(r, p, target)
		_, err, w, panicked, _ := marshalRec(clonePDU(p))
		if err == nil && !panicked && len(w.calls) == 1 && len(w.calls[0]) == target {
			return streamItem{frame: w.calls[0], want: "ok", p: p, t: t}, true
		}
	}
	return streamItem{}, false
}

// checkStream runs the direct property test for one (stream, schedule) and returns the observations.
func checkStream(r *Run, items []streamItem, data []byte, sched []int, tag string) []readObs {
	return checkStreamAttr(r, items, data, sched, tag, false, 0)
}

func checkStreamAttr(r *Run, items []streamItem, data []byte, sched []int, tag string, eofWithData bool, zeroEvery int) []readObs {
	obs := readAllAttr(data, sched, len(items)+2, eofWithData, zeroEvery)
	rp := replayStream(data, sched)
	rp["eof_with_data"], rp["zero_every"] = eofWithData, zeroEvery
	r.SetReplay(rp)
	in := fmt.Sprintf("readstream %x sched=%s", data, schedString(sched))
	if len(in) > 3000 {
		in = fmt.Sprintf("readstream %s sched=%s (seed-derived; %d items)", shortHex(data), schedString(sched), len(items))
	}
	if eofWithData || zeroEvery > 0 {
		in += fmt.Sprintf(" last-read-with-EOF=%v zero-read-every=%d", eofWithData, zeroEvery)
	}
	for i, it := range items {
		if i >= len(obs) {
			r.Fail("reframe/stream-ended-early/"+tag, "fewer PDUs returned than were written", in, kinds(obs), fmt.Sprintf("%d PDUs then io.EOF", len(items)))
			return obs
		}
		o := obs[i]
		if o.Kind == "panic" {
			r.Fail("reframe/panic/"+tag, "ReadPDU panicked on a valid stream", in, o.Msg, "no panic")
			return obs
		}
		if it.want == "ok-trailing" {
			if o.Kind != "ok" || o.Consumed != len(it.frame) {
				r.Fail("reframe/kind/ok-trailing/"+tag, fmt.Sprintf("PDU %d (a header-only type with ignored trailing octets) was not returned as written", i), in,
					kinds(obs), fmt.Sprintf("call %d: ok consuming %d", i, len(it.frame)))
				return obs
			}
			continue
		}
		if o.Kind != it.want {
			r.Fail("reframe/kind/"+it.want+"/"+tag, fmt.Sprintf("PDU %d of the stream was not returned as written", i), in,
				kinds(obs), fmt.Sprintf("call %d: %s consuming %d", i, it.want, len(it.frame)))
			return obs
		}
		if o.Consumed != len(it.frame) {
			r.Fail("reframe/consumed/"+it.want+"/"+tag, "ReadPDU did not consume exactly command_length octets", in,
				kinds(obs), fmt.Sprintf("call %d consumes %d", i, len(it.frame)))
			return obs
		}
		if it.want == "ok" {
			h := reflect.ValueOf(o.PDU).Elem().Field(0).Interface().(pdu.Header)
			oh := reflect.ValueOf(it.p).Elem().Field(0).Interface().(pdu.Header)
			same := canonNoLenID(o.PDU) == canonNoLenID(it.p)
			if oh.CommandStatus != 0 { // header-only frame: only the header travels
				same = h.CommandStatus == oh.CommandStatus && h.Sequence == oh.Sequence
			}
			if !same || reflect.TypeOf(o.PDU) != reflect.TypeOf(it.p) ||
				int(h.CommandLength) != len(it.frame) || uint32(h.CommandID) != it.t.ID {
				r.Fail("reframe/value/"+tag, fmt.Sprintf("PDU %d decoded to a different value under this fragmentation", i), in,
					canonNoLenID(o.PDU), canonNoLenID(it.p))
				return obs
			}
		}
	}
	if len(obs) != len(items)+1 || obs[len(items)].Kind != "eof" || obs[len(items)].Consumed != 0 {
		r.Fail("reframe/no-eof/"+tag, "the call after the last PDU did not report io.EOF", in, kinds(obs), "…, eof/0")
	}
	return obs
}

func corrC03(r *Run) {
	r.Import("Model.PduRun")
	r.PerShard(60)
	r.Rule = "streams of 1..6 back-to-back frames (valid PDUs of random registered types in the representable domain, header-only error responses, " +
		"frames with an unknown command_id, frames whose body cannot be decoded) x read schedules: every single split point, every uniform chunk size, " +
		"random compositions; plus every truncation point; non-trivial = distinct (stream, schedule) with at least one fragmentation inside a frame"
	ts := pduTypes()
	nStreams := r.N(60, 1500)
	caseBudget := r.N(260, 4000)
	bigBudget := r.N(8, 300)
	vol := &pduVolume{maxLen: 1500}
	defer vol.diff(r)
	volN := 0
	emit := func(data []byte, sched []int, obs []readObs, what string) {
		if caseBudget <= 0 {
			return
		}
		if len(data) > 2500 { // streams of several KiB are slow to parse inside coqc: a fixed number per run, none above 6500 octets
			if bigBudget <= 0 || len(data) > 6500 {
				return
			}
			bigBudget--
		}
		caseBudget--
		r.Case(fmt.Sprintf("%s stream=%s sched=%s", what, shortHex(data), schedString(sched)),
			fmt.Sprintf("beq_list beq_read (run_many %s %s) %s", coqHex(data), schedTerm(sched), obsListTerm(obs)))
	}
	for s := 0; s < nStreams; s++ {
		small := s%3 != 2
		items, data := genStream(r.Rng, ts, 1+r.Rng.Intn(6), small)
		if s%10 == 7 {
			if it, ok := maxFrameItem(r.Rng, ts); ok {
				at := r.Rng.Intn(2) // first, or behind the first frame; always with something after it
				if at > len(items)-1 {
					at = 0
				}
				items = append(items[:at:at], append([]streamItem{it}, items[at:]...)...)
				data = nil
				for _, x := range items {
					data = append(data, x.frame...)
				}
				small = false
			}
		}
		if s < 2 {
			r.Sample(map[string]interface{}{"stream_octets": len(data), "frames": len(items), "first_frame": shortHex(items[0].frame)})
		}
		total := len(data)
		// (a) every single split point (all of them for small streams, a sample otherwise)
		step := 1
		if total > 300 {
			step = total / 150
		}
		for p := 1; p < total; p += step {
			sched := []int{p, total - p}
			obs := checkStream(r, items, data, sched, "split")
			r.Count(fmt.Sprintf("split/%d/%d", s, p), true, "single split point")
			if volN++; volN%3 == 0 {
				vol.readmany(data, sched, obs)
			}
			if p%7 == s%7 && s < 12 {
				emit(data, sched, obs, "split")
			}
		}
		// (b) uniform chunk sizes
		for _, k := range []int{1, 2, 3, 4, 5, 7, 8, 15, 16, 17, 31, 32, 33, 64, 100, 255, 256, 1000, 4095, 4096, 4097, 65536} {
			if k > total && k != 65536 {
				continue
			}
			sched := uniformSched(total, k)
			obs := checkStream(r, items, data, sched, "uniform")
			r.Count(fmt.Sprintf("uniform/%d/%d", s, k), k < total, "uniform chunk size")
			if (k == 1 || k == 3 || k == 16 || k == 17) && s < 30 {
				if k == 1 {
					sched = nil // exhausted schedule = one octet per read
				}
				emit(data, sched, obs, "uniform")
			}
		}
		// (c) random compositions
		for j := 0; j < r.N(6, 20); j++ {
			sched := randomSched(r.Rng, total)
			obs := checkStream(r, items, data, sched, "random")
			r.Count(fmt.Sprintf("random/%d/%d", s, j), len(sched) > len(items), "random composition")
			vol.readmany(data, sched, obs)
			if j < 2 {
				emit(data, sched, obs, "random")
			}
			// the same composition on a transport that hands out the last octets together with io.EOF, and one that
			// returns 0, nil now and then: the io.Reader contract allows both, the PDUs returned must not change
			// (the model's transport has neither; its observation list is the one emitted above)
			switch j % 3 {
			case 0:
				checkStreamAttr(r, items, data, sched, "random+eof-with-data", true, 0)
			case 1:
				checkStreamAttr(r, items, data, sched, "random+zero-reads", false, 2+r.Rng.Intn(5))
			default:
				checkStreamAttr(r, items, data, []int{total}, "whole+eof-with-data", true, 0)
			}
			r.Count(fmt.Sprintf("attr/%d/%d", s, j), true, "schedule attributes (data+EOF, 0-octet reads)")
		}
		// (d) truncation at every point of a small stream: the last call is an error, never a PDU
		if small && s%4 == 0 {
			bounds := map[int]bool{0: true}
			n := 0
			for _, it := range items {
				n += len(it.frame)
				bounds[n] = true
			}
			for k := 0; k < total; k++ {
				sched := randomSched(r.Rng, k)
				rp := replayStream(data[:k], sched)
				rp["eof_with_data"], rp["zero_every"] = k%2 == 1, 0
				r.SetReplay(rp)
				obs := readAllAttr(data[:k], sched, len(items)+2, k%2 == 1, 0) // every other cut: the last octets arrive together with io.EOF
				last := obs[len(obs)-1]
				r.Count(fmt.Sprintf("trunc/%d/%d", s, k), !bounds[k], "truncation point")
				vol.readmany(data[:k], sched, obs)
				want := "truncated"
				if bounds[k] {
					want = "eof"
				}
				in := fmt.Sprintf("readstream %x sched=%s", data[:k], schedString(sched))
				if last.Kind != want {
					r.Fail("truncation/"+want+"-expected", "a stream cut at this point did not end with the required error", in, kinds(obs), "last call: "+want)
				}
				// every complete frame before the cut is still returned
				full := 0
				for _, it := range items {
					if full+len(it.frame) <= k {
						full += len(it.frame)
					} else {
						break
					}
				}
				got := 0
				for _, o := range obs[:len(obs)-1] {
					got += o.Consumed
				}
				if got != full {
					r.Fail("truncation/prefix-frames", "complete frames before the cut were not all returned", in, kinds(obs), fmt.Sprintf("%d octets of complete frames", full))
				}
				if k%5 == s%5 {
					emit(data[:k], sched, obs, "truncated")
				}
			}
		}
	}
}
