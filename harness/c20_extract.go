package main

// Thorough tier: every op line the time half of C20 executed on the
// implementation is also run through the OCaml model extracted from
// coq/Model/SmppTime.v (coq/Extract/C20Extract.v, ocaml/c20_driver.ml, built
// into .work/ocaml/ by tools/build_extract.sh) and the two observation streams
// are diffed line by line.  Lines inside the property's quantifier ("strict")
// must agree; a disagreement is reported through the model-case channel (a
// case that is false by construction, next to the genuine kernel case for the
// same line, so the report also says which side the kernel takes).  Lines
// outside the quantifier are compared for information only (a note in the
// evidence).  The lines that are also kernel cases are the vm_compute slice:
// there Go, OCaml and the kernel all agree or the run fails.

import (
	"bufio"
	"bytes"
	"fmt"
	"os"
	"os/exec"
	"path/filepath"
	"strings"
	"time"
)

// runExtracted pipes lines through .work/ocaml/<name>_driver (building it first if stale).
func runExtracted(r *Run, name string, lines []string) ([]string, error) {
	work := filepath.Dir(r.Dir) // .work
	root := filepath.Dir(work)
	build := exec.Command(filepath.Join(root, "tools", "build_extract.sh"))
	if out, err := build.CombinedOutput(); err != nil {
		return nil, fmt.Errorf("tools/build_extract.sh: %v\n%s", err, out)
	}
	in := filepath.Join(r.Dir, name+"_ops.txt")
	if err := os.WriteFile(in, []byte(strings.Join(lines, "\n")+"\n"), 0o644); err != nil {
		return nil, err
	}
	f, err := os.Open(in)
	if err != nil {
		return nil, err
	}
	defer f.Close()
	cmd := exec.Command(filepath.Join(work, "ocaml", name+"_driver"))
	cmd.Stdin = f
	var out bytes.Buffer
	cmd.Stdout = &out
	cmd.Stderr = &out
	done := make(chan error, 1)
	if err := cmd.Start(); err != nil {
		return nil, err
	}
	go func() { done <- cmd.Wait() }()
	select {
	case err := <-done:
		if err != nil {
			return nil, fmt.Errorf("%s_driver: %v\n%.2000s", name, err, out.String())
		}
	case <-time.After(20 * time.Minute):
		_ = cmd.Process.Kill()
		return nil, fmt.Errorf("%s_driver: timeout", name)
	}
	_ = os.WriteFile(filepath.Join(r.Dir, name+"_model_obs.txt"), out.Bytes(), 0o644)
	var res []string
	sc := bufio.NewScanner(&out)
	sc.Buffer(make([]byte, 1<<20), 1<<24)
	for sc.Scan() {
		res = append(res, sc.Text())
	}
	if len(res) != len(lines) {
		return nil, fmt.Errorf("%s_driver answered %d lines for %d ops", name, len(res), len(lines))
	}
	return res, nil
}

func c20ExtractedDiff(r *Run, c *c20Time) {
	got, err := runExtracted(r, "c20", c.ops)
	if err != nil {
		fmt.Fprintln(os.Stderr, "extracted model:", err)
		os.Exit(2) // tool error, not a verdict
	}
	strictN, strictBad, looseN, looseBad := 0, 0, 0, 0
	perOp := map[string]int{}
	var looseEx []string
	for i, line := range c.ops {
		perOp[strings.Fields(line)[0]]++
		if c.strict[i] {
			strictN++
			if got[i] != c.obs[i] {
				strictBad++
				if strictBad <= 20 {
					r.Case("kernel evaluation of the line on which the extracted model and the implementation differ: "+line+" -> "+c.obs[i],
						c20Term(line, c.obs[i]))
					r.Case(fmt.Sprintf("EXTRACTED MODEL != IMPLEMENTATION on %s: implementation %q, extracted model %q", line, c.obs[i], got[i]), "false")
				}
			}
		} else {
			looseN++
			if got[i] != c.obs[i] {
				looseBad++
				if len(looseEx) < 3 {
					looseEx = append(looseEx, fmt.Sprintf("%s: implementation %q, model %q", line, c.obs[i], got[i]))
				}
			}
		}
	}
	r.Hist["extracted-model/lines"] = len(c.ops)
	r.Hist["extracted-model/strict-lines"] = strictN
	r.Hist["extracted-model/strict-disagreements"] = strictBad
	r.Notes = append(r.Notes, fmt.Sprintf("extracted OCaml model (ExtrOcamlBasic only) run on %d op lines %v: %d inside the property's quantifier, %d disagreements with the implementation; "+
		"%d outside the quantifier (informational), %d disagreements %v", len(c.ops), perOp, strictN, strictBad, looseN, looseBad, looseEx))
}
