package main

import (
	"bytes"
	"encoding/hex"
	"fmt"
	"strings"

	"github.com/M2MGateway/go-smpp/coding"
	"github.com/M2MGateway/go-smpp/pdu"
)

func init() {
	corrTable["C09"] = corrC09
	replayExtra["best"] = func(f []string) string {
		raw, _ := hex.DecodeString(f[1])
		s := string(raw)
		c, cs := coding.BestCoding(s), coding.BestSafeCoding(s)
		out, ok, pan := implEncode(c, s)
		res := fmt.Sprintf("text=%q BestCoding=%d BestSafeCoding=%d accepted=%v panic=%v octets=%x", s, byte(c), byte(cs), ok, pan, out)
		if ok {
			d, _, _ := implDecode(c, out)
			res += fmt.Sprintf(" decoded=%q", d)
		}
		return res
	}
	replayExtra["multipart"] = func(f []string) string {
		var dc int
		fmt.Sscanf(f[1], "%d", &dc)
		raw := []byte{}
		if len(f) > 2 {
			raw, _ = hex.DecodeString(f[2])
		}
		parts, err := pdu.ComposeMultipartShortMessage(string(raw), coding.DataCoding(dc), 0x1234)
		res := fmt.Sprintf("text=%q data_coding=%d err=%v parts=%d:", raw, dc, err, len(parts))
		for _, p := range parts {
			d, _, _ := implDecode(coding.DataCoding(dc), p.Message)
			res += fmt.Sprintf(" [%x -> %q]", p.Message, d)
		}
		return res
	}
	replayExtra["pipeline"] = func(f []string) string {
		var ref int
		fmt.Sscanf(f[2], "%d", &ref)
		raw := []byte{}
		if len(f) > 3 {
			raw, _ = hex.DecodeString(f[3])
		}
		s := string(raw)
		c := coding.BestCoding(s)
		if f[1] == "bestsafe" {
			c = coding.BestSafeCoding(s)
		}
		parts, err := pdu.ComposeMultipartShortMessage(s, c, uint16(ref))
		res := fmt.Sprintf("text=%s detected data_coding=%d err=%v parts=%d", describeText([]rune(s)), byte(c), err, len(parts))
		if x, found := firstRejected(c, s); found {
			res += fmt.Sprintf("; the encoder of data_coding %d rejects %s (rune %d)", byte(c), uplus(x), indexRune([]rune(s), x))
		}
		back := ""
		for _, p := range parts {
			d, _, _ := implDecode(p.DataCoding, p.Message)
			back += d
		}
		if err == nil {
			res += fmt.Sprintf("; parts read back as the text: %v", back == s)
		}
		return res
	}
	replayExtra["multipart-history"] = func(f []string) string {
		res := ""
		for _, st := range f[1:] {
			var dc int
			hx := ""
			fmt.Sscanf(strings.Replace(st, ":", " ", 1), "%d %s", &dc, &hx)
			raw, _ := hex.DecodeString(hx)
			parts, err := pdu.ComposeMultipartShortMessage(string(raw), coding.DataCoding(dc), 0x1234)
			res += fmt.Sprintf("data_coding=%d text=%q err=%v:", dc, raw, err)
			for _, p := range parts {
				d, _, _ := implDecode(coding.DataCoding(dc), p.Message)
				res += fmt.Sprintf(" [%x -> %q]", p.Message, d)
			}
			res += "; "
		}
		return res
	}
	replayExtra["compose-history"] = func(f []string) string {
		var m pdu.ShortMessage
		res := ""
		if len(f) > 1 && f[1] != "-" {
			var dc int
			var hx string
			fmt.Sscanf(strings.Replace(f[1], ":", " ", 1), "%d %s", &dc, &hx)
			msg, _ := hex.DecodeString(hx)
			m = pdu.ShortMessage{DataCoding: coding.DataCoding(dc), Message: msg}
			res += fmt.Sprintf("preset data_coding=%d octets=%x; ", dc, msg)
		}
		for _, h := range f[2:] {
			raw, _ := hex.DecodeString(strings.TrimSuffix(h, "-"))
			err := m.Compose(string(raw))
			back, perr := m.Parse()
			res += fmt.Sprintf("Compose(%q) err=%v data_coding=%d octets=%x Parse=%q err=%v; ", raw, err, byte(m.DataCoding), m.Message, back, perr)
		}
		return res
	}
	replayExtra["compose"] = func(f []string) string {
		raw, _ := hex.DecodeString(f[1])
		var m pdu.ShortMessage
		err := m.Compose(string(raw))
		back, perr := m.Parse()
		return fmt.Sprintf("text=%q compose_err=%v data_coding=%d octets=%x parsed=%q parse_err=%v", raw, err, byte(m.DataCoding), m.Message, back, perr)
	}
}

func coqLabel(c coding.DataCoding) string {
	switch c {
	case coding.GSM7BitCoding:
		return "LGsm7"
	case coding.ASCIICoding:
		return "(LCs CAscii)"
	case coding.Latin1Coding:
		return "(LCs CLatin1)"
	case coding.ShiftJISCoding:
		return "(LCs CSjis)"
	case coding.CyrillicCoding:
		return "(LCs CCyrillic)"
	case coding.HebrewCoding:
		return "(LCs CHebrew)"
	case coding.UCS2Coding:
		return "(LCs CUcs2)"
	case coding.ISO2022JPCoding:
		return "(LCs CIso2022jp)"
	case coding.EUCJPCoding:
		return "(LCs CEucjp)"
	case coding.EUCKRCoding:
		return "(LCs CEuckr)"
	}
	return "LGsm7"
}

func labelName(c coding.DataCoding) string {
	if c == coding.GSM7BitCoding {
		return "gsm7"
	}
	return csName(c)
}

// gsm7SeptetCount: septets of a text the GSM 7-bit encoder accepts (from the running encoder, rune by rune)
func gsm7SeptetCount(s string) int {
	enc := coding.GSM7BitCoding.Encoding().NewEncoder()
	n := 0
	for _, r := range s {
		b, ok := encodeOne(enc, r)
		if !ok {
			return -1
		}
		n += len(b)
	}
	return n
}

type c09ctx struct {
	r     *Run
	known map[coding.DataCoding][]rng
}

// firstRejected: first rune of s that the encoder of c rejects as a one-character text
func firstRejected(c coding.DataCoding, s string) (rune, bool) {
	enc := c.Encoding().NewEncoder()
	for _, x := range s {
		if _, ok := encodeOne(enc, x); !ok {
			return x, true
		}
	}
	return 0, false
}

// property on one text for one detector function; returns the label
func (cx *c09ctx) checkText(op string, detect func(string) coding.DataCoding, s string) (c coding.DataCoding, out []byte, ok bool) {
	r := cx.r
	c = detect(s)
	in := fmt.Sprintf("%s %s", op, hex.EncodeToString([]byte(s)))
	name := labelName(c)
	out, ok, pan := implEncode(c, s)
	if pan {
		r.Fail(op+"/"+name+"/encoder-panic", "encoder of the detected coding panicked", in, "panic", "octets")
		return
	}
	if !ok {
		x, found := firstRejected(c, s)
		if found && inRanges(cx.known[c], x) {
			r.Fail(op+"/"+name+"/alphabet-admits-unencodable-rune", "the detected coding's encoder rejects the text",
				in, fmt.Sprintf("data_coding=%d encoder error at %s", byte(c), uplus(x)), "the encoder accepts the whole text")
		} else if found {
			r.Fail(op+"/"+name+"/unencodable/"+uplus(x), "the detected coding's encoder rejects the text",
				in, fmt.Sprintf("data_coding=%d encoder error at %s", byte(c), uplus(x)), "the encoder accepts the whole text")
		} else {
			r.Fail(op+"/"+name+"/unencodable-text", "the detected coding's encoder rejects the text although it accepts each rune",
				in, fmt.Sprintf("data_coding=%d encoder error", byte(c)), "the encoder accepts the whole text")
		}
		return
	}
	d, dok, dpan := implDecode(c, out)
	if dpan || !dok || d != s {
		if c == coding.GSM7BitCoding && dok && strings.HasSuffix(s, "\r") && d == s[:len(s)-1] {
			if n := gsm7SeptetCount(s); n > 0 && n%8 == 0 {
				r.Fail(op+"/gsm7/final-CR-at-8k-septets", "GSM 7-bit text of 8k septets ending in CR loses the CR",
					in, fmt.Sprintf("octets=%x decoded=%q", out, d), fmt.Sprintf("decoded=%q", s))
				return
			}
		}
		cls := op + "/" + name + "/roundtrip-text"
		if rs := []rune(s); len(rs) == 1 {
			cls = op + "/" + name + "/roundtrip/" + uplus(rs[0])
		}
		r.Fail(cls, "decoding the encoded octets with the same coding returns a different text",
			in, fmt.Sprintf("data_coding=%d octets=%x decoded=%q ok=%v panic=%v", byte(c), out, d, dok, dpan), fmt.Sprintf("decoded=%q", s))
	}
	return
}

func (cx *c09ctx) checkCompose(s string) {
	r := cx.r
	in := fmt.Sprintf("compose %s", hex.EncodeToString([]byte(s)))
	var m pdu.ShortMessage
	var err error
	pan, _ := guard(func() { err = m.Compose(s) })
	runes := []rune(s)
	switch {
	case pan:
		r.Fail("compose/panic", "Compose panicked", in, "panic", "a message or ErrShortMessageTooLarge")
		r.Case(in, fmt.Sprintf("compose_obs_ok %s Panic", coqRunes(runes)))
		return
	case isTooLarge(err):
		r.Count(in, true, "compose: does not fit one message")
		r.Case(in, fmt.Sprintf("compose_obs_ok %s (Err ESize)", coqRunes(runes)))
		return
	case err != nil:
		c := coding.BestCoding(s)
		x, found := firstRejected(c, s)
		if found && inRanges(cx.known[c], x) {
			r.Fail("compose/"+labelName(c)+"/alphabet-admits-unencodable-rune", "Compose fails for lack of an encoding",
				in, fmt.Sprintf("error %v (data_coding %d rejects %s)", err, byte(c), uplus(x)), "a composed message")
		} else {
			r.Fail("compose/"+labelName(c)+"/unencodable/"+uplus(x), "Compose fails for lack of an encoding",
				in, fmt.Sprintf("error %v", err), "a composed message")
		}
		r.Count(in, true, "compose: encoder error")
		r.Case(in, fmt.Sprintf("compose_obs_ok %s (Err EText)", coqRunes(runes)))
		return
	}
	r.Count(in, len(s) > 0, "compose: "+labelName(m.DataCoding))
	r.Case(in, fmt.Sprintf("compose_obs_ok %s (Ok (%d, %s))", coqRunes(runes), byte(m.DataCoding), coqHex(m.Message)))
	var back string
	var perr error
	pan, _ = guard(func() { back, perr = m.Parse() })
	pin := fmt.Sprintf("parse %d %s", byte(m.DataCoding), hex.EncodeToString(m.Message))
	if pan || perr != nil || back != s {
		if m.DataCoding == coding.GSM7BitCoding && perr == nil && strings.HasSuffix(s, "\r") && back == s[:len(s)-1] && gsm7SeptetCount(s)%8 == 0 {
			r.Fail("compose/gsm7/final-CR-at-8k-septets", "the composed octets parse back without the final CR", in,
				fmt.Sprintf("data_coding=%d octets=%x parsed=%q", byte(m.DataCoding), m.Message, back), fmt.Sprintf("parsed=%q", s))
		} else {
			r.Fail("compose/"+labelName(m.DataCoding)+"/parses-to-different-text", "the composed octets parse back to a different text", in,
				fmt.Sprintf("data_coding=%d octets=%x parsed=%q err=%v panic=%v", byte(m.DataCoding), m.Message, back, perr, pan), fmt.Sprintf("parsed=%q", s))
		}
	}
	r.Case(pin, fmt.Sprintf("same_out (parse (%d, %s)) %s", byte(m.DataCoding), coqHex(m.Message), coqOutRunes(back, perr == nil, pan)))
}

func corrC09(r *Run) {
	r.Import("Model.Base")
	r.Import("Model.IntervalMap")
	r.Import("Model.Charset")
	r.Import("Model.Splitter")
	r.Import("Model.Compose") // before Model.Detect: `compose` in the cases is Detect.compose (ShortMessage.Compose)
	r.Import("Model.Detect")
	r.Import("Model.ComposePipeline")
	r.PerShard(100)
	r.Rule = "every Unicode scalar value as a one-character text through BestCoding and BestSafeCoding, the returned coding's encoder and decoder " +
		"(exhaustive, direct); random mixed-script texts per target coding (runes the alphabet table of the target admits; GSM texts with every septet " +
		"count modulo 8, CR / extension characters at the end; one rune from the known-bad set in a separate stream) through best/encode/decode and " +
		"Compose/Parse, each also evaluated by the Coq model. non-trivial = distinct non-empty texts"
	cx := &c09ctx{r: r, known: map[coding.DataCoding][]rng{}}
	for _, d := range detectList {
		ks, err := readRanges(knownFile(d.name))
		if err != nil {
			r.Notes = append(r.Notes, "cannot read "+knownFile(d.name)+": "+err.Error())
		}
		cx.known[d.dc] = ks
	}

	// ---- 0. histories on the package-level coding objects (first: they are the reproducible input when the objects keep
	// state between calls), and a second generation of the tables with pokes between the calls (background)
	waitTables := tablePerturbTest(r, "detect", "charsets")
	defer waitTables()
	codecHistoryTests(r, "C09", r.N(90, 1500), r.N(14, 100))
	coldFirstCallTests(r, "C09")
	{ // the round trip through every entry point of the codecs the detectors can return (String, Writer, Reader ... = Bytes)
		dcs := []coding.DataCoding{coding.UCS2Coding}
		for _, d := range detectList {
			dcs = append(dcs, d.dc)
		}
		xfEntryPointTests(r, "xf", dcs)
	}

	// ---- 1. exhaustive: every scalar value as a one-character text
	for _, det := range []struct {
		op string
		fn func(string) coding.DataCoding
	}{{"best", coding.BestCoding}, {"bestsafe", coding.BestSafeCoding}} {
		perLabel := map[coding.DataCoding]int{}
		sweepRunes(func(x rune) {
			c, _, _ := cx.checkText(det.op, det.fn, string(x))
			perLabel[c]++
		})
		for c, n := range perLabel {
			r.Count(fmt.Sprintf("sweep/%s/%d", det.op, byte(c)), true, fmt.Sprintf("exhaustive per-rune sweep %s -> %s (%d runes)", det.op, labelName(c), n))
			r.Evaluations += n - 1 // every rune of the sweep was one evaluation of the property on the implementation
		}
	}

	// ---- 2. texts
	type pool struct {
		dc        coding.DataCoding
		good, bad []rune // admitted by Validate and accepted / rejected by the encoder
	}
	var pools []pool
	for _, d := range detectList {
		p := pool{dc: d.dc}
		enc := d.dc.Encoding().NewEncoder()
		dc := d.dc
		sweepRunes(func(x rune) {
			ok := false
			guard(func() { ok = dc.Validate(string(x)) })
			if !ok {
				return
			}
			if _, acc := encodeOne(enc, x); acc {
				if x < 0x80 && dc != coding.GSM7BitCoding && dc != coding.ASCIICoding && x%7 != 0 {
					return // keep ASCII from drowning the script characters
				}
				p.good = append(p.good, x)
			} else {
				p.bad = append(p.bad, x)
			}
		})
		pools = append(pools, p)
	}
	ucs := pool{dc: coding.UCS2Coding, good: []rune{0x1F48A, 0x1F600, 0x10000, 0x10FFFF, 0xFFFD, 0xFEFF, 0xE000, 0xD7FF, 0x0E01, 0x0905, 0x4E00, 0xAC00, 0x20AC, 'a', 0x0416}}
	pools = append(pools, ucs)

	emit := func(s string, bucket string) {
		runes := []rune(s)
		key := "text " + hex.EncodeToString([]byte(s))
		r.Count(key, len(s) > 0, bucket)
		c, out, ok := cx.checkText("best", coding.BestCoding, s)
		cs, outs, oks := cx.checkText("bestsafe", coding.BestSafeCoding, s)
		if len(r.Samples) < 6 && len(s) > 0 {
			r.Sample(map[string]interface{}{"text": s, "BestCoding": byte(c), "BestSafeCoding": byte(cs), "octets": hex.EncodeToString(out), "accepted": ok})
		}
		r.Case("best "+key, fmt.Sprintf("(dc_of_label (best %s) =? %d) && (dc_of_label (best_safe %s) =? %d)", coqRunes(runes), byte(c), coqRunes(runes), byte(cs)))
		r.Case("encode_l best "+key, fmt.Sprintf("same_out (encode_l %s %s) %s", coqLabel(c), coqRunes(runes), coqOutBytes(out, ok, false)))
		if ok {
			d, dok, dpan := implDecode(c, out)
			r.Case("decode_l best "+key, fmt.Sprintf("same_out (decode_l %s %s) %s", coqLabel(c), coqHex(out), coqOutRunes(d, dok, dpan)))
		}
		if cs != c {
			r.Case("encode_l bestsafe "+key, fmt.Sprintf("same_out (encode_l %s %s) %s", coqLabel(cs), coqRunes(runes), coqOutBytes(outs, oks, false)))
			if oks {
				d, dok, dpan := implDecode(cs, outs)
				r.Case("decode_l bestsafe "+key, fmt.Sprintf("same_out (decode_l %s %s) %s", coqLabel(cs), coqHex(outs), coqOutRunes(d, dok, dpan)))
			}
		}
		// Validate on the same text, every coding of the priority list
		var vs []string
		for _, d := range detectList {
			v := false
			dc := d.dc
			guard(func() { v = dc.Validate(s) })
			vs = append(vs, fmt.Sprintf("Bool.eqb (validates %s %s) %s", coqLabel(d.dc), coqRunes(runes), coqBool(v)))
		}
		r.Case("validate "+key, strings.Join(vs, " && "))
		cx.checkCompose(s)
	}

	// corpus: the witnesses of the known findings and of repaired defects run first
	for _, s := range []string{"abcdefg\r", "Ā", "€日", " ", "ab\r", "ab\rc", "\r", "abcdefgh\r", "1234567\r12345678901234\r",
		"ְ", "АЀ", "日本©", "가¢", "", "@", "€", "abcdef€", "abcde€", "\x00abc", "\U0001F48A"} {
		emit(s, "corpus")
	}
	// supplementary-plane runes inside otherwise single-coding texts: right after a BMP rune r of each repertoire a rune
	// k*0x10000 + low16(r') with r' of the same repertoire (aliases of the low 16 bits), and arbitrary runes above U+FFFF
	for _, t := range []string{"A\U00010041", "ok \U00010020", "Ж\U00010416", "日\U000265E5", "\U00010041A", "é\U000100E9x"} {
		emit(t, "corpus: supplementary rune aliasing a BMP rune")
	}
	nAlias := r.N(12, 300)
	for _, p := range pools {
		var bmp []rune
		for _, x := range p.good {
			if x <= 0xFFFF {
				bmp = append(bmp, x)
			}
		}
		if len(bmp) == 0 {
			continue
		}
		for i := 0; i < nAlias; i++ {
			ln := 1 + r.Rng.Intn(16)
			rs := make([]rune, 0, ln+2)
			for k := 0; k < ln; k++ {
				rs = append(rs, bmp[r.Rng.Intn(len(bmp))])
			}
			j := r.Rng.Intn(len(rs))
			low := rs[j] & 0xFFFF
			if i%3 == 1 {
				low = bmp[r.Rng.Intn(len(bmp))] & 0xFFFF // another rune of the same repertoire (same span of the table, usually)
			}
			x := rune(1+r.Rng.Intn(16))<<16 | low
			if i%4 == 3 {
				x = 0x10000 + rune(r.Rng.Intn(0x100000)) // any supplementary rune
			}
			rs = append(rs[:j+1], append([]rune{x}, rs[j+1:]...)...)
			emit(string(rs), labelName(p.dc)+" text with a supplementary-plane rune after a BMP rune")
		}
	}
	// histories on one reused ShortMessage: corpus first (a non-zero data_coding, then GSM 7-bit text), then random
	for _, h := range [][]string{{"Привет", "hello"}, {"\U0001F48A take two", "ok, thanks"}, {"안녕", "ΨΠΦ", "日本に行きたい。", "bye"},
		{"hello", "Привет", "hello"}, {"Ā", "abc"}, {"שלום", "abcdefg\r", "é"}} {
		cx.checkHistory(0, nil, false, h, "history corpus")
	}
	cx.checkHistory(8, []byte{0, 'h', 0, 'i'}, true, []string{"hello yourself"}, "history corpus: received message reused")
	cx.checkHistory(0xF5, []byte("8-bit"), true, []string{"ok", "Жук"}, "history corpus: received message reused")
	// a value that carries a user-data header (a part made by ComposeMultipartShortMessage, a decoded segment) is filled in
	// again with Compose
	cx.checkValueWithHeader()
	drawText := func(p pool) string {
		ln := r.Rng.Intn(24)
		if r.Rng.Intn(5) == 0 {
			ln = r.Rng.Intn(3)
		}
		var rs []rune
		for k := 0; k < ln; k++ {
			rs = append(rs, p.good[r.Rng.Intn(len(p.good))])
		}
		if p.dc == coding.GSM7BitCoding && r.Rng.Intn(6) == 0 {
			rs = append(rs, '\r')
		}
		if len(p.bad) > 0 && r.Rng.Intn(12) == 0 {
			rs = append(rs, p.bad[r.Rng.Intn(len(p.bad))])
		}
		return string(rs)
	}
	nh := r.N(60, 1500)
	for i := 0; i < nh; i++ {
		k := 2 + r.Rng.Intn(3)
		var texts []string
		prev := -1
		for j := 0; j < k; j++ {
			q := r.Rng.Intn(len(pools))
			if q == prev { // different repertoires in consecutive steps
				q = (q + 1 + r.Rng.Intn(len(pools)-1)) % len(pools)
			}
			if j == k-1 && i%2 == 0 {
				q = 0 // end on GSM 7-bit text (data_coding 0) after something else
				if prev == 0 {
					texts[j-1] = drawText(pools[1+r.Rng.Intn(len(pools)-1)])
				}
			}
			prev = q
			texts = append(texts, drawText(pools[q]))
		}
		if i%5 == 4 {
			pdc := []byte{8, 3, 6, 0xF1, 0xF5, 0x0E, 0xC8, 4}[r.Rng.Intn(8)]
			cx.checkHistory(pdc, r.Rng.Bytes(r.Rng.Intn(12)), true, texts, "history: received message reused")
		} else {
			cx.checkHistory(0, nil, false, texts, fmt.Sprintf("history of %d Compose calls", k))
		}
	}
	// ---- long texts: the detectors must look at the WHOLE text (a rune the coding cannot carry may come after any
	// number of runes / octets), and the pipeline BestCoding -> ComposeMultipartShortMessage -> decode every part -> join.
	// A long text is a random block of 9..40 runes repeated, with one rune of another repertoire at the very end or
	// between two repetitions behind the first 256 runes / 1024 octets (the block structure keeps the Gallina term small).
	{
		foreign := []rune{0x1F600, 0x0416, 0x05D0, 0x65E5, 0xAC00, 0x00E9, 0x20AC, 0x0E01, 0x10000, 0x0100}
		lens := [][2]int{{257, 140}, {1025, 200}}
		if !r.Quick {
			lens = append(lens, [2]int{300, 700}, [2]int{2000, 3000})
		}
		for pi, p := range pools {
			name := labelName(p.dc)
			small := p.dc != coding.ShiftJISCoding && p.dc != coding.EUCKRCoding // small encoder tables: long texts are cheap for the model
			ls := lens
			if small {
				ls = append(append([][2]int{}, lens...), [2]int{3000, 2001})
			}
			for li, lh := range ls {
				ln := lh[0] + r.Rng.Intn(lh[1])
				bl := 9 + r.Rng.Intn(32)
				block := make([]rune, bl)
				for k := range block {
					x := p.good[r.Rng.Intn(len(p.good))]
					if p.dc == coding.GSM7BitCoding && x == '\r' {
						x = 'a'
					}
					block[k] = x
				}
				reps := (ln + bl - 1) / bl
				model := small || reps*bl <= 600
				emitLong(cx, longText{block: block, k1: reps}, name+" long text", model, uint16(r.Rng.Intn(65536)))
				// one rune of another repertoire at the very end / somewhere behind the first 256 runes (1024 octets)
				for v := 0; v < 2; v++ {
					f := foreign[(pi+li+v*3+r.Rng.Intn(2))%len(foreign)]
					lt := longText{block: block, k1: reps, mid: []rune{f}}
					if v == 1 {
						first := 256/bl + 1 + r.Rng.Intn(reps-256/bl)
						if r.Rng.Intn(2) == 0 && reps*bl > 1100 {
							first = 1024/bl + 1 + r.Rng.Intn(reps-1024/bl)
						}
						lt = longText{block: block, k1: first, mid: []rune{f}, k2: reps - first}
					}
					emitLong(cx, lt, name+" long text with one rune of another repertoire behind the first 256", model && v == 0, uint16(255+r.Rng.Intn(2)))
				}
			}
		}
	}
	n := r.N(22, 500) // thorough: 500 (was 800) since the long texts and the pipeline were added; the tier must stay within 10 min
	for _, p := range pools {
		name := labelName(p.dc)
		for i := 0; i < n; i++ {
			withBad := i%8 == 7 && len(p.bad) > 0
			var rs []rune
			ln := r.Rng.Intn(40)
			if r.Rng.Intn(6) == 0 {
				ln = r.Rng.Intn(4)
			}
			if i%11 == 10 {
				ln = 60 + r.Rng.Intn(120) // around the 140-octet limit of one message
			}
			for k := 0; k < ln; k++ {
				rs = append(rs, p.good[r.Rng.Intn(len(p.good))])
			}
			if p.dc == coding.GSM7BitCoding {
				// every residue of the septet count, CR and extension characters at the end
				switch r.Rng.Intn(4) {
				case 0:
					rs = append(rs, '\r')
				case 1:
					rs = append(rs, '\r', p.good[r.Rng.Intn(len(p.good))])
				case 2:
					rs = append(rs, 0x20AC)
				}
				if i%3 == 0 {
					s := string(rs)
					for gsm7SeptetCount(s)%8 != 0 && gsm7SeptetCount(s) >= 0 {
						rs = append([]rune{'x'}, rs...)
						s = string(rs)
					}
				}
			}
			bucket := name + " text"
			if withBad {
				k := r.Rng.Intn(len(rs) + 1)
				rs = append(rs[:k], append([]rune{p.bad[r.Rng.Intn(len(p.bad))]}, rs[k:]...)...)
				bucket = name + " text with a rune of the known-bad set"
			} else if i%8 == 3 && len(pools) > 1 {
				// mixed scripts: a rune another coding's table admits
				q := pools[r.Rng.Intn(len(pools))]
				k := r.Rng.Intn(len(rs) + 1)
				rs = append(rs[:k], append([]rune{q.good[r.Rng.Intn(len(q.good))]}, rs[k:]...)...)
				bucket = name + " text with a foreign-script rune"
			}
			emit(string(rs), bucket)
			if i%11 == 10 || (r.Quick && i%13 == 5) {
				cx.checkPipeline("best", coding.BestCoding, string(rs), "", uint16(r.Rng.Intn(65536)), true)
			}
		}
	}
}

// longText: block^k1 ++ mid ++ block^k2
type longText struct {
	block  []rune
	k1, k2 int
	mid    []rune
}

func (t longText) runes() []rune {
	var out []rune
	for i := 0; i < t.k1; i++ {
		out = append(out, t.block...)
	}
	out = append(out, t.mid...)
	for i := 0; i < t.k2; i++ {
		out = append(out, t.block...)
	}
	return out
}

func (t longText) coq() string {
	return fmt.Sprintf("(rept %d %s ++ %s ++ rept %d %s)", t.k1, coqRunes(t.block), coqRunes(t.mid), t.k2, coqRunes(t.block))
}

// emitLong: one long text through both detectors (direct: the returned coding must encode the whole text and decode
// back), the model's labels, and the pipeline detector -> ComposeMultipartShortMessage for both detectors.
func emitLong(cx *c09ctx, lt longText, bucket string, model bool, ref uint16) {
	r := cx.r
	runes := lt.runes()
	s := string(runes)
	key := fmt.Sprintf("text %s", hex.EncodeToString([]byte(s)))
	r.Count(key, true, bucket)
	c, out, ok := cx.checkText("best", coding.BestCoding, s)
	cs, _, _ := cx.checkText("bestsafe", coding.BestSafeCoding, s)
	txt := lt.coq()
	r.Case("best "+clip(key, 60), fmt.Sprintf("(let t := %s in (dc_of_label (best t) =? %d) && (dc_of_label (best_safe t) =? %d))", txt, byte(c), byte(cs)))
	if model {
		r.Case("encode_l best "+clip(key, 60), fmt.Sprintf("same_out (encode_l %s %s) %s", coqLabel(c), txt, coqOutBytes(out, ok, false)))
		if ok {
			d, dok, dpan := implDecode(c, out)
			want := "(Err EDecode)"
			if dpan {
				want = "Panic"
			} else if dok && d == s {
				want = "(Ok " + txt + ")"
			} else if dok {
				want = coqOutRunes(d, dok, dpan)
			}
			r.Case("decode_l best "+clip(key, 60), fmt.Sprintf("same_out (decode_l %s %s) %s", coqLabel(c), coqHex(out), want))
		}
	}
	cx.checkPipeline("best", coding.BestCoding, s, txt, ref, model)
	if cs != c {
		cx.checkPipeline("bestsafe", coding.BestSafeCoding, s, txt, ref, model && len(runes) <= 1500)
	}
}

// checkPipeline: text -> detector -> ComposeMultipartShortMessage with the detected coding -> every part decoded with the
// coding it carries -> joined.  C09: never fails for lack of an encoding (an error is acceptable only as "too large" /
// "too many parts"), never stores octets that read back as another text.
func (cx *c09ctx) checkPipeline(op string, detect func(string) coding.DataCoding, s, txt string, ref uint16, model bool) {
	r := cx.r
	runes := []rune(s)
	c := detect(s)
	name := labelName(c)
	in := fmt.Sprintf("pipeline %s %d %s", op, ref, hex.EncodeToString([]byte(s)))
	var parts []pdu.ShortMessage
	var err error
	pan, msg := guard(func() { parts, err = pdu.ComposeMultipartShortMessage(s, c, ref) })
	r.Count(in, true, "pipeline "+op+" -> multipart: "+name)
	cls := 0
	switch {
	case pan:
		cls = 2
		r.Fail("pipeline/"+name+"/panic", "ComposeMultipartShortMessage panicked on the detected coding", in, msg, "parts or an error")
	case err != nil:
		cls = 1
		x, found := firstRejected(c, s)
		switch {
		case found && inRanges(cx.known[c], x):
			// finding D17, reported for this text by the detector test above (class best/<coding>/alphabet-admits-unencodable-rune)
		case found:
			r.Fail("pipeline/"+name+"/unencodable/"+uplus(x), "composing with the detected coding fails for lack of an encoding", in,
				fmt.Sprintf("%s returned data_coding %d, error %v (the encoder rejects %s at rune %d of %d)", op, byte(c), err, uplus(x), indexRune(runes, x), len(runes)), "parts")
		case !isTooLarge(err) && !isTooMany(err):
			r.Fail("pipeline/"+name+"/fails-for-lack-of-an-encoding", "composing with the detected coding fails although the encoder accepts every character", in,
				fmt.Sprintf("%s returned data_coding %d, error %v", op, byte(c), err), "parts, or a refusal for size")
		default:
			r.Hist["pipeline refused for size: "+name]++
		}
	default:
		var pieces [][]rune
		var joined []rune
		okAll := true
		for i, p := range parts {
			if p.UDHeader.Len()+len(p.Message) > 140 {
				r.Fail("pipeline/"+name+"/part-exceeds-140", "a part exceeds 140 octets", in, fmt.Sprintf("part %d/%d: %d + %d octets", i+1, len(parts), p.UDHeader.Len(), len(p.Message)), "at most 140")
			}
			var d string
			var dok bool
			pc := p.DataCoding
			d, dok, _ = implDecode(pc, p.Message)
			if !dok {
				okAll = false
				r.Fail("pipeline/"+name+"/part-does-not-decode", "a part does not decode with the data coding it carries", in,
					fmt.Sprintf("part %d/%d data_coding=%d octets=%x", i+1, len(parts), byte(pc), p.Message), "decodes")
				break
			}
			pieces = append(pieces, []rune(d))
			joined = append(joined, []rune(d)...)
		}
		if okAll && !eqRunes(joined, runes) {
			if c == coding.GSM7BitCoding && gsm7JoinModuloCR(runes, pieces) {
				// a segment of 8k septets ending in CR reads back without it: the known GSM 03.38 6.1.2.3.1 class, per part
				r.Fail("pipeline/gsm7/final-CR-at-8k-septets", "a GSM 7-bit part of 8k septets ending in CR reads back without the CR", in,
					fmt.Sprintf("%d parts, joined %s", len(parts), describeText(joined)), "the text "+describeText(runes))
			} else {
				r.Fail("pipeline/"+name+"/parts-read-back-as-another-text", "the parts, decoded with the coding they carry and joined, are not the text", in,
					fmt.Sprintf("%d parts, joined %s", len(parts), describeText(joined)), "the text "+describeText(runes))
			}
		}
	}
	if model {
		var obs []string
		for _, p := range parts {
			obs = append(obs, fmt.Sprintf("(%s, %s)", coqUDH(p.UDHeader), coqHex(p.Message)))
		}
		if cls != 0 {
			obs = nil
		}
		fn := "best"
		if op == "bestsafe" {
			fn = "best_safe"
		}
		if txt == "" {
			txt = coqText(runes)
		}
		r.Case(clip(in, 80), fmt.Sprintf("pipeline_case %s %d %s %d %d %s", fn, ref, txt, byte(c), cls, coqList(obs)))
	}
}

// gsm7JoinModuloCR: do the decoded pieces reproduce the text, where a piece may have lost its final CR exactly when,
// counting that CR, the segment has a positive multiple of 8 septets (the known GSM 03.38 6.1.2.3.1 class; septets as the
// running encoder counts them)?
func gsm7JoinModuloCR(text []rune, pieces [][]rune) bool {
	var rec func(pos, i int) bool
	rec = func(pos, i int) bool {
		if i == len(pieces) {
			return pos == len(text)
		}
		d := pieces[i]
		if pos+len(d) > len(text) || !eqRunes(text[pos:pos+len(d)], d) {
			return false
		}
		if rec(pos+len(d), i+1) {
			return true
		}
		if pos+len(d) < len(text) && text[pos+len(d)] == '\r' {
			if n := gsm7SeptetCount(string(d) + "\r"); n > 0 && n%8 == 0 {
				return rec(pos+len(d)+1, i+1)
			}
		}
		return false
	}
	return rec(0, 0)
}

func indexRune(rs []rune, x rune) int {
	for i, y := range rs {
		if y == x {
			return i
		}
	}
	return -1
}

// ---------------------------------------------------------------- histories on ONE reused ShortMessage value
// A ShortMessage is filled in, sent and filled in again, or was read from the
// wire and is reused for the answer: Compose must leave label and octets that
// Parse turns back into the text whatever the value held before.
type histStep struct {
	text      string
	status    int // 0 composed, 1 does not fit, 2 encoder error, 3 panic
	dc        byte
	octets    []byte
	parsed    string
	parseOK   bool
	parsePanic bool
}

func (cx *c09ctx) checkHistory(presetDC byte, presetMsg []byte, usePreset bool, texts []string, bucket string) {
	r := cx.r
	var m pdu.ShortMessage
	in := "compose-history "
	if usePreset {
		// a message as ReadFrom leaves it: data_coding, sm_default_msg_id 0, sm_length, octets
		frame := append([]byte{presetDC, 0, byte(len(presetMsg))}, presetMsg...)
		if _, err := m.ReadFrom(bytes.NewReader(frame)); err != nil {
			m = pdu.ShortMessage{DataCoding: coding.DataCoding(presetDC), Message: presetMsg}
		}
		in += fmt.Sprintf("%d:%s", presetDC, hex.EncodeToString(presetMsg))
	} else {
		in += "-"
	}
	for _, t := range texts {
		in += " " + hex.EncodeToString([]byte(t))
		if t == "" {
			in += "-"
		}
	}
	r.Count(in, true, bucket)
	var steps []histStep
	for k, t := range texts {
		st := histStep{text: t}
		var err error
		pan, _ := guard(func() { err = m.Compose(t) })
		where := fmt.Sprintf("step %d of %d", k+1, len(texts))
		switch {
		case pan:
			st.status = 3
			r.Fail("compose-history/panic", "Compose panicked on a reused ShortMessage", in, "panic at "+where, "a message or an error")
		case isTooLarge(err):
			st.status = 1
		case err != nil:
			st.status = 2
			c := coding.BestCoding(t)
			x, found := firstRejected(c, t)
			if found && inRanges(cx.known[c], x) {
				r.Fail("compose/"+labelName(c)+"/alphabet-admits-unencodable-rune", "Compose fails for lack of an encoding",
					in, fmt.Sprintf("%s: error %v (data_coding %d rejects %s)", where, err, byte(c), uplus(x)), "a composed message")
			} else {
				r.Fail("compose-history/"+labelName(c)+"/unencodable/"+uplus(x), "Compose fails for lack of an encoding",
					in, fmt.Sprintf("%s: error %v", where, err), "a composed message")
			}
		default:
			var perr error
			ppan, _ := guard(func() { st.parsed, perr = m.Parse() })
			st.parseOK, st.parsePanic = perr == nil, ppan
			if ppan || perr != nil || st.parsed != t {
				obs := fmt.Sprintf("%s: Compose(%q) left data_coding=%d octets=%x, Parse gave %q err=%v panic=%v", where, t, byte(m.DataCoding), m.Message, st.parsed, perr, ppan)
				if m.DataCoding == coding.GSM7BitCoding && coding.BestCoding(t) == coding.GSM7BitCoding && perr == nil && !ppan &&
					strings.HasSuffix(t, "\r") && st.parsed == t[:len(t)-1] && gsm7SeptetCount(t) > 0 && gsm7SeptetCount(t)%8 == 0 {
					r.Fail("compose/gsm7/final-CR-at-8k-septets", "the composed octets parse back without the final CR", in, obs, fmt.Sprintf("parsed=%q", t))
				} else {
					r.Fail("compose-history/"+labelName(coding.BestCoding(t))+"/parses-to-different-text",
						"after Compose on a reused ShortMessage the stored label and octets parse back to a different text", in, obs, fmt.Sprintf("parsed=%q", t))
				}
			}
		}
		st.dc, st.octets = byte(m.DataCoding), append([]byte{}, m.Message...)
		steps = append(steps, st)
	}
	// the model on the same history: state after every step and what Parse returns from it
	var ts, want []string
	for _, t := range texts {
		ts = append(ts, coqRunes([]rune(t)))
	}
	for _, st := range steps {
		parsed := "None"
		if st.status == 0 {
			parsed = "(Some " + coqOutRunes(st.parsed, st.parseOK, st.parsePanic) + ")"
		}
		want = append(want, fmt.Sprintf("(%d, %s, %d, %s)", st.dc, coqHex(st.octets), st.status, parsed))
	}
	r.Case(in, fmt.Sprintf("history_eq (compose_history (%d, %s) %s) %s", byte(presetOr(usePreset, presetDC)), coqHex(presetOrMsg(usePreset, presetMsg)), coqList(ts), coqList(want)))
}

func presetOr(use bool, dc byte) byte {
	if use {
		return dc
	}
	return 0
}
func presetOrMsg(use bool, b []byte) []byte {
	if use {
		return b
	}
	return nil
}

// ---------------------------------------------------------------- Compose on a value that carries a user-data header
// ShortMessage.Compose writes DataCoding and Message and does not touch UDHeader.  What C09 requires of such a call is what
// it requires of any: the stored label and octets parse back to the text - on the value itself, and at a receiver that reads
// the octets WriteTo produces with the user-data-header indicator the value implies (header present iff UDHeader != nil).
// Whether Compose keeps or drops the old header is not prescribed (both are counted); header + text beyond 140 octets is
// recorded as a note (C09 claims nothing about it; C07 speaks of ComposeMultipartShortMessage only).
func (cx *c09ctx) checkValueWithHeader() {
	r := cx.r
	type preset struct {
		what string
		make func() (pdu.ShortMessage, bool)
	}
	presets := []preset{
		{"a part made by ComposeMultipartShortMessage (GSM 7-bit, 16-bit reference)", func() (pdu.ShortMessage, bool) {
			ps, err := pdu.ComposeMultipartShortMessage(strings.Repeat("part of a long message ", 12), coding.GSM7BitCoding, 0x1234)
			return firstPart(ps, err, 1)
		}},
		{"the last part made by ComposeMultipartShortMessage (UCS-2, 8-bit reference)", func() (pdu.ShortMessage, bool) {
			ps, err := pdu.ComposeMultipartShortMessage(strings.Repeat("Привет, мир! ", 14), coding.UCS2Coding, 7)
			return firstPart(ps, err, -1)
		}},
		{"a decoded segment (data_coding 8, concatenation header, UCS-2 octets)", func() (pdu.ShortMessage, bool) {
			m := pdu.ShortMessage{UDHeader: pdu.UserDataHeader{}}
			frame := []byte{8, 0, 10, 5, 0, 3, 0x55, 2, 1, 0, 'h', 0, 'i'}
			_, err := m.ReadFrom(bytes.NewReader(frame))
			return m, err == nil && len(m.UDHeader) == 1
		}},
		{"a decoded message with an application port header (data_coding 0xF5)", func() (pdu.ShortMessage, bool) {
			m := pdu.ShortMessage{UDHeader: pdu.UserDataHeader{}}
			frame := []byte{0xF5, 0, 11, 6, 5, 4, 0x23, 0xF0, 0, 0, 1, 2, 3, 4}
			_, err := m.ReadFrom(bytes.NewReader(frame))
			return m, err == nil && len(m.UDHeader) == 1
		}},
	}
	texts := []string{"ok", "hello yourself", "Жук", "日本語", "\U0001F48A", strings.Repeat("a", 160), strings.Repeat("é", 140), strings.Repeat("я", 70), "abcdefg\r", strings.Repeat("x", 161)}
	over := 0
	for _, ps := range presets {
		for ti, t := range texts {
			m, ok := ps.make()
			if !ok {
				r.Notes = append(r.Notes, "preset could not be built: "+ps.what)
				break
			}
			before := fmt.Sprintf("%v", m.UDHeader)
			in := fmt.Sprintf("compose-with-header %d %s", ti, hex.EncodeToString([]byte(t)))
			in = fmt.Sprintf("compose-on-value-with-header [%s] %s", ps.what, hex.EncodeToString([]byte(t)))
			r.Count(in, true, "Compose on a value that carries a user-data header")
			var err error
			pan, _ := guard(func() { err = m.Compose(t) })
			runes := []rune(t)
			switch {
			case pan:
				r.Fail("compose-history/panic", "Compose panicked on a value that carries a user-data header", in, "panic", "a message or an error")
				continue
			case isTooLarge(err):
				r.Case(in, fmt.Sprintf("compose_obs_ok %s (Err ESize)", coqRunes(runes)))
				continue
			case err != nil:
				r.Case(in, fmt.Sprintf("compose_obs_ok %s (Err EText)", coqRunes(runes)))
				continue
			}
			r.Case(in, fmt.Sprintf("compose_obs_ok %s (Ok (%d, %s))", coqRunes(runes), byte(m.DataCoding), coqHex(m.Message)))
			if fmt.Sprintf("%v", m.UDHeader) == before {
				r.Hist["Compose on a value with a header: header kept"]++
			} else {
				r.Hist["Compose on a value with a header: header changed or dropped"]++
			}
			name := labelName(coding.BestCoding(t))
			back, perr := m.Parse()
			crClass := m.DataCoding == coding.GSM7BitCoding && strings.HasSuffix(t, "\r") && back == t[:len(t)-1] && gsm7SeptetCount(t)%8 == 0
			if perr != nil || (back != t && !crClass) {
				r.Fail("compose-history/"+name+"/value-with-header-parses-to-different-text", "after Compose on a value that carries a user-data header the stored label and octets parse back to a different text",
					in, fmt.Sprintf("data_coding=%d octets=%x header=%v parsed=%q err=%v", byte(m.DataCoding), m.Message, m.UDHeader, back, perr), fmt.Sprintf("parsed=%q", t))
				continue
			}
			// the wire: what WriteTo produces, read by a receiver that knows whether a header is present
			var buf bytes.Buffer
			if _, werr := m.WriteTo(&buf); werr != nil {
				if m.UDHeader.Len()+len(m.Message) > 140 {
					over++
				}
				r.Hist["Compose on a value with a header: WriteTo refuses the result"]++
				continue
			}
			if m.UDHeader.Len()+len(m.Message) > 140 {
				over++
			}
			var q pdu.ShortMessage
			if m.UDHeader != nil {
				q.UDHeader = pdu.UserDataHeader{}
			}
			_, rerr := q.ReadFrom(bytes.NewReader(buf.Bytes()))
			rback, rperr := q.Parse()
			if rerr != nil || rperr != nil || (rback != t && !crClass) || fmt.Sprintf("%v", q.UDHeader) != fmt.Sprintf("%v", m.UDHeader) && len(m.UDHeader) > 0 {
				r.Fail("compose-history/"+name+"/value-with-header-reads-differently-from-the-wire", "the octets WriteTo produces for the composed value read back as another header or text",
					in, fmt.Sprintf("wire=%x header=%v text=%q errs=%v/%v", buf.Bytes(), q.UDHeader, rback, rerr, rperr), fmt.Sprintf("header=%v text=%q", m.UDHeader, t))
			}
		}
	}
	if over > 0 {
		r.Notes = append(r.Notes, fmt.Sprintf("observation outside C09: Compose on a value that carries a user-data header fits the TEXT into 140 octets; header + text exceeded 140 octets in %d of the calls (WriteTo accepts up to 255)", over))
	}
}

func firstPart(ps []pdu.ShortMessage, err error, which int) (pdu.ShortMessage, bool) {
	if err != nil || len(ps) < 2 {
		return pdu.ShortMessage{}, false
	}
	if which < 0 {
		return ps[len(ps)-1], true
	}
	return ps[which], true
}
