package main

import (
	"bytes"
	"encoding/binary"
	"encoding/hex"
	"fmt"
	"reflect"

	"github.com/M2MGateway/go-smpp/pdu"
)

func init() { corrTable["C12"] = corrC12 }

// marshalCase emits the model-correspondence case for one Marshal call.
func marshalCase(r *Run, t pduType, valueTerm string, err error, panicked bool, w *recWriter) {
	want := "(Err EOther)"
	switch {
	case panicked:
		want = "Panic"
	case err == nil:
		var frame []byte
		for _, c := range w.calls {
			frame = append(frame, c...)
		}
		want = "(Ok " + coqHex(frame) + ")"
	}
	r.Case(fmt.Sprintf("marshal %s %.300s", t.Name, valueTerm),
		fmt.Sprintf("beq_obytes (marshal %s %s) %s", layoutRef(t.ID), valueTerm, want))
}

func corrC12(r *Run) {
	r.Import("Model.PduRun")
	r.Rule = "pointer-to-PDU values of all 33 registered types with unconstrained field contents (sequence over the whole int32 range, " +
		"any command_status, container sizes on both sides of 255/256, TLV and UDH value lengths on both sides of 65534/65535 and 255/256, " +
		"messages on both sides of 140); non-trivial = distinct (type, value) with at least one field beyond the header; distinct by canonical value text"
	ts := pduTypes()
	n := r.N(24, 600)         // per type
	bigBudget := r.N(25, 600) // values whose term is tens of KiB are slow to parse inside coqc: a fixed number per run
	vol := &pduVolume{}
	defer vol.diff(r)
	volPerType := r.N(150, 3000) // further values per type, for the direct tests and the extracted model only
	for _, t := range ts {
		for i := 0; i < n+volPerType; i++ {
			mode := modeWild
			if i%5 == 4 {
				mode = modeDomain
			}
			p := genPDU(r.Rng, t, mode)
			// corpus: the pre-repair witness of D2 first
			if i == 0 {
				pdu.WriteSequence(p, 0)
				h := reflect.ValueOf(p).Elem().Field(0).Addr().Interface().(*pdu.Header)
				h.CommandStatus = 1
			}
			if i == 1 {
				pdu.WriteSequence(p, -1)
			}
			before := clonePDU(p)
			term := coqValue(before)
			valueLine := canonValueLine(before)
			r.SetReplay(replayValue(before))
			nret, err, w, panicked, pmsg := marshalRec(p)
			cls := "ok"
			if panicked {
				cls = "panic"
			} else if err != nil {
				cls = "error"
			}
			r.Count(t.Name+term, reflect.ValueOf(p).Elem().NumField() > 1, t.Name+"/"+cls)
			if i < 1 && t.ID == 4 {
				r.Sample(map[string]interface{}{"type": t.Name, "value": term, "outcome": cls})
			}
			in := fmt.Sprintf("marshal %s %s", t.Name, term)
			switch {
			case panicked:
				r.Fail("marshal-panic/"+t.Name, "Marshal panicked", in, "panic: "+pmsg, "returns normally (value or error)")
			case err != nil:
				if len(w.calls) != 0 {
					r.Fail("marshal-error-but-wrote/"+t.Name, "Marshal returned an error after writing to the destination", in,
						fmt.Sprintf("err=%v writes=%d first=%s", err, len(w.calls), hex.EncodeToString(w.calls[0])), "nothing written on error")
				}
			default:
				var frame []byte
				for _, c := range w.calls {
					frame = append(frame, c...)
				}
				if len(w.calls) != 1 {
					r.Fail("marshal-write-calls/"+t.Name, "Marshal did not hand the frame to the destination in exactly one Write", in,
						fmt.Sprintf("%d Write calls", len(w.calls)), "exactly one Write with the whole frame")
				}
				if len(frame) < 4 || int64(binary.BigEndian.Uint32(frame[:4])) != int64(len(frame)) || nret != int64(len(frame)) {
					r.Fail("marshal-length/"+t.Name, "frame length, command_length and returned count disagree", in,
						fmt.Sprintf("len=%d returned=%d frame=%s…", len(frame), nret, hex.EncodeToString(frame[:min(len(frame), 16)])),
						"first four octets = octets written = returned count")
				}
			}
			vol.marshal(t.ID, valueLine, term, err, panicked, w)
			if i < n && (len(term) < 12000 || bigBudget > 0) {
				if len(term) >= 12000 {
					bigBudget--
				}
				marshalCase(r, t, term, err, panicked, w)
			}
		}
	}
	// failing destination: an error from Write is reported, still no panic
	for _, t := range ts[:4] {
		p := genPDU(r.Rng, t, modeDomain)
		var buf bytes.Buffer
		panicked, pmsg := guard(func() { _, _ = pdu.Marshal(&limitWriter{&buf, 3}, p) })
		r.Count("failing-writer/"+t.Name, true, "failing-writer")
		if panicked {
			r.Fail("marshal-panic-failing-writer/"+t.Name, "Marshal panicked on a failing destination", t.Name, pmsg, "returns the error")
		}
	}
}

type limitWriter struct {
	w *bytes.Buffer
	n int
}

func (l *limitWriter) Write(p []byte) (int, error) {
	return 0, fmt.Errorf("destination failed")
}

func min(a, b int) int {
	if a < b {
		return a
	}
	return b
}
