package main

import (
	"bytes"
	"encoding/binary"
	"encoding/hex"
	"fmt"
	"reflect"

	"github.com/M2MGateway/go-smpp/pdu"
)

func init() { corrTable["C12"] = corrC12 }

// marshalCase emits the model-correspondence case for one Marshal call.
func marshalCase(r *Run, t pduType, valueTerm string, err error, panicked bool, w *recWriter) {
	want := "(Err EOther)"
	switch {
	case panicked:
		want = "Panic"
	case err == nil:
		var frame []byte
		for _, c := range w.calls {
			frame = append(frame, c...)
		}
		want = "(Ok " + coqHex(frame) + ")"
	}
	r.Case(fmt.Sprintf("marshal %s %.300s", t.Name, valueTerm),
		fmt.Sprintf("beq_obytes (marshal %s %s) %s", layoutRef(t.ID), valueTerm, want))
}

// ---------------------------------------------------------------- destinations other than a fresh recording writer
// heldBuffer is a writer that is not a *bytes.Buffer dynamically but offers every fast path of one
// (WriteString, ReadFrom, WriteByte ...) through the embedded buffer.
type heldBuffer struct{ *bytes.Buffer }

// roomWriter accepts [room] more octets, then reports an error (a peer that went away, a full pipe).
type roomWriter struct {
	got  []byte
	room int
}

func (w *roomWriter) Write(p []byte) (int, error) {
	m := len(p)
	if m > w.room {
		m = w.room
	}
	w.got = append(w.got, p[:m]...)
	w.room -= m
	if m < len(p) {
		return m, fmt.Errorf("destination failed after %d octets", m)
	}
	return m, nil
}

// callWatchMarked: one call under the stall watchdog; a call that does not return is reported as panicked with the neverReturns marker
func callWatchMarked(f func()) (hung, panicked bool, msg string) {
	if stallsExhausted() {
		return false, false, ""
	}
	hung, panicked, msg = callWatch(f)
	if hung {
		return true, true, neverReturns + msg
	}
	return
}

func replayValueDest(p interface{}, kind string, held []byte, room int) map[string]interface{} {
	m := replayValue(p)
	m["dest"] = kind
	m["held"] = hex.EncodeToString(held)
	m["room"] = room
	return m
}

// marshalInto runs Marshal on a clone of [before] with the destination described by (kind, held, room)
// and returns what the caller and the destination saw.
func marshalInto(before interface{}, kind string, held []byte, room int) (n int64, err error, got []byte, panicked bool, pmsg string) {
	p := clonePDU(before)
	switch kind {
	case "buffer":
		b := bytes.NewBuffer(append([]byte(nil), held...))
		_, panicked, pmsg = callWatchMarked(func() { n, err = pdu.Marshal(b, p) })
		got = b.Bytes()
	case "wrapped":
		b := heldBuffer{bytes.NewBuffer(append([]byte(nil), held...))}
		_, panicked, pmsg = callWatchMarked(func() { n, err = pdu.Marshal(b, p) })
		got = b.Bytes()
	default: // "room"
		w := &roomWriter{got: append([]byte(nil), held...), room: room}
		_, panicked, pmsg = callWatchMarked(func() { n, err = pdu.Marshal(w, p) })
		got = w.got
	}
	return
}

// checkDest: the C12 clauses on a destination that already holds octets / gives up after [room] octets.
// [fresh]: what a fresh recording writer received for the same value (nil when Marshal refused it).
func checkDest(r *Run, t pduType, before interface{}, term string, fresh []byte, freshErr bool, kind string, held []byte, room int, emit bool) {
	if stallsExhausted() {
		return // Marshal stopped returning many times in this run (reported as marshal-never-returns/…): no further calls
	}
	r.SetReplay(replayValueDest(before, kind, held, room))
	n, err, got, panicked, pmsg := marshalInto(before, kind, held, room)
	in := fmt.Sprintf("marshal %s %.2000s into %s holding %d octets (%s) room=%d", t.Name, term, kind, len(held), shortHex(held), room)
	r.Count(fmt.Sprintf("%s|%s|%x|%d|%s", t.Name, kind, held, room, term), true, "dest="+kind)
	res := "MPanic"
	switch {
	case panicked:
		r.Fail(pcls("marshal-panic/dest="+kind+"/"+t.Name, pmsg), "Marshal panicked", in, "panic: "+pmsg, "returns normally (value or error)")
	case len(got) < len(held) || !bytes.Equal(got[:len(held)], held):
		r.Fail("marshal-clobbered-destination/dest="+kind+"/"+t.Name, "octets the destination already held were changed", in, shortHex(got), "prefix "+shortHex(held))
		return
	case err != nil && freshErr:
		res = "(MErr EOther)"
		if len(got) != len(held) {
			r.Fail("marshal-error-but-wrote/dest="+kind+"/"+t.Name, "Marshal returned an encoding error after writing to the destination", in,
				fmt.Sprintf("err=%v destination grew by %d octets: %s", err, len(got)-len(held), shortHex(got[len(held):])), "nothing written on error")
		}
	case err != nil:
		// the value is encodable: the error can only be the destination's
		res = "(MWriteErr 0)"
		if kind != "room" || room >= len(fresh) {
			r.Fail("marshal-spurious-error/dest="+kind+"/"+t.Name, "Marshal failed on a destination that accepts the whole frame", in, fmt.Sprint(err), "success")
		} else if !bytes.Equal(got[len(held):], fresh[:room]) {
			r.Fail("marshal-failing-writer-octets/"+t.Name, "a destination that gave up received something other than the first octets of the frame", in,
				shortHex(got[len(held):]), shortHex(fresh[:room]))
		}
	default:
		frame := got[len(held):]
		res = fmt.Sprintf("(MOk %d)", n)
		if freshErr || (kind == "room" && room < len(fresh)) {
			r.Fail("marshal-success-unexpected/dest="+kind+"/"+t.Name, "Marshal reported success where it must fail", in, fmt.Sprintf("n=%d wrote %s", n, shortHex(frame)), "an error")
		}
		if len(frame) < 4 || int64(binary.BigEndian.Uint32(frame[:4])) != int64(len(frame)) || n != int64(len(frame)) {
			r.Fail("marshal-length/dest="+kind+"/"+t.Name, "octets written, command_length and returned count disagree on a destination that already held octets", in,
				fmt.Sprintf("held=%d written=%d returned=%d first octets=%s", len(held), len(frame), n, hex.EncodeToString(frame[:min(len(frame), 16)])),
				"first four octets = octets written = returned count")
		}
	}
	if emit && !panicked && len(term) < 12000 {
		roomTerm := "None"
		if kind == "room" {
			roomTerm = fmt.Sprintf("(Some %d)", room)
		}
		r.Case(fmt.Sprintf("marshal_io dest=%s held=%d room=%d %s %.200s", kind, len(held), room, t.Name, term),
			fmt.Sprintf("io_agrees (marshal_io %s %s (dest %s %s)) %s %s", layoutRef(t.ID), term, coqHex(held), roomTerm, res, coqHex(got)))
	}
}

// udhSweep: user-data headers whose elements, in identifier order, reach every total from 250 to 258 octets
// at an element boundary, with and without an empty / one-octet element before and after; and the identifiers
// at the ends of the octet range.  Deterministic (no randomness): every run walks all of them.
func udhSweep() []pdu.UserDataHeader {
	var out []pdu.UserDataHeader
	fill := func(n int, v byte) []byte { return bytes.Repeat([]byte{v}, n) }
	for total := 250; total <= 258; total++ {
		for split := 0; split < 2; split++ {
			for trailing := 0; trailing < 3; trailing++ {
				for leading := 0; leading < 2; leading++ {
					u := pdu.UserDataHeader{}
					rem := total - 1
					if leading == 1 {
						u[0] = nil
						rem -= 2
					}
					if split == 1 {
						u[3] = fill(100, 0x33)
						rem -= 102
					}
					if rem-2 > 255 || rem < 2 {
						continue
					}
					u[5] = fill(rem-2, 0x55)
					switch trailing {
					case 1:
						u[9] = []byte{}
					case 2:
						u[0xFF] = []byte{0x99}
					}
					out = append(out, u)
				}
			}
		}
	}
	for _, id := range []byte{0x00, 0x01, 0x7F, 0x80, 0xFE, 0xFF} {
		for _, l := range []int{0, 1, 3, 255, 256} {
			out = append(out, pdu.UserDataHeader{id: fill(l, id)})
		}
		out = append(out, pdu.UserDataHeader{id: {1}, 0xFF: {}}, pdu.UserDataHeader{id: {}, 0x00: {2, 3}})
	}
	return out
}

func corrC12(r *Run) {
	r.Import("Model.PduRun")
	r.Import("Model.PduHazards")
	r.Rule = "pointer-to-PDU values of all 33 registered types with unconstrained field contents (sequence over the whole int32 range, " +
		"any command_status, container sizes on both sides of 255/256, TLV and UDH value lengths on both sides of 65534/65535 and 255/256, " +
		"UDH totals 250..258 at element boundaries with empty neighbours, element identifiers 0x00/0xFE/0xFF, messages on both sides of 140) x destinations " +
		"(fresh recording writer; *bytes.Buffer and a wrapper already holding 1..100 octets; a writer that gives up after 0..frame+5 octets; the same pointer marshalled twice); " +
		"non-trivial = distinct (type, value) with at least one field beyond the header; distinct by canonical value text"
	ts := pduTypes()
	n := r.N(11, 600)         // per type
	bigBudget := r.N(12, 600) // values whose term is tens of KiB are slow to parse inside coqc: a fixed number per run
	vol := &pduVolume{}
	defer vol.diff(r)
	volPerType := r.N(110, 3000) // further values per type, for the direct tests and the extracted model only
	one := func(t pduType, p interface{}, i int, kernel bool, tag string) {
		before := clonePDU(p)
		term := coqValue(before)
		valueLine := canonValueLine(before)
		r.SetReplay(replayValue(before))
		nret, err, w, panicked, pmsg := marshalRec(p)
		cls := "ok"
		if panicked {
			cls = "panic"
		} else if err != nil {
			cls = "error"
		}
		r.Count(t.Name+term, reflect.ValueOf(p).Elem().NumField() > 1, t.Name+"/"+cls+tag)
		if i < 1 && t.ID == 4 && tag == "" {
			r.Sample(map[string]interface{}{"type": t.Name, "value": term, "outcome": cls})
		}
		in := fmt.Sprintf("marshal %s %s", t.Name, term)
		var frame []byte
		for _, c := range w.calls {
			frame = append(frame, c...)
		}
		switch {
		case panicked:
			r.Fail(pcls("marshal-panic/"+t.Name, pmsg), "Marshal panicked", in, "panic: "+pmsg, "returns normally (value or error)")
		case err != nil:
			if len(frame) != 0 {
				r.Fail("marshal-error-but-wrote/"+t.Name, "Marshal returned an error after writing to the destination", in,
					fmt.Sprintf("err=%v writes=%d first=%s", err, len(w.calls), hex.EncodeToString(w.calls[0])), "nothing written on error")
			}
		default:
			// the property speaks of the octets the destination received, not of how many Write calls carried them
			if len(frame) < 4 || int64(binary.BigEndian.Uint32(frame[:4])) != int64(len(frame)) || nret != int64(len(frame)) {
				r.Fail("marshal-length/"+t.Name, "frame length, command_length and returned count disagree", in,
					fmt.Sprintf("len=%d returned=%d frame=%s…", len(frame), nret, hex.EncodeToString(frame[:min(len(frame), 16)])),
					"first four octets = octets written = returned count")
			}
		}
		if tag != "/loaded-content" {
			vol.marshal(t.ID, valueLine, term, err, panicked, w)
		}
		small := len(term) < 12000
		if kernel && (small || bigBudget > 0) {
			if !small {
				bigBudget--
			}
			marshalCase(r, t, term, err, panicked, w)
		}
		if panicked {
			return
		}
		// the same pointer marshalled a second time: same octets, same outcome, no panic; and what the first call left in it
		if i%2 == 0 {
			afterTerm := coqValue(p)
			r.SetReplay(replayValueDest(before, "twice", nil, 0))
			n2, err2, w2, panicked2, pmsg2 := marshalRec(p)
			var frame2 []byte
			for _, c := range w2.calls {
				frame2 = append(frame2, c...)
			}
			switch {
			case panicked2:
				r.Fail(pcls("marshal-panic/second-call/"+t.Name, pmsg2), "a second Marshal of the same pointer panicked", in, "panic: "+pmsg2, "returns normally")
			case (err == nil) != (err2 == nil) || !bytes.Equal(frame, frame2) || (err == nil && n2 != nret):
				r.Fail("marshal-second-call-differs/"+t.Name, "marshalling the same pointer twice gave different results", in,
					fmt.Sprintf("second: n=%d err=%v %s", n2, err2, shortHex(frame2)), fmt.Sprintf("first: n=%d err=%v %s", nret, err, shortHex(frame)))
			}
			if kernel && small && err == nil && i%4 == 0 {
				r.Case(fmt.Sprintf("argument after Marshal %s %.200s", t.Name, term),
					fmt.Sprintf("beq_fvals (arg_after %s %s) %s", layoutRef(t.ID), term, afterTerm))
			}
		}
		// other destinations
		if i%3 == 0 || tag != "" {
			held := r.Rng.Bytes(r.Rng.Pick([]int{1, 2, 3, 4, 5, 16, 17, 100}))
			kind := []string{"buffer", "buffer", "wrapped"}[r.Rng.Intn(3)]
			checkDest(r, t, before, term, frame, err != nil, kind, held, 0, kernel && i%6 == 0)
		}
		if i%5 == 1 {
			room := r.Rng.Pick([]int{0, 1, 3, 4, 15, 16, 17, len(frame) - 1, len(frame), len(frame) + 5})
			if room < 0 {
				room = 0
			}
			checkDest(r, t, before, term, frame, err != nil, "room", r.Rng.Bytes(r.Rng.Intn(3)), room, kernel && i%10 == 1)
		}
	}
	for _, t := range ts {
		for i := 0; i < n+volPerType; i++ {
			mode := modeWild
			if i%5 == 4 {
				mode = modeDomain
			}
			p := genPDU(r.Rng, t, mode)
			// corpus: the pre-repair witness of D2 first
			if i == 0 {
				pdu.WriteSequence(p, 0)
				h := reflect.ValueOf(p).Elem().Field(0).Addr().Interface().(*pdu.Header)
				h.CommandStatus = 1
			}
			if i == 1 {
				pdu.WriteSequence(p, -1)
			}
			one(t, p, i, i < n, "")
		}
	}
	// histories: one value marshalled before and after a Marshal that FAILS (every refusal kind at every field position,
	// destinations that give up after k octets): the failed call leaves nothing behind — "on error it has written nothing",
	// and the next frame is exactly one frame
	for ti, t := range ts {
		base := poisonBase(r.Rng, t)
		for k, x := range allPoisons(t, base) {
			b1, b2, ok := sandwich(r, "marshal", t, base, x)
			r.Count(fmt.Sprintf("sandwich/%s/%s", t.Name, x), ok, "history/"+x.kind)
			if ok && (k+ti)%12 == int(r.Seed%12) {
				historyCase(r, t, base, x, b1, b2)
			}
		}
	}
	// loaded field contents (number forms x TON x NPI, dates, service types, credentials) in every string / address position
	for k, it := range corpusPDUs(ts, 3, int(r.Seed%3)) {
		one(it.t, it.p, 1+2*k, false, "/loaded-content")
	}
	// dense sweeps: every message length 0..140 x every way the short message can be written, every C-string / address length
	// 0..66, every TLV length 0..300 and around 512 / 1024 — frame lengths crossing every capacity step of a growing buffer
	for _, part := range []string{"message", "strings", "tlvs"} {
		for _, it := range denseSweep(ts, part) {
			before := clonePDU(it.p)
			r.SetReplay(replayValue(before))
			nret, err, w, panicked, pmsg := marshalRec(it.p)
			r.Count("dense/"+it.what, true, "dense-sweep/"+part)
			in := "marshal (dense sweep: " + it.what + ") " + it.t.Name + " " + coqValue(before)
			switch {
			case panicked:
				r.Fail(pcls("marshal-panic/"+it.t.Name, pmsg), "Marshal panicked", in, "panic: "+pmsg, "returns normally (value or error)")
			case err != nil:
				if len(w.calls) != 0 {
					r.Fail("marshal-error-but-wrote/"+it.t.Name, "Marshal returned an error after writing to the destination", in, fmt.Sprint(err), "nothing written on error")
				}
			default:
				var frame []byte
				if len(w.calls) > 0 {
					frame = w.calls[0]
				}
				if len(frame) < 4 || int64(binary.BigEndian.Uint32(frame[:4])) != int64(len(frame)) || nret != int64(len(frame)) {
					r.Fail("marshal-length/"+it.t.Name, "frame length, command_length and returned count disagree", in,
						fmt.Sprintf("len=%d returned=%d frame=%s…", len(frame), nret, hex.EncodeToString(frame[:min(len(frame), 16)])),
						"first four octets = octets written = returned count")
				}
			}
		}
	}
	// deterministic sweep of user-data headers on every type that carries a short message
	sweep := udhSweep()
	nt := 0
	for _, t := range ts {
		mi := -1
		for j := 0; j < t.T.NumField(); j++ {
			if t.T.Field(j).Type == reflect.TypeOf(pdu.ShortMessage{}) {
				mi = j
			}
		}
		if mi < 0 {
			continue
		}
		for k, u := range sweep {
			p := reflect.New(t.T)
			pdu.WriteSequence(p.Interface(), int32(1+k))
			for j := 0; j < t.T.NumField(); j++ {
				if e, ok := p.Elem().Field(j).Interface().(pdu.ESMClass); ok {
					e.UDHIndicator = true
					p.Elem().Field(j).Set(reflect.ValueOf(e))
				}
			}
			m := pdu.ShortMessage{UDHeader: u}
			if k%3 == 1 {
				m.Message = []byte{0x41}
			}
			p.Elem().Field(mi).Set(reflect.ValueOf(m))
			one(t, p.Interface(), 1+2*k, (k+nt)%6 == 0, "/udh-sweep") // odd index: no extra destinations by index; tag forces a held buffer
		}
		nt++
	}
}

func min(a, b int) int {
	if a < b {
		return a
	}
	return b
}
