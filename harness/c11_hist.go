package main

// C11, round 5: histories of malformed segments on ONE combiner.  A run of n
// segments each of which must be ignored (sequence number 0 or above the
// announced total; every total: always 255, i mod 256, scattered), under a new
// key each or under one key, n = 17 … 5000 (thorough 70 000), before and after
// well-formed traffic that must still be delivered.  The same history is
// generated from a few numbers inside Coq (Model/CombinerRun.v: chk_ignored).
// A failing history is cut down before it is reported.

import (
	"fmt"
	"reflect"

	"github.com/M2MGateway/go-smpp/pdu"
)

type ignCase struct {
	Form           int
	Pre, Post      [][3]int // (reference, total, sequence)
	Rm, Tm, Km, Lo int
	N              int
}

func ignTotal(tm, i int) int {
	switch tm {
	case 0:
		return 255
	case 1:
		return i % 256
	}
	return (i*37 + 11) % 256
}

func ignSeq(km, t, i int) int {
	switch {
	case km == 0, km == 2 && i%2 == 0:
		return 0
	}
	return (t + 1) % 256
}

func (c ignCase) build() (table []segVal) {
	src, dst := longSrc, longDst
	for _, x := range c.Pre {
		table = append(table, segForm(c.Form, src, dst, x[0], x[1], x[2]))
	}
	for i := 0; i < c.N; i++ {
		ref := c.Lo
		if c.Rm == 0 {
			ref = (c.Lo + i) & 0xFFFF
		}
		t := ignTotal(c.Tm, i)
		table = append(table, segForm(c.Form, src, dst, ref, t, ignSeq(c.Km, t, i)))
	}
	for _, x := range c.Post {
		table = append(table, segForm(c.Form, src, dst, x[0], x[1], x[2]))
	}
	return
}

func coqTriples(l [][3]int) string {
	items := make([]string, len(l))
	for i, x := range l {
		items[i] = fmt.Sprintf("(%d, %d, %d)", x[0], x[1], x[2])
	}
	return coqList(items)
}

// runCombineWire: like runCombine, every PDU through Marshal and ReadPDU first (a PDU that ReadPDU returns)
func runCombineWire(table []segVal, hist []int) (combineObs, error) {
	ps := make([]*pdu.DeliverSM, len(hist))
	for j, ix := range hist {
		p := table[ix].build()
		p.Header.Sequence = int32(j + 1)
		d, err := overWire(p)
		if err != nil {
			return combineObs{PanicAt: -1}, err
		}
		ps[j] = d
	}
	return runCombinePDUs(ps), nil
}

func c11Ignored(r *Run) {
	ns := []int{17, 20, 100, 5000}
	if !r.Quick {
		ns = append(ns, 1000, 20000, 70000)
	}
	k := 0
	for _, n := range ns {
		for tm := 0; tm < 3; tm++ {
			for km := 0; km < 3; km++ {
				for rm := 0; rm < 2; rm++ {
					k++
					form := 1
					if rm == 1 && k%3 == 0 {
						form = 0
					}
					c := ignCase{Form: form, Rm: rm, Tm: tm, Km: km, Lo: 1000, N: n}
					if form == 0 {
						c.Lo = 100
					}
					// well-formed traffic around the run, under references the run never uses: a message in progress
					// before it and completed after it, a two-part and a one-part message and the start of a 255-part one after it
					p1, p2, p3, p4 := 7, 8, 9, 10
					switch k % 3 {
					case 0:
						c.Pre = [][3]int{{p1, 2, 1}}
						c.Post = [][3]int{{p2, 2, 1}, {p1, 2, 2}, {p2, 2, 2}, {p3, 1, 1}, {p4, 255, 1}}
					case 1:
						c.Post = [][3]int{{p2, 2, 2}, {p3, 1, 1}, {p4, 255, 255}, {p2, 2, 1}}
					default:
						c.Pre = [][3]int{{p1, 3, 3}, {p1, 3, 1}}
						c.Post = [][3]int{{p4, 255, 1}, {p1, 3, 2}, {p3, 1, 1}}
					}
					table := c.build()
					hist := seqInts(0, len(table))
					var obs combineObs
					wire := k%4 == 0 && n <= 100
					if wire {
						var err error
						if obs, err = runCombineWire(table, hist); err != nil {
							r.Fail("ignored-run/wire-refused", "a deliver_sm with a concatenation element did not survive Marshal and ReadPDU", histInput(table, hist), err.Error(), "the decoded deliver_sm")
							continue
						}
					} else {
						obs = runCombine(table, hist)
					}
					in := fmt.Sprintf("ignored-run form=%d n=%d key=%d total=%d seq=%d pre=%v post=%v wire=%v", form, n, rm, tm, km, c.Pre, c.Post, wire)
					r.Count(in, true, fmt.Sprintf("run of ignored segments on one combiner/n=%s", bucketK(n)))
					if cls := fmt.Sprintf("combiner-panic/ignored-run/key=%d,total=%d", rm, tm); obs.PanicAt >= 0 && r.failSeen[cls] >= 2 {
						r.failSeen[cls]++
						continue
					}
					if obs.PanicAt >= 0 {
						small := shrinkHistory(table, hist, map[bool]string{false: "combine/panic", true: "combine/never-returns"}[obs.Hung])
						t, h := compactHistory(table, small)
						o := runCombine(t, h)
						r.Fail(hangClass(obs, fmt.Sprintf("combiner-panic/ignored-run/key=%d,total=%d", rm, tm)), "the combiner panicked or did not return after a run of segments it had to ignore (one combiner instance)",
							histInput(t, h), fmt.Sprintf("panic at input %d of %d (cut down from %d arrivals): %s", o.PanicAt+1, len(h), len(hist), o.PanicMsg), "a value or an ignored segment")
						continue
					}
					judgeBig(r, table, hist, obs, in)
					if n >= 1000 && (r.Quick || n >= 20000) && (tm*3+km+rm)%5 != int(r.Seed)%5 {
						continue // the long runs are model cases for a seeded fifth of the combinations (the theorem C11_ignored_run covers every length)
					}
					dflt := make([][][]int, len(table))
					r.Case(in, fmt.Sprintf("chk_ignored %d %s %s %s %d %d %d %d %d%%nat %s %s", form, coqAddr(longSrc), coqAddr(longDst), coqTriples(c.Pre),
						rm, tm, km, c.Lo, n, coqTriples(c.Post), sparseAgainst(obs.Trace, dflt)))
				}
			}
		}
	}
	// the run aimed at a message in progress (totals that differ from its array, sequence numbers outside it), oracle + no panic
	for _, n := range []int{20, 100, 5000} {
		for tm := 0; tm < 3; tm++ {
			c := ignCase{Form: 1, Rm: 1, Tm: tm, Km: 2, Lo: 1000, N: n, Pre: [][3]int{{1000, 2, 1}, {7, 2, 1}}, Post: [][3]int{{1000, 2, 2}, {7, 2, 2}, {9, 1, 1}}}
			table := c.build()
			hist := seqInts(0, len(table))
			obs := runCombine(table, hist)
			in := fmt.Sprintf("ignored-run aimed at a message in progress n=%d total=%d", n, tm)
			r.Count(in, true, fmt.Sprintf("run of ignored segments on one combiner/n=%s", bucketK(n)))
			if obs.PanicAt >= 0 {
				small := shrinkHistory(table, hist, map[bool]string{false: "combine/panic", true: "combine/never-returns"}[obs.Hung])
				t, h := compactHistory(table, small)
				o := runCombine(t, h)
				r.Fail(hangClass(obs, fmt.Sprintf("combiner-panic/ignored-run/in-progress,total=%d", tm)), "the combiner panicked or did not return on malformed segments under the key of a message in progress",
					histInput(t, h), fmt.Sprintf("panic at input %d of %d (cut down from %d arrivals): %s", o.PanicAt+1, len(h), len(hist), o.PanicMsg), "a value or an ignored segment")
				continue
			}
			judgeBig(r, table, hist, obs, in)
		}
	}
	r.Sample(map[string]interface{}{"op": "combine", "what": "run of ignored segments on one combiner", "shape": "n = 17 … 5000 segments with sequence number 0 or above the total (totals: 255 / i mod 256 / scattered), new key each or one key, well-formed messages before and after",
		"required": "no panic; the well-formed messages are delivered"})
}

// ---------------------------------------------------------------- getHeader through reflect
type shapeUnexportedFirst struct {
	n      int
	Header pdu.Header
}
type shapeExportedFirst struct {
	N      int
	Header pdu.Header
}
type shapeNoHeader struct{ A, B int }

// c11Shapes: ReadSequence and ReadCommandStatus on every registered PDU type as ReadPDU returns it (a
// pointer: must return) and on what a caller could pass by mistake (the struct by value, a typed nil
// pointer, nil, a scalar …: the model says which of these panic; these are not C11 failures).
func c11Shapes(r *Run, ts []pduType) {
	obsClass := func(x interface{}) int {
		if pk, _ := guard(func() { _ = pdu.ReadSequence(x); _ = pdu.ReadCommandStatus(x) }); pk {
			return 2
		}
		return 0
	}
	for _, t := range ts {
		p := reflect.New(t.T).Interface()
		kinds := coqInts(fieldKinds(t.T))
		cls := obsClass(p)
		r.Count("shape/ptr/"+t.Name, true, "ReadSequence by reflect/pointer to a registered PDU")
		if cls != 0 {
			r.Fail("accessor-panic/ReadSequence/"+t.Name, "ReadSequence / ReadCommandStatus panicked on a pointer to a registered PDU type (what ReadPDU returns)",
				fmt.Sprintf("shape pointer %s", t.Name), "panic", "returns the header's sequence number and status")
		}
		r.Case("getHeader on *"+t.Name, fmt.Sprintf("chk_get_header 0 %s %d", kinds, cls))
		// not what ReadPDU returns — recorded against the model only
		r.Case("getHeader on "+t.Name+" by value", fmt.Sprintf("chk_get_header 2 %s %d", kinds, obsClass(reflect.New(t.T).Elem().Interface())))
		r.Case("getHeader on nil *"+t.Name, fmt.Sprintf("chk_get_header 1 [] %d", obsClass(reflect.Zero(reflect.PtrTo(t.T)).Interface())))
	}
	n := 5
	for _, x := range []struct {
		what string
		v    interface{}
		tag  int
		ks   []int
	}{
		{"nil interface", nil, 3, nil}, {"int", 7, 3, nil}, {"string", "x", 3, nil}, {"map", map[string]int{}, 3, nil}, {"*int", &n, 3, nil},
		{"struct{} by value", struct{}{}, 2, []int{}}, {"*struct{}", &struct{}{}, 0, []int{}},
		{"*struct{unexported; Header}", &shapeUnexportedFirst{}, 0, []int{2, 0}}, {"*struct{Exported; Header}", &shapeExportedFirst{}, 0, []int{1, 0}},
		{"*struct without Header", &shapeNoHeader{}, 0, []int{1, 1}}, {"struct without Header by value", shapeNoHeader{}, 2, []int{1, 1}},
	} {
		r.Count("shape/other/"+x.what, true, "ReadSequence by reflect/other arguments (model only)")
		r.Case("getHeader on "+x.what, fmt.Sprintf("chk_get_header %d %s %d", x.tag, coqInts(x.ks), obsClass(x.v)))
	}
}
