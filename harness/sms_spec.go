package main

// Go transliteration of coq/Spec/Gsm0340.v (GSM 03.40 section 9.2.2 layout of
// SMS-DELIVER / SMS-SUBMIT).  Definition by definition the same arithmetic as the
// Coq text; every generated TPDU is also emitted as a model case
// `beq_bytes (layout_deliver T) (hx …)` so the two transcriptions are compared in
// the kernel on the very inputs used.  Nothing here calls package sms.

import (
	"fmt"
	"math/big"
	"strings"
)

type specAddr struct {
	TON, NPI int
	Digits   []int // numeric value (each 0..9) when Septets == nil
	Septets  []int // alphanumeric value (each < 128)
	Alnum    bool
}

type specTime struct {
	YY, Mo, DD, HH, Mi, SS int
	ZNeg                   bool
	ZQ                     int
}

type specEnh struct {
	SingleShot bool
	Reserved   int
	Fmt        int // 0 none, 1 relative, 2 seconds, 3 hh:mm:ss
	V          int // relative value / seconds
	HH, MM, SS int
}

type specVP struct {
	Kind int // 0 absent, 1 enhanced, 2 relative, 3 absolute  (= TP-VPF bits)
	Rel  int
	Enh  specEnh
	Abs  specTime
}

type specUD struct {
	Septets   []int // default alphabet
	Octets    []byte
	IsSeptets bool
}

type specDeliver struct {
	SC                             specAddr
	MMS, Bit3, Bit4, SRI, UDHI, RP bool
	OA                             specAddr
	PID, DCS                       int
	SCTS                           specTime
	UD                             specUD
}

type specSubmit struct {
	RD, SRR, UDHI, RP bool
	MR                int
	DA                specAddr
	PID, DCS          int
	VP                specVP
	UD                specUD
}

func specSemiOctets(d []int) []byte {
	var out []byte
	for len(d) > 0 {
		if len(d) == 1 {
			out = append(out, byte(d[0]+16*15))
			break
		}
		out = append(out, byte(d[0]+16*d[1]))
		d = d[2:]
	}
	return out
}
func specSemi2(v int) byte { return byte(v/10 + 16*(v%10)) }

func specToa(a specAddr) byte { return byte(128 + 16*a.TON + a.NPI) }

// pack7: the septets as one little-endian number, cut into ceil(7n/8) octets
func specPack7(ss []int) []byte {
	v := new(big.Int)
	for i := len(ss) - 1; i >= 0; i-- {
		v.Mul(v, big.NewInt(128))
		v.Add(v, big.NewInt(int64(ss[i])))
	}
	n := (7*len(ss) + 7) / 8
	out := make([]byte, 0, n)
	m := new(big.Int)
	for i := 0; i < n; i++ {
		v.DivMod(v, big.NewInt(256), m)
		out = append(out, byte(m.Int64()))
	}
	return out
}

func specTPAddr(a specAddr) []byte {
	if !a.Alnum {
		return append([]byte{byte(len(a.Digits)), specToa(a)}, specSemiOctets(a.Digits)...)
	}
	return append([]byte{byte((7*len(a.Septets) + 3) / 4), specToa(a)}, specPack7(a.Septets)...)
}
func specSCAddr(a specAddr) []byte {
	v := specSemiOctets(a.Digits)
	if a.Alnum {
		v = specPack7(a.Septets)
	}
	return append([]byte{byte(1 + len(v)), specToa(a)}, v...)
}
func specSCTS(t specTime) []byte {
	z := specSemi2(t.ZQ)
	if t.ZNeg {
		z += 8
	}
	return []byte{specSemi2(t.YY), specSemi2(t.Mo), specSemi2(t.DD), specSemi2(t.HH), specSemi2(t.Mi), specSemi2(t.SS), z}
}
func specRelSeconds(v int) int64 {
	switch {
	case v <= 143:
		return int64(v+1) * 5 * 60
	case v <= 167:
		return 12*3600 + int64(v-143)*30*60
	case v <= 196:
		return int64(v-166) * 86400
	}
	return int64(v-192) * 7 * 86400
}
func specEnhIndicator(e specEnh) byte {
	x := 8*e.Reserved + e.Fmt
	if e.SingleShot {
		x += 64
	}
	return byte(x)
}
func specEnhOctets(e specEnh) []byte {
	out := []byte{specEnhIndicator(e), 0, 0, 0, 0, 0, 0}
	switch e.Fmt {
	case 1, 2:
		out[1] = byte(e.V)
	case 3:
		out[1], out[2], out[3] = specSemi2(e.HH), specSemi2(e.MM), specSemi2(e.SS)
	}
	return out
}
func specEnhSeconds(e specEnh) int64 {
	switch e.Fmt {
	case 1:
		return specRelSeconds(e.V)
	case 2:
		return int64(e.V)
	case 3:
		return int64(e.HH)*3600 + int64(e.MM)*60 + int64(e.SS)
	}
	return 0
}
func specVPOctets(v specVP) []byte {
	switch v.Kind {
	case 1:
		return specEnhOctets(v.Enh)
	case 2:
		return []byte{byte(v.Rel)}
	case 3:
		return specSCTS(v.Abs)
	}
	return nil
}
func specUDOctets(u specUD) []byte {
	if u.IsSeptets {
		return specPack7(u.Septets)
	}
	return u.Octets
}
func specUDL(u specUD) int {
	if u.IsSeptets {
		return len(u.Septets)
	}
	return len(u.Octets)
}
func specDcsCountsSeptets(dcs int) bool {
	group := dcs / 16
	switch {
	case group < 4:
		if (dcs/32)%2 == 1 {
			return false
		}
		a := (dcs / 4) % 4
		return a == 0 || a == 3
	case group < 12:
		return true
	case group < 14:
		return true
	case group == 14:
		return false
	}
	return (dcs/4)%2 == 0
}
func b2n(b bool) int {
	if b {
		return 1
	}
	return 0
}
func specDeliverFO(t specDeliver) byte {
	return byte(0 + 4*b2n(t.MMS) + 8*b2n(t.Bit3) + 16*b2n(t.Bit4) + 32*b2n(t.SRI) + 64*b2n(t.UDHI) + 128*b2n(t.RP))
}
func specSubmitFO(t specSubmit) byte {
	return byte(1 + 4*b2n(t.RD) + 8*t.VP.Kind + 32*b2n(t.SRR) + 64*b2n(t.UDHI) + 128*b2n(t.RP))
}
func specLayoutDeliver(t specDeliver) []byte {
	out := specSCAddr(t.SC)
	out = append(out, specDeliverFO(t))
	out = append(out, specTPAddr(t.OA)...)
	out = append(out, byte(t.PID), byte(t.DCS))
	out = append(out, specSCTS(t.SCTS)...)
	out = append(out, byte(specUDL(t.UD)))
	return append(out, specUDOctets(t.UD)...)
}
func specLayoutSubmit(t specSubmit) []byte {
	out := []byte{0, specSubmitFO(t), byte(t.MR)}
	out = append(out, specTPAddr(t.DA)...)
	out = append(out, byte(t.PID), byte(t.DCS))
	out = append(out, specVPOctets(t.VP)...)
	out = append(out, byte(specUDL(t.UD)))
	return append(out, specUDOctets(t.UD)...)
}

// ---------------------------------------------------------------- Gallina terms of the spec values
func coqInts(xs []int) string {
	s := make([]string, len(xs))
	for i, x := range xs {
		s[i] = fmt.Sprint(x)
	}
	return "[" + strings.Join(s, "; ") + "]"
}
func coqSpecAddr(a specAddr) string {
	v := "Digits " + coqInts(a.Digits)
	if a.Alnum {
		v = "Alnum " + coqInts(a.Septets)
	}
	return fmt.Sprintf("{| sa_ton := %d; sa_npi := %d; sa_val := %s |}", a.TON, a.NPI, v)
}
func coqSpecTime(t specTime) string {
	return fmt.Sprintf("{| t_yy := %d; t_mo := %d; t_dd := %d; t_hh := %d; t_mi := %d; t_ss := %d; t_zneg := %s; t_zq := %d |}",
		t.YY, t.Mo, t.DD, t.HH, t.Mi, t.SS, coqBool(t.ZNeg), t.ZQ)
}
func coqSpecUD(u specUD) string {
	if u.IsSeptets {
		return "UdSeptets " + coqInts(u.Septets)
	}
	return "UdOctets " + coqHex(u.Octets)
}
func coqSpecVP(v specVP) string {
	switch v.Kind {
	case 1:
		f := "EnhNone"
		switch v.Enh.Fmt {
		case 1:
			f = fmt.Sprintf("EnhRelative %d", v.Enh.V)
		case 2:
			f = fmt.Sprintf("EnhSeconds %d", v.Enh.V)
		case 3:
			f = fmt.Sprintf("EnhHMS %d %d %d", v.Enh.HH, v.Enh.MM, v.Enh.SS)
		}
		return fmt.Sprintf("VpEnhanced {| en_single_shot := %s; en_reserved := %d; en_fmt := %s |}", coqBool(v.Enh.SingleShot), v.Enh.Reserved, f)
	case 2:
		return fmt.Sprintf("VpRelative %d", v.Rel)
	case 3:
		return "VpAbsolute " + coqSpecTime(v.Abs)
	}
	return "VpAbsent"
}
func coqSpecDeliver(t specDeliver) string {
	return fmt.Sprintf("{| d_sc := %s; d_mms := %s; d_bit3 := %s; d_bit4 := %s; d_sri := %s; d_udhi := %s; d_rp := %s; d_oa := %s; d_pid := %d; d_dcs := %d; d_scts := %s; d_ud := %s |}",
		coqSpecAddr(t.SC), coqBool(t.MMS), coqBool(t.Bit3), coqBool(t.Bit4), coqBool(t.SRI), coqBool(t.UDHI), coqBool(t.RP),
		coqSpecAddr(t.OA), t.PID, t.DCS, coqSpecTime(t.SCTS), coqSpecUD(t.UD))
}
func coqSpecSubmit(t specSubmit) string {
	return fmt.Sprintf("{| s_rd := %s; s_srr := %s; s_udhi := %s; s_rp := %s; s_mr := %d; s_da := %s; s_pid := %d; s_dcs := %d; s_vp := %s; s_ud := %s |}",
		coqBool(t.RD), coqBool(t.SRR), coqBool(t.UDHI), coqBool(t.RP), t.MR, coqSpecAddr(t.DA), t.PID, t.DCS, coqSpecVP(t.VP), coqSpecUD(t.UD))
}
