package main

// C11 — no PDU accepted from the network can crash its consumer.
//
// Every read-only operation the library offers is run under recover() on every
// PDU a malformed-frame stream yields, and on directly constructed edge
// values.  Each observation is also a model case: Model.Accessors (and
// Model.Combiner) evaluated in coqc on the same value must give the same result.

import (
	"bytes"
	"encoding/binary"
	"encoding/hex"
	"encoding/json"
	"fmt"
	"reflect"
	"strings"
	"sync/atomic"
	"time"

	"github.com/M2MGateway/go-smpp/coding"
	"github.com/M2MGateway/go-smpp/coding/gsm7bit"
	"github.com/M2MGateway/go-smpp/pdu"
)

func init() {
	corrTable["C11"] = corrC11
	replayTable["C11"] = replayC11
}

// ---------------------------------------------------------------- accessors of one PDU
type accResult struct {
	Term    string   // Gallina [outcome acc_obs] term of what was observed ("Panic" if a modelled accessor panicked)
	Panics  []string // "accessor: message" for every operation that panicked
	Hung    string   // the operation that did not return, if any
	Skipped bool     // not run: the run had already met maxStalls calls that never returned
}

func coqConcat(h *pdu.ConcatenatedHeader) string {
	if h == nil {
		return "None"
	}
	return fmt.Sprintf("(Some {| c_ref := %d; c_total := %d; c_seq := %d |})", h.Reference, h.TotalParts, h.Sequence)
}

func typeIDs() map[reflect.Type]uint32 {
	m := map[reflect.Type]uint32{}
	for _, t := range pduTypes() {
		m[t.T] = t.ID
	}
	return m
}

var typeIDcache map[reflect.Type]uint32

// runAccessors runs every read-only operation on p (a pointer to a registered
// PDU struct) under recover().
// runAccessors: every read-only operation on p, on its own goroutine under the watchdog (c11_watch.go):
// an operation that does not return is reported as such (Panics gets "<operation>: did not return",
// Hung names it) and the rest of the operations on this PDU is skipped.
func runAccessors(p interface{}) accResult {
	if typeIDcache == nil {
		typeIDcache = typeIDs()
	}
	if stallsExhausted() {
		return accResult{Term: "Panic", Skipped: true}
	}
	var progress int64
	var curOp atomic.Value
	curOp.Store("")
	var res accResult
	hung, _, waited := stallWatch(&progress, func() { res = runAccessorsInner(p, &progress, &curOp) })
	if hung {
		op := curOp.Load().(string)
		return accResult{Term: "Panic", Hung: op, Panics: []string{op + ": had not returned after " + waited.Round(100*time.Millisecond).String()}}
	}
	return res
}

func runAccessorsInner(p interface{}, progress *int64, curOp *atomic.Value) accResult {
	var res accResult
	modelPanic := false
	try := func(name string, modelled bool, f func()) {
		curOp.Store(name)
		defer atomic.AddInt64(progress, 1)
		if panicked, msg := guard(f); panicked {
			res.Panics = append(res.Panics, name+": "+msg)
			if modelled {
				modelPanic = true
			}
		}
	}
	v := reflect.ValueOf(p).Elem()
	tname := v.Type().Name()
	// formatting the PDU as text: fmt recovers a panicking String method and prints a PANIC marker
	for _, verb := range []string{"%v", "%+v", "%s", "%#v"} {
		verb := verb
		try("fmt "+verb+" "+tname, false, func() {
			if s := fmt.Sprintf(verb, p); strings.Contains(s, "PANIC=") {
				panic("fmt reported a panicking String method: " + s[strings.Index(s, "PANIC="):])
			}
		})
	}
	// encoding/json walks the exported fields and calls MarshalJSON / MarshalText where defined; an error is fine, a panic is not
	try("json.Marshal "+tname, false, func() { _, _ = json.Marshal(p) })
	var seq int32
	var status pdu.CommandStatus
	try("ReadSequence", true, func() { seq = pdu.ReadSequence(p) })
	try("ReadCommandStatus", true, func() { status = pdu.ReadCommandStatus(p) })
	respTerm := "None"
	if r, ok := p.(pdu.Responsable); ok {
		try("Resp", true, func() {
			resp := r.Resp()
			rt := reflect.TypeOf(resp)
			if rt != nil && rt.Kind() == reflect.Ptr { // a response handed out by value is as good as a pointer to it
				rt = rt.Elem()
			}
			rid := typeIDcache[rt]
			respTerm = fmt.Sprintf("(Some (%d, %s))", rid, coqZ(int64(pdu.ReadSequence(resp))))
			_ = fmt.Sprintf("%v %+v", resp, resp)
		})
	}
	fields := make([]string, v.NumField())
	for i := 0; i < v.NumField(); i++ {
		f := v.Field(i)
		fname := tname + "." + v.Type().Field(i).Name
		fields[i] = "FoNone"
		if v.Type().Field(i).PkgPath != "" {
			continue // an unexported (bookkeeping) field is not something the library offers on the PDU
		}
		// text form of the field: fmt verbs and a direct call of String()
		try("fmt "+fname, false, func() {
			if s := fmt.Sprintf("%v|%+v|%s|%#v", f.Interface(), f.Interface(), f.Interface(), f.Interface()); strings.Contains(s, "PANIC=") {
				panic("fmt reported a panicking String method: " + s[strings.Index(s, "PANIC="):])
			}
		})
		if st, ok := f.Interface().(fmt.Stringer); ok {
			try("String "+fname, false, func() { _ = st.String() })
		} else if f.CanAddr() {
			if st, ok := f.Addr().Interface().(fmt.Stringer); ok {
				try("String "+fname, false, func() { _ = st.String() })
			}
		}
		switch x := f.Interface().(type) {
		case pdu.Address:
			try("Address.String "+fname, true, func() { fields[i] = "FoAddr " + coqHex([]byte(x.String())) })
		case pdu.DestinationAddresses:
			try("Address.String "+fname, true, func() {
				items := make([]string, len(x.Addresses))
				for j, a := range x.Addresses {
					items[j] = coqHex([]byte(a.String()))
				}
				fields[i] = "FoAddrs " + coqList(items)
			})
			for _, d := range x.DistributionList {
				_ = d
			}
		case pdu.UnsuccessfulRecords:
			try("UnsuccessfulRecord.String "+fname, true, func() {
				items := make([]string, len(x))
				for j, rec := range x {
					_ = rec.String()
					items[j] = coqHex([]byte(rec.DestAddr.String()))
				}
				fields[i] = "FoAddrs " + coqList(items)
			})
		case pdu.ShortMessage:
			var h *pdu.ConcatenatedHeader
			try("ConcatenatedHeader "+fname, true, func() { h = x.UDHeader.ConcatenatedHeader() })
			parsed := "None"
			try("Parse "+fname, true, func() {
				m := x
				text, err := m.Parse()
				if x.DataCoding.Encoding() == nil {
					if err != nil {
						panic("Parse without decoder returned an error: " + err.Error())
					}
					parsed = "(Some " + coqHex([]byte(text)) + ")"
				}
			})
			try("DataCoding accessors "+fname, false, func() {
				_ = x.DataCoding.String()
				_, _, _ = x.DataCoding.MessageWaitingInfo()
				_, _ = x.DataCoding.MessageClass()
				_ = x.DataCoding.Splitter()
				_ = x.UDHeader.Len()
				_, _ = x.DataCoding.Validate(""), x.DataCoding.Validate("a\u20ac")
			})
			if concatOpen(x.UDHeader) {
				fields[i] = fmt.Sprintf("FoShortOpen %s", parsed)
			} else {
				fields[i] = fmt.Sprintf("FoShort %s %s", coqConcat(h), parsed)
			}
		default:
			if f.Kind() == reflect.Uint8 {
				b := byte(f.Uint())
				try("MessageState.String "+fname, true, func() { fields[i] = "FoU8 " + coqHex([]byte(pdu.MessageState(b).String())) })
				try("octet accessors "+fname, false, func() {
					_ = pdu.InterfaceVersion(b).String()
					_ = coding.DataCoding(b).String()
					_ = coding.DataCoding(b).Encoding()
				})
			}
		}
	}
	if modelPanic {
		res.Term = "Panic"
	} else {
		res.Term = fmt.Sprintf("(Ok {| o_seq := %s; o_status := %d; o_resp := %s; o_fields := %s |})",
			coqZ(int64(seq)), uint32(status), respTerm, coqList(fields))
	}
	return res
}

// concatOpen: the UDH holds both concatenation elements, or one longer than its format: which header
// is read from it (the first? the 16-bit one? none?) is left open by C10/C11; only "returns" is compared.
func concatOpen(u map[byte][]byte) bool {
	d0, has0 := u[0]
	d8, has8 := u[8]
	return (has0 && has8) || len(d0) > 3 || len(d8) > 4
}

// accClass turns "Address.String SubmitSM.SourceAddr: runtime error…" into the
// narrow failure class "accessor-panic/Address.String/SubmitSM.SourceAddr".
func accClass(p string) string {
	head := p
	if i := strings.Index(p, ": "); i >= 0 {
		head = p[:i]
	}
	return "accessor-panic/" + strings.ReplaceAll(head, " ", "/")
}

func reportAccessorPanics(r *Run, input string, res accResult) {
	if res.Hung != "" {
		r.Fail(strings.Replace(accClass(res.Panics[0]), "accessor-panic/", "accessor-never-returns/", 1), "a read-only operation on a PDU returned by ReadPDU did not return", input, res.Panics[0], "returns normally")
		return
	}
	for _, p := range res.Panics {
		r.Fail(accClass(p), "a read-only operation on a PDU returned by ReadPDU panicked", input, p, "returns normally")
	}
}

// ---------------------------------------------------------------- frames
func rawFrameOf(id uint32, status uint32, seq int32, body []byte) []byte {
	f := make([]byte, 16, 16+len(body))
	binary.BigEndian.PutUint32(f[0:], uint32(16+len(body)))
	binary.BigEndian.PutUint32(f[4:], id)
	binary.BigEndian.PutUint32(f[8:], status)
	binary.BigEndian.PutUint32(f[12:], uint32(seq))
	return append(f, body...)
}

func mutate(r *Rng, b []byte) []byte {
	b = append([]byte(nil), b...)
	if len(b) == 0 {
		return b
	}
	for k := 1 + r.Intn(3); k > 0; k-- {
		i := r.Intn(len(b))
		switch r.Intn(7) {
		case 0:
			b[i] ^= 1 << uint(r.Intn(8))
		case 1:
			b[i] = 0
		case 2:
			b[i] = 0xFF
		case 3:
			b[i] = r.Byte()
		case 4:
			b = b[:i] // truncate
		case 5:
			b = append(b[:i], append([]byte{r.Byte()}, b[i:]...)...) // insert
		case 6:
			b[i] = byte(r.Pick([]int{1, 2, 3, 4, 5, 9, 10, 11, 64, 0x40, 0x43, 0xBF}))
		}
		if len(b) == 0 {
			return b
		}
	}
	return b
}

// one frame through ReadPDU and, if it yields a PDU, through every accessor
func c11Frame(r *Run, frame []byte, bucket string, fullPath bool, collect *[]*pdu.DeliverSM, opt ...bool) {
	modelCase := len(opt) == 0 || opt[0]
	input := "frame " + hex.EncodeToString(frame)
	var p interface{}
	var err error
	if panicked, msg := guard(func() { p, err = pdu.ReadPDU(bytes.NewReader(frame)) }); panicked {
		// not C11's subject (C04), but it would hide everything behind it
		r.Fail("readpdu-panic", "ReadPDU panicked", input, msg, "returns a PDU or an error")
		return
	}
	if p == nil || reflect.ValueOf(p).IsNil() {
		r.Count(bucket+"/nopdu/"+fmt.Sprint(fnv64(string(frame))), false, bucket+"/no-pdu")
		return
	}
	tname := reflect.TypeOf(p).Elem().Name()
	res := runAccessors(p)
	if res.Skipped {
		return
	}
	reportAccessorPanics(r, input, res)
	cls := "decoded"
	if err != nil {
		cls = "partial(decode error)"
	}
	r.Count(bucket+"/"+tname+"/"+fmt.Sprint(fnv64(string(frame))), err == nil && len(frame) > 16, bucket+"/"+cls)
	if d, ok := p.(*pdu.DeliverSM); ok && collect != nil {
		*collect = append(*collect, d)
	}
	if err != nil || !modelCase {
		return // the model has no partially filled value; the direct test above stands
	}
	id := binary.BigEndian.Uint32(frame[4:8])
	if fullPath {
		want := "(Ok (Some " + strings.TrimPrefix(strings.TrimSuffix(res.Term, ")"), "(Ok ") + "))"
		if res.Term == "Panic" {
			want = "Panic"
		}
		r.Case("accessors_of_frame "+hex.EncodeToString(frame), fmt.Sprintf("beq_oacc_opt (accessors_of_frame %s) %s", coqHex(frame), want))
	} else {
		r.Case(fmt.Sprintf("accessors %s %.200s", tname, hex.EncodeToString(frame)),
			fmt.Sprintf("beq_oacc (accessors_of_value %d %s) %s", id, coqValue(p), res.Term))
	}
}

// the decoded deliver_sm PDUs of a stream, fed as one history to a combiner
func c11History(r *Run, ps []*pdu.DeliverSM, bucket string) {
	if len(ps) == 0 {
		return
	}
	table := make([]segVal, len(ps))
	hist := make([]int, len(ps))
	for i, p := range ps {
		table[i] = segVal{p.SourceAddr, p.DestAddr, map[byte][]byte(p.Message.UDHeader)}
		hist[i] = i
	}
	obs := runCombinePDUs(ps)
	if obs.Skipped {
		return
	}
	r.Count(bucket+"/"+fmt.Sprint(fnv64(tableKey(table))), true, bucket)
	input := histInput(table, hist)
	if obs.PanicAt >= 0 {
		r.Fail(hangClass(obs, "combiner-panic"), "the multipart combiner panicked or did not return on a history of decoded deliver_sm PDUs", input,
			fmt.Sprintf("panic at input %d: %s", obs.PanicAt+1, obs.PanicMsg), "returns normally (a value or an ignored segment)")
		r.Case("combine "+input, fmt.Sprintf("chk_combine %s %s Panic", coqSegTable(table), coqNatList(hist)))
		return
	}
	if _, _, _, _, info := judgeFull(table, hist, obs); info.lenient {
		lenientCase(r, table, hist, obs, info) // what is done with malformed segments is left open: returns normally + the well-formed keys
		return
	}
	r.Case("combine "+input, fmt.Sprintf("chk_combine_proj %s %s %s (Ok %s)", coqSegTable(table), coqNatList(hist), coqNatList(projOf(table, hist)), coqTrace(projOf(table, hist), obs.Trace)))
}

func replayC11(arg string) string {
	arg = strings.TrimSpace(arg)
	switch {
	case strings.HasPrefix(arg, "frame "):
		frame, _ := hex.DecodeString(strings.TrimPrefix(arg, "frame "))
		var p interface{}
		var err error
		if panicked, msg := guard(func() { p, err = pdu.ReadPDU(bytes.NewReader(frame)) }); panicked {
			return "ReadPDU panicked: " + msg
		}
		if p == nil || reflect.ValueOf(p).IsNil() {
			return fmt.Sprintf("ReadPDU returned no PDU (err=%v)", err)
		}
		res := runAccessors(p)
		return fmt.Sprintf("ReadPDU: %T err=%v; accessor panics: %v", p, err, res.Panics)
	case strings.HasPrefix(arg, "{"):
		return replayC10(arg)
	case strings.HasPrefix(arg, "command_status "):
		var v uint32
		fmt.Sscanf(strings.TrimPrefix(arg, "command_status "), "0x%X", &v)
		var s1, s2 string
		if panicked, msg := guard(func() { s1 = pdu.CommandStatus(v).String(); s2 = pdu.CommandStatus(v).Error() }); panicked {
			return "CommandStatus.String/Error panicked: " + msg
		}
		return "CommandStatus.String = " + s1 + ", Error = " + s2
	case strings.HasPrefix(arg, "message_state "):
		var b int
		fmt.Sscan(strings.TrimPrefix(arg, "message_state "), &b)
		var s string
		if panicked, msg := guard(func() { s = pdu.MessageState(b).String() }); panicked {
			return "MessageState.String panicked: " + msg
		}
		return "MessageState.String = " + s
	case strings.HasPrefix(arg, "address "):
		var ton, npi int
		var hx string
		fmt.Sscan(strings.TrimPrefix(arg, "address "), &ton, &npi, &hx)
		no, _ := hex.DecodeString(hx)
		a := pdu.Address{TON: byte(ton), NPI: byte(npi), No: string(no)}
		if cls, route, msg := addressTextClass(a); cls != 0 {
			return fmt.Sprintf("Address{%d,%d,%q}: route %s panicked: %s", ton, npi, no, route, msg)
		}
		return fmt.Sprintf("Address{%d,%d,%q}.String() = %q; every text route returns", ton, npi, no, a.String())
	case strings.HasPrefix(arg, "udh "):
		u := pdu.UserDataHeader{}
		for _, kv := range strings.Fields(strings.TrimPrefix(arg, "udh ")) {
			var id int
			var hx string
			if i := strings.Index(kv, "="); i >= 0 {
				fmt.Sscan(kv[:i], &id)
				hx = kv[i+1:]
			}
			d, _ := hex.DecodeString(hx)
			u[byte(id)] = d
		}
		var h *pdu.ConcatenatedHeader
		if panicked, msg := guard(func() { h = u.ConcatenatedHeader() }); panicked {
			return "ConcatenatedHeader panicked: " + msg
		}
		return fmt.Sprintf("ConcatenatedHeader = %+v", h)
	case strings.HasPrefix(arg, "parse "):
		var dc int
		var hx string
		fmt.Sscan(strings.TrimPrefix(arg, "parse "), &dc, &hx)
		msg, _ := hex.DecodeString(hx)
		m := pdu.ShortMessage{DataCoding: coding.DataCoding(dc), Message: msg}
		var s string
		var err error
		if panicked, pm := guard(func() { s, err = m.Parse() }); panicked {
			return "Parse panicked: " + pm
		}
		return fmt.Sprintf("Parse = %q err=%v", s, err)
	}
	return "unrecognised replay input"
}

func isGSM7(c coding.DataCoding) bool {
	e := c.Encoding()
	return e != nil && reflect.TypeOf(e) == reflect.TypeOf(gsm7bit.Packed)
}

// hangClass: the failure class of a combiner run that did not return normally — "…-panic…" for a panic,
// the same with "never-returns" in place of "panic" for a call that did not return
func hangClass(obs combineObs, panicClass string) string {
	if obs.Hung {
		return strings.Replace(panicClass, "-panic", "-never-returns", 1)
	}
	return panicClass
}

func udhInput(u map[byte][]byte) string {
	var parts []string
	for _, k := range []int{0, 8, 1, 5, 0x24} {
		if d, ok := u[byte(k)]; ok {
			parts = append(parts, fmt.Sprintf("%d=%s", k, hex.EncodeToString(d)))
		}
	}
	return "udh " + strings.Join(parts, " ")
}

// ---------------------------------------------------------------- the run
func corrC11(r *Run) {
	r.Import("Model.AccessorsRun")
	r.Import("Model.CombinerRun")
	r.PerShard(150)
	r.Rule = "every read-only operation (fmt %v/%+v and String() of the PDU and of each field, Resp, ReadSequence, ReadCommandStatus, Parse, " +
		"ConcatenatedHeader, the multipart combiner) under recover() on: every PDU a malformed-frame stream yields (valid header of each of the 33 " +
		"registered ids + arbitrary body octets; mutated valid frames; targeted UDH/message_state/data_coding content) and directly constructed edge values " +
		"(all 256 message_state and data_coding octets, concatenation elements of every length 0..8 for IEI 0 and 8, all 65,536 (total, sequence) pairs on an " +
		"empty and on a primed combiner, histories mixing totals under one key); non-trivial = distinct inputs on which at least one accessor ran on non-empty content"
	ts := pduTypes()

	// ---- 1. message_state: every octet (corpus: 10, the D6 witness, first)
	for _, b := range append([]int{10, 9, 11, 255}, seqInts(0, 256)...) {
		var s string
		panicked, msg := guard(func() { s = pdu.MessageState(b).String() })
		r.Count(fmt.Sprintf("message_state/%d", b), true, "message_state octet")
		if panicked {
			r.Fail(fmt.Sprintf("message_state-panic/octet=%d", b), "MessageState.String panicked", fmt.Sprintf("message_state %d", b), msg, "returns a text")
			r.Case(fmt.Sprintf("message_state_string %d", b), fmt.Sprintf("ocls (message_state_string %d) =? 2", b))
			continue
		}
		_ = s // the text is not compared: C11 demands that String() returns, not what it prints
		r.Case(fmt.Sprintf("message_state_string %d", b), fmt.Sprintf("ocls (message_state_string %d) =? 0", b))
	}
	r.Sample(map[string]interface{}{"accessor": "MessageState.String", "octet": 10, "note": "the first value without a name: printed as a number"})

	// ---- 1'. command_status over its whole range, and the oversized-UDH frame class (c11_status.go)
	c11Status(r, ts)

	// ---- 1'''. semantically loaded contents in every field of every PDU type, every text route (c11_contents.go)
	c11Contents(r, ts)

	// ---- 1''. ReadSequence / ReadCommandStatus go through reflect: what the argument looks like decides whether they return
	c11Shapes(r, ts)

	// ---- 2. data_coding: every octet x hostile messages through Parse
	msgs := [][]byte{{}, {0x41}, {0x1B}, {0x41, 0x1B}, {0xD8, 0x00}, {0xD8, 0x00, 0x41}, {0xFF, 0xFE, 0xFD}, {0x80, 0x81, 0x8F, 0xA0},
		{0x1B, 0x1B, 0x1B, 0x1B, 0x1B, 0x1B, 0x1B}, bytes.Repeat([]byte{0xFF}, 140), bytes.Repeat([]byte{0x00}, 7), {0x0D}, {0x41, 0x0D}, {0x1B, 0x65}}
	for i := 0; i < r.N(6, 40); i++ {
		msgs = append(msgs, r.Rng.Bytes(r.Rng.Pick([]int{1, 2, 3, 7, 8, 9, 70, 139, 140, 255})))
	}
	for dc := 0; dc < 256; dc++ {
		for mi, msg := range msgs {
			m := pdu.ShortMessage{DataCoding: coding.DataCoding(dc), Message: msg}
			var text string
			var err error
			panicked, pm := guard(func() { text, err = m.Parse() })
			cls := "text"
			if err != nil {
				cls = "error"
			}
			hasDec := coding.DataCoding(dc).Encoding() != nil
			r.Count(fmt.Sprintf("parse/%d/%d", dc, mi), len(msg) > 0, fmt.Sprintf("Parse decoder=%v/%s", hasDec, cls))
			in := fmt.Sprintf("parse %d %s", dc, hex.EncodeToString(msg))
			if panicked {
				r.Fail(fmt.Sprintf("parse-panic/data_coding=%d", dc), "ShortMessage.Parse panicked", in, pm, "returns a text or an error")
				continue
			}
			_ = text
			if !hasDec && (mi < 6 || dc%16 == 3) {
				r.Case(in, fmt.Sprintf("ocls (parse (fun _ => None) {| sm_dflt := 0; sm_dc := %d; sm_udh := None; sm_msg := %s |}) =? 0", dc, coqHex(msg)))
			}
			if isGSM7(coding.DataCoding(dc)) && (dc == 0 || mi%4 == dc%4) {
				// the decoder model of C08 plugged into Parse (C11_parse_gsm7): returns iff the code returns
				r.Case(in, fmt.Sprintf("chk_parse_gsm7 %d %s %d", dc, coqHex(msg), map[bool]int{false: 0, true: 1}[err != nil]))
			}
			if !hasDec && err != nil {
				r.Fail(fmt.Sprintf("parse-error-without-decoder/data_coding=%d", dc), "Parse returned an error although it has no decoder to fail", in, err.Error(), "the hex text")
			}
		}
	}
	r.Sample(map[string]interface{}{"accessor": "ShortMessage.Parse", "data_coding": 8, "message": "d800 (lone surrogate)", "outcome": "text or error, no panic"})

	// ---- 2'. Parse on messages whose decoded text ends in the widest characters of the coding, every length (c11_parse.go)
	c11ParseWide(r)

	// ---- 3. concatenation elements of every length for IEI 0 and IEI 8 (and both, and next to other elements)
	lens := append(seqInts(0, 9), 254, 255)
	var udhs []map[byte][]byte
	for _, l := range lens {
		d := make([]byte, l)
		for i := range d {
			d[i] = byte(i + 1)
		}
		udhs = append(udhs, map[byte][]byte{0: d}, map[byte][]byte{8: d}, map[byte][]byte{0: d, 0x24: {1}}, map[byte][]byte{8: d, 1: {}})
		for _, l2 := range lens {
			d2 := make([]byte, l2)
			for i := range d2 {
				d2[i] = byte(0x10 + i)
			}
			udhs = append(udhs, map[byte][]byte{0: d, 8: d2})
		}
	}
	udhs = append(udhs, nil, map[byte][]byte{}, map[byte][]byte{5: {1, 2, 3, 4}}, map[byte][]byte{0: nil}, map[byte][]byte{8: nil})
	for i, u := range udhs {
		var h *pdu.ConcatenatedHeader
		panicked, pm := guard(func() { h = pdu.UserDataHeader(u).ConcatenatedHeader() })
		r.Count(fmt.Sprintf("concat/%d", i), len(u) > 0, "ConcatenatedHeader element lengths")
		term := "None"
		if u != nil {
			term = "(Some " + coqKVs8(u) + ")"
		}
		if panicked {
			l0, l8 := -1, -1
			if d, ok := u[0]; ok {
				l0 = len(d)
			}
			if d, ok := u[8]; ok {
				l8 = len(d)
			}
			r.Fail(fmt.Sprintf("concat-header-panic/len(IEI0)=%d,len(IEI8)=%d", l0, l8), "UserDataHeader.ConcatenatedHeader panicked", udhInput(u), pm, "returns a header or nil")
			r.Case(udhInput(u), fmt.Sprintf("beq_oconcat (concatenated_header %s) Panic", term))
			continue
		}
		if concatOpen(u) {
			r.Case(udhInput(u), fmt.Sprintf("ocls (concatenated_header %s) =? 0", term)) // which element is read is left open
			continue
		}
		r.Case(udhInput(u), fmt.Sprintf("beq_oconcat (concatenated_header %s) (Ok %s)", term, coqConcat(h)))
	}
	r.Sample(map[string]interface{}{"accessor": "ConcatenatedHeader", "udh": "IEI 0 with 2 octets", "returned": "nil (not a concatenation header)"})

	// ---- 4. all 65,536 (total, sequence) pairs: on an empty combiner, and after segments already stored under the key
	a := pdu.Address{TON: 1, NPI: 1, No: "1"}
	for pi, prime := range [][][2]int{{}, {{2, 1}}, {{3, 2}}, {{255, 255}}, {{1, 0}, {0, 0}, {4, 4}}} {
		var exc []string
		nPanic := 0
		for t := 0; t < 256 && !stallsExhausted(); t++ {
			for s := 0; s < 256; s++ {
				var ps []*pdu.DeliverSM
				for _, pr := range prime {
					ps = append(ps, segVal{a, a, ie0(7, pr[0], pr[1])}.build())
				}
				ps = append(ps, segVal{a, a, ie0(7, t, s)}.build())
				obs := runCombinePDUs(ps)
				cls := 0
				switch {
				case obs.PanicAt >= 0:
					cls = 2
					nPanic++
					r.Fail(hangClass(obs, fmt.Sprintf("combiner-panic/pair/primed=%d", len(prime))), "the combiner panicked or did not return on a (total, sequence) pair",
						fmt.Sprintf("pairs primed=%v then total=%d sequence=%d", prime, t, s), obs.PanicMsg, "a value or an ignored segment")
				case len(obs.Trace[len(obs.Trace)-1]) > 0:
					cls = 1
				}
				if cls != 0 {
					exc = append(exc, fmt.Sprintf("(%d, %d, %d)", t, s, cls))
				}
				r.Count(fmt.Sprintf("pair/%v/%d/%d", prime, t, s), t > 0 && s > 0, fmt.Sprintf("(total,sequence) pairs primed=%d", len(prime)))
			}
		}
		prs := make([]string, len(prime))
		inprog := 0 // the total of the message the prime leaves in progress (its last well-numbered segment)
		for i, pr := range prime {
			prs[i] = fmt.Sprintf("(%d, %d)", pr[0], pr[1])
			if pr[1] >= 1 && pr[1] <= pr[0] && pr[0] > 1 {
				inprog = pr[0]
			}
		}
		if r.Quick && pi != 0 && pi != 1+int(r.Seed)%4 && nPanic == 0 {
			continue // quick tier: the empty prime and one of the four others (rotating with the seed) are model cases; all five are run on the code
		}
		r.Case(fmt.Sprintf("all 65536 (total,sequence) pairs after %v: %d deliver, %d panic", prime, len(exc)-nPanic, nPanic),
			fmt.Sprintf("chk_pairs %s %d %s", coqList(prs), inprog, coqList(exc)))
	}

	// ---- 5. histories mixing totals under one key
	n := r.N(300, 6000)
	for i := 0; i < n; i++ {
		var table []segVal
		k := 1 + r.Rng.Intn(2)
		addrs := []pdu.Address{a, {TON: 1, NPI: 1, No: "12"}}
		for j := 0; j < 2+r.Rng.Intn(10); j++ {
			t := r.Rng.Pick([]int{0, 1, 2, 2, 3, 3, 4, 255, r.Rng.Intn(256)})
			s := r.Rng.Pick([]int{0, 1, 1, 2, 2, 3, 4, 255, t, t + 1, r.Rng.Intn(256)})
			form := ie0
			if r.Rng.Intn(4) == 0 {
				form = ie8
			}
			table = append(table, segVal{a, addrs[r.Rng.Intn(k)], form(7, t, s)})
		}
		if r.Rng.Intn(3) == 0 {
			table = append(table, segVal{a, a, map[byte][]byte{0: r.Rng.Bytes(r.Rng.Intn(4))}}, segVal{a, a, nil})
		}
		hist := make([]int, 3+r.Rng.Intn(14))
		for j := range hist {
			hist[j] = r.Rng.Intn(len(table))
		}
		obs := c10One(r, table, tableKey(table), hist, "histories mixing totals under one key", nil, true)
		if obs.PanicAt >= 0 {
			r.Fail(hangClass(obs, "combiner-panic/mixed-totals"), "the combiner panicked or did not return on a history mixing totals under one key", histInput(table, hist), obs.PanicMsg, "segments are stored or ignored")
		}
	}

	// ---- 5'. long runs of ignored segments on one combiner (c11_hist.go)
	c11Ignored(r)

	// ---- 6. the malformed-frame stream
	var delivered []*pdu.DeliverSM
	flush := func(bucket string) {
		for len(delivered) > 0 {
			k := len(delivered)
			if k > 40 {
				k = 40
			}
			c11History(r, delivered[:k], bucket)
			delivered = delivered[k:]
		}
	}
	// 6a. corpus: deliver_sm / submit_sm / data frames carrying the pre-repair witnesses
	for _, id := range []uint32{5, 4, 0x21} {
		t := typeByID(ts, id)
		for _, u := range []map[byte][]byte{{0: {}}, {0: {1}}, {0: {1, 2}}, {8: {}}, {8: {1}}, {8: {1, 2}}, {8: {1, 2, 3}}, {0: {7, 2, 0}}, {0: {7, 2, 3}}, {0: {7, 2, 1}}, {0: {7, 3, 3}}, {0: {7, 0, 0}}, {8: {0, 7, 2, 2}}} {
			p := reflect.New(t.T).Interface()
			pv := reflect.ValueOf(p).Elem()
			pv.FieldByName("ESMClass").Set(reflect.ValueOf(pdu.ESMClass{UDHIndicator: true}))
			pv.FieldByName("Message").Set(reflect.ValueOf(pdu.ShortMessage{UDHeader: u, Message: []byte("x")}))
			pdu.WriteSequence(p, 7)
			var buf bytes.Buffer
			if _, err := pdu.Marshal(&buf, p); err == nil {
				c11Frame(r, buf.Bytes(), "corpus", true, &delivered)
			}
		}
	}
	flush("combiner on decoded deliver_sm (corpus)")
	{ // query_sm_resp with every message_state octet
		t := typeByID(ts, 0x80000003)
		for b := 0; b < 256; b++ {
			p := reflect.New(t.T).Interface()
			reflect.ValueOf(p).Elem().FieldByName("MessageState").SetUint(uint64(b))
			pdu.WriteSequence(p, 1)
			var buf bytes.Buffer
			if _, err := pdu.Marshal(&buf, p); err == nil {
				c11Frame(r, buf.Bytes(), "query_sm_resp message_state", b%16 == 10, nil)
			}
		}
	}
	// 6a'. every type with address fields: the values around Address.String's special case (TON 1, NPI 1, number "" / "+" / "+1" / "1")
	{
		edge := []pdu.Address{{TON: 1, NPI: 1, No: ""}, {TON: 1, NPI: 1, No: "+"}, {TON: 1, NPI: 1, No: "+1"}, {TON: 1, NPI: 1, No: "1"},
			{TON: 0, NPI: 1, No: ""}, {TON: 1, NPI: 0, No: ""}, {TON: 0, NPI: 0, No: "1"}}
		for _, t := range ts {
			for k := 0; k < len(edge); k++ {
				p := genPDU(r.Rng, t, modeDomain)
				pv := reflect.ValueOf(p).Elem()
				touched := false
				for i := 0; i < pv.NumField(); i++ {
					switch pv.Field(i).Interface().(type) {
					case pdu.Address:
						pv.Field(i).Set(reflect.ValueOf(edge[(k+i)%len(edge)]))
						touched = true
					case pdu.DestinationAddresses:
						pv.Field(i).Set(reflect.ValueOf(pdu.DestinationAddresses{Addresses: append([]pdu.Address(nil), edge[k:]...), DistributionList: []string{"", "x"}}))
						touched = true
					case pdu.UnsuccessfulRecords:
						var u pdu.UnsuccessfulRecords
						for _, a := range edge[k:] {
							u = append(u, pdu.UnsuccessfulRecord{DestAddr: a, ErrorStatusCode: pdu.CommandStatus(k)})
						}
						pv.Field(i).Set(reflect.ValueOf(u))
						touched = true
					}
				}
				if !touched {
					break
				}
				pdu.WriteSequence(p, int32(k+1))
				var buf bytes.Buffer
				if _, err := pdu.Marshal(&buf, p); err == nil {
					c11Frame(r, buf.Bytes(), "address edge values", true, &delivered)
				}
			}
		}
	}
	flush("combiner on decoded deliver_sm (address edge values)")
	// 6b. every registered id: arbitrary body octets behind a valid header
	perType := r.N(48, 700)
	for _, t := range ts {
		for i := 0; i < perType; i++ {
			var body []byte
			switch i % 6 {
			case 0:
				body = r.Rng.Bytes(r.Rng.Pick([]int{0, 1, 2, 5, 17, 40, 80, 300}))
			case 1:
				body = bytes.Repeat([]byte{byte(r.Rng.Pick([]int{0, 0, 1, 2, 0x40, 0xFF}))}, r.Rng.Intn(60))
			case 2: // NUL-terminated fields then noise: gets past the C-strings
				body = append(bytes.Repeat([]byte{0}, r.Rng.Intn(12)), r.Rng.Bytes(r.Rng.Intn(40))...)
			default: // a valid body, mutated
				p := genPDU(r.Rng, t, modeDomain)
				var buf bytes.Buffer
				if _, err := pdu.Marshal(&buf, p); err == nil && buf.Len() >= 16 {
					body = mutate(r.Rng, buf.Bytes()[16:])
					if i%6 == 3 {
						body = buf.Bytes()[16:] // unmutated: a decodable value of every type
					}
				}
			}
			status := uint32(0)
			if r.Rng.Intn(12) == 0 {
				status = uint32(r.Rng.Pick([]int{1, 8, 0xFF, 0x400}))
			}
			seq := int32(r.Rng.Pick([]int{0, 1, -1, 0x7FFFFFFF, -0x80000000, r.Rng.Intn(1000)}))
			c11Frame(r, rawFrameOf(t.ID, status, seq, body), "stream/"+t.Name, i%4 == 0, &delivered)
		}
	}
	flush("combiner on decoded deliver_sm (stream)")
	// 6c. deliver_sm with UDHI and hostile UDH content, as a stream of one connection
	{
		t := typeByID(ts, 5)
		for i := 0; i < r.N(300, 4000); i++ {
			p := genPDU(r.Rng, t, modeDomain).(*pdu.DeliverSM)
			p.ESMClass.UDHIndicator = true
			p.SourceAddr = pdu.Address{TON: 1, NPI: 1, No: r.Rng.pickStr([]string{"1", "12", "100"})}
			p.DestAddr = pdu.Address{TON: 1, NPI: 1, No: r.Rng.pickStr([]string{"1", "12", "2"})}
			u := map[byte][]byte{}
			iei := byte(r.Rng.Pick([]int{0, 0, 0, 8, 8, 5}))
			switch r.Rng.Intn(5) {
			case 0:
				u[iei] = r.Rng.Bytes(r.Rng.Intn(7))
			case 1:
				u[0] = []byte{byte(r.Rng.Pick([]int{3, 23})), byte(r.Rng.Intn(4)), byte(r.Rng.Intn(5))}
			case 2:
				u[8] = []byte{0, byte(r.Rng.Pick([]int{3, 23})), byte(r.Rng.Intn(4)), byte(r.Rng.Intn(5))}
			case 3:
				u[0] = []byte{3, byte(r.Rng.Pick([]int{0, 1, 2, 255})), byte(r.Rng.Pick([]int{0, 1, 2, 3, 255}))}
				if r.Rng.Bool() {
					u[8] = r.Rng.Bytes(r.Rng.Intn(6))
				}
			case 4:
				u[0] = []byte{3, 2, byte(1 + r.Rng.Intn(2))}
			}
			p.Message = pdu.ShortMessage{DataCoding: coding.DataCoding(r.Rng.Pick([]int{0, 1, 3, 8, 4, 0xF5, int(r.Rng.Byte())})), UDHeader: u, Message: r.Rng.Bytes(r.Rng.Intn(20))}
			p.Tags = nil
			pdu.WriteSequence(p, int32(1+i))
			var buf bytes.Buffer
			if _, err := pdu.Marshal(&buf, p); err != nil {
				continue
			}
			frame := buf.Bytes()
			if r.Rng.Intn(5) == 0 {
				frame = append(frame[:16:16], mutate(r.Rng, frame[16:])...)
				binary.BigEndian.PutUint32(frame[0:], uint32(len(frame)))
			}
			c11Frame(r, frame, "stream/deliver_sm with UDH", i%3 == 0, &delivered)
		}
	}
	flush("combiner on decoded deliver_sm (UDH stream)")
	r.Sample(map[string]interface{}{"stream": "valid 16-octet header of each registered command_id + arbitrary body; every PDU ReadPDU yields goes through all accessors",
		"types": len(ts)})
	spreadHeavy(r, func(e string) bool {
		return strings.HasPrefix(e, "chk_pairs ") || (strings.HasPrefix(e, "chk_ignored ") && strings.Contains(e, "000%nat"))
	})
}

func seqInts(lo, hi int) []int {
	var xs []int
	for i := lo; i < hi; i++ {
		xs = append(xs, i)
	}
	return xs
}

func typeByID(ts []pduType, id uint32) pduType {
	for _, t := range ts {
		if t.ID == id {
			return t
		}
	}
	panic(fmt.Sprintf("command_id %08x is not registered", id))
}

func (r *Rng) pickStr(xs []string) string { return xs[r.Intn(len(xs))] }
