package main

// C11, round 7: ShortMessage.Parse on decoded short messages whose TEXT has
// multi-octet UTF-8 characters at every offset relative to the end of the
// decoder's output buffer.  A decoder that writes into a destination sized by
// an estimate (octets per character of the common case) fails only when a wider
// character lands in the last few octets of that buffer — which depends on the
// length of the message and on the width of everything before it.  So, for
// every coding with a decoder: texts built from a narrow, a medium and the
// widest character of the repertoire, of EVERY length the short message can
// have, with the widest character at each of the last four positions (and
// alone, doubled, everywhere) — encoded by the library's own encoder, then
// parsed.  GSM 7-bit: a (1 octet), Δ / Ω / é (2), € (3 octets, two septets),
// 1..160 septets.

import (
	"encoding/hex"
	"fmt"
	"strings"

	"github.com/M2MGateway/go-smpp/coding"
	"github.com/M2MGateway/go-smpp/pdu"
)

type wideSpec struct {
	dc      coding.DataCoding
	fillers []string // narrow and medium characters (one character each)
	wide    []string // the widest characters of the repertoire (UTF-8 octets), one character each
	units   int      // message size limit in the coding's units (septets / octets)
	unitsOf func(s string) int
}

func wideSpecs() []wideSpec {
	oct := func(enc coding.DataCoding) func(string) int {
		return func(s string) int {
			b, err := enc.Encoding().NewEncoder().Bytes([]byte(s))
			if err != nil {
				return 1 << 20
			}
			return len(b)
		}
	}
	septets := func(s string) int {
		n := 0
		for _, r := range s {
			if strings.ContainsRune("{}[]~^|€\\\f", r) {
				n += 2
			} else {
				n++
			}
		}
		return n
	}
	return []wideSpec{
		{coding.GSM7BitCoding, []string{"a", "Δ", "Ω", "é", "@", "{"}, []string{"€"}, 160, septets},
		{coding.DataCoding(0xF0), []string{"a", "Δ"}, []string{"€"}, 160, septets},
		{coding.UCS2Coding, []string{"a", "é", "日"}, []string{"😀", "𝄞", "日"}, 140, oct(coding.UCS2Coding)},
		{coding.Latin1Coding, []string{"a"}, []string{"é", "ÿ"}, 140, oct(coding.Latin1Coding)},
		{coding.ASCIICoding, []string{"a"}, []string{"é"}, 140, oct(coding.ASCIICoding)},
		{coding.CyrillicCoding, []string{"a"}, []string{"я", "№"}, 140, oct(coding.CyrillicCoding)},
		{coding.HebrewCoding, []string{"a"}, []string{"א", "‗"}, 140, oct(coding.HebrewCoding)},
		{coding.ShiftJISCoding, []string{"a", "ｱ"}, []string{"日", "ｱ"}, 140, oct(coding.ShiftJISCoding)},
		{coding.EUCKRCoding, []string{"a"}, []string{"한", "日"}, 140, oct(coding.EUCKRCoding)},
		{coding.EUCJPCoding, []string{"a", "ｱ"}, []string{"日", "丂"}, 140, oct(coding.EUCJPCoding)},
		{coding.ISO2022JPCoding, []string{"a"}, []string{"日"}, 140, oct(coding.ISO2022JPCoding)},
	}
}

func c11ParseWide(r *Run) {
	nCase := 0
	for _, sp := range wideSpecs() {
		enc := sp.dc.Encoding()
		if enc == nil {
			continue
		}
		parseOne := func(text string) {
			msg, err := enc.NewEncoder().Bytes([]byte(text))
			if err != nil || len(msg) == 0 || len(msg) > 255 {
				return
			}
			m := pdu.ShortMessage{DataCoding: sp.dc, Message: msg}
			var perr error
			hung, panicked, pm := callWatch(func() { _, perr = m.Parse() })
			in := fmt.Sprintf("parse %d %s", byte(sp.dc), hex.EncodeToString(msg))
			r.Count(in, true, fmt.Sprintf("Parse, widest characters at the end/data_coding=%d", byte(sp.dc)))
			switch {
			case hung:
				r.Fail(fmt.Sprintf("parse-never-returns/data_coding=%d", byte(sp.dc)), "ShortMessage.Parse did not return", in, pm, "returns a text or an error")
			case panicked:
				r.Fail(fmt.Sprintf("parse-panic/data_coding=%d", byte(sp.dc)), "ShortMessage.Parse panicked on a message whose text ends in a wide character ("+fmt.Sprintf("%d characters, %q at the end", len([]rune(text)), lastRunes(text, 4))+")",
					in, pm, "returns a text or an error")
			}
			nCase++
			if isGSM7(sp.dc) && (panicked || nCase%24 == 0) && !hung {
				cls := 0
				if panicked {
					cls = 2
				} else if perr != nil {
					cls = 1
				}
				r.Case(in, fmt.Sprintf("chk_parse_gsm7 %d %s %d", byte(sp.dc), coqHex(msg), cls))
			}
		}
		for _, f := range sp.fillers {
			fu := sp.unitsOf(f)
			for _, w := range sp.wide {
				wu := sp.unitsOf(w)
				if fu <= 0 || wu <= 0 || fu > 1000 || wu > 1000 {
					continue
				}
				for n := 0; ; n++ { // n fillers in all
					if n*fu+wu > sp.units {
						break
					}
					// the wide character at each of the last four positions (k fillers behind it), and twice at the end
					for k := 0; k <= 3 && k <= n; k++ {
						parseOne(strings.Repeat(f, n-k) + w + strings.Repeat(f, k))
					}
					if n*fu+2*wu <= sp.units {
						parseOne(strings.Repeat(f, n) + w + w)
					}
					if stallsExhausted() {
						return
					}
				}
			}
		}
		// the wide character everywhere
		for _, w := range sp.wide {
			for n := 1; n*sp.unitsOf(w) <= sp.units; n++ {
				parseOne(strings.Repeat(w, n))
			}
		}
	}
	r.Sample(map[string]interface{}{"accessor": "ShortMessage.Parse", "what": "texts of every length ending in the widest characters of the coding",
		"gsm7": "a / Δ Ω é / € (1, 2, 3 octets of UTF-8), 1..160 septets, € at each of the last four positions", "required": "a text or an error"})
}

func lastRunes(s string, n int) string {
	rs := []rune(s)
	if len(rs) > n {
		rs = rs[len(rs)-n:]
	}
	return string(rs)
}
