package main

// C16 — unsolicited PDUs are delivered once and in order; bad PDUs are NACKed, not fatal.

import (
	"encoding/binary"
	"fmt"
	"io"
	"os"
	"strings"

	"github.com/M2MGateway/go-smpp/pdu"
)

func init() { corrTable["C16"] = func(r *Run) { connInChild(r, corrC16) } }

func corrC16(r *Run) {
	r.Import("Model.ConnRun")
	r.PerShard(10)
	r.Rule = "inbound histories of 3..14 frames mixing unsolicited PDUs of every registered type, responses to 0..3 outstanding Submit calls (Write held or returned), " +
		"repeated responses, PDUs reusing the sequence number of a Submit that gave up through its own context or whose request was refused (Marshal error at each stage, failing transport Write), undecodable bodies behind an intact header " +
		"(positive and non-positive sequence numbers), frames over 4096 octets of which only a prefix is decoded (undecodable; non-zero status with a body), ended by nothing / EOF / a fatal frame; " +
		"frames made readable singly or several at once, each in one of six fragmentation classes or split over two forced events; " +
		"fast (always receiving) and slow (receiving on grant) consumer; non-trivial = history with at least one undecodable frame followed by a deliverable PDU; distinct by event list"
	ts := pduTypes()
	n := r.N(240, 2400)
	for i := 0; i < n; i++ {
		i := i
		confirmed(r, func() { c16Scenario(r, ts, i) })
	}
}

type c16Pending struct {
	frames [][]byte
	cuts   [][]int
	nack   bool // a frame of the batch is answered by generic_nack
}

func c16Scenario(r *Run, ts []pduType, idx int) {
	rng := r.Rng
	auto := rng.Intn(3) != 0
	w := NewWorld(auto)
	defer w.Shutdown()
	w.StartWatch()
	seq := int32(100 + rng.Intn(5000))
	fresh := func() int32 { seq += int32(1 + rng.Intn(4)); return seq }

	var reqs []*Call
	for g, n := 0, rng.Intn(4); g < n; g++ {
		c := w.Go(g, CallSpec{Kind: "submit", Seq: fresh(), P: genSendable(rng, ts, true, 800)})[0]
		reqs = append(reqs, c)
		if rng.Bool() {
			w.Release(c)
		}
	}
	answered := map[int]bool{}
	cancelled := map[int]bool{}
	var wantApp []Delivery
	var wantNack []int32
	badThenGood := false
	sawBad := false
	hist := map[string]int{}
	var batch c16Pending
	grants := func() {
		for !auto && w.Stuck == "" && w.watchSending() && rng.Intn(4) != 0 {
			w.AppGrant()
		}
	}
	releaseAll := func() {
		for again := true; again && w.Stuck == ""; {
			again = false
			for _, c := range reqs {
				if w.Held(c) {
					w.Release(c)
					again = true
				}
			}
		}
	}
	flush := func() {
		if len(batch.frames) == 0 {
			return
		}
		if batch.nack {
			// Watch answers with a generic_nack: whether that Write may overlap a caller's open Write or has to wait
			// for it (a write lock) is not decided by the property — no caller Write is open when it is due
			releaseAll()
		}
		if len(batch.frames) == 1 && len(batch.frames[0]) > 2 && rng.Intn(6) == 0 {
			// one frame split over two forced events: Watch waits inside the frame
			f := batch.frames[0]
			k := 1 + rng.Intn(len(f)-1)
			w.PeerSplit(f, k)
			hist["frag/split-over-two-events"]++
		} else {
			w.Peer(batch.frames, batch.cuts)
		}
		batch = c16Pending{}
		grants()
	}
	dead := false // a frame ended the connection
	n := 3 + rng.Intn(12)
	for i := 0; i < n && w.Stuck == "" && !dead; i++ {
		var f []byte
		k := rng.Intn(15)
		if idx%8 == 4 && i <= 1 {
			k = 13
		} else if idx%8 == 5 && i <= 1 {
			k = 14
		} else if idx%8 == 1 && i == 0 {
			k = 7
		} else if idx%8 == 2 && i == 0 {
			k = 8
		} else if idx%8 == 3 && i <= 1 {
			k = 12
		}
		switch {
		case k < 4:
			f = genUnsolicited(rng, ts, fresh())
			_, id, s := classifyFrame(f)
			wantApp = append(wantApp, Delivery{id, s})
			hist["item/unsolicited"]++
			if sawBad {
				badThenGood = true
			}
		case k < 6:
			var open []*Call
			for _, c := range reqs {
				if !answered[c.ID] && w.Written(c) { // the peer answers what has reached the transport
					open = append(open, c)
				}
			}
			if len(open) == 0 {
				continue
			}
			c := open[rng.Intn(len(open))]
			answered[c.ID] = true
			f = frameOf(respFor(c.P, c.Seq))
			if rng.Intn(3) == 0 { // a wire form of which the decoder consumes only a part
				f = oddFrame(rng, f, 1+rng.Intn(2))
				hist["item/response-partly-consumed"]++
			}
			hist["item/response"]++
		case k < 7:
			var done []*Call
			for _, c := range reqs {
				if answered[c.ID] {
					done = append(done, c)
				}
			}
			if len(done) == 0 {
				continue
			}
			// a repeated response: the request is no longer outstanding, so it is an ordinary unsolicited PDU.
			// Flush first: the model's schedule and the implementation agree only once the first response was dispatched.
			flush()
			c := done[rng.Intn(len(done))]
			f = frameOf(respFor(c.P, c.Seq))
			_, id, s := classifyFrame(f)
			wantApp = append(wantApp, Delivery{id, s})
			hist["item/repeated-response"]++
		case k < 8:
			// a Submit gives up through its own context; later the peer uses that sequence number for a PDU of
			// its own: no request is outstanding under it, so it is an ordinary unsolicited PDU
			var open []*Call
			for _, c := range reqs {
				if !answered[c.ID] {
					open = append(open, c)
				}
			}
			if len(open) == 0 {
				continue
			}
			flush()
			c := open[rng.Intn(len(open))]
			answered[c.ID], cancelled[c.ID] = true, true
			w.CancelCtx(c)
			if w.Held(c) {
				w.Release(c)
			}
			if !w.Returned(c) {
				// still on its way to the transport (behind another caller's open Write): it ends with an error once
				// it gets there; its number is not free yet
				continue
			}
			f = genUnsolicited(rng, ts, c.Seq)
			_, id, s := classifyFrame(f)
			wantApp = append(wantApp, Delivery{id, s})
			hist["item/sequence-of-a-cancelled-request-reused"]++
		case k < 9:
			// longer than the decoder's 4096-octet buffers, decoded only in part
			s := fresh()
			if rng.Bool() {
				f = genOversizeFrame(rng, s, true)
				batch.nack = true
				wantNack = append(wantNack, s)
				sawBad = true
				hist["item/undecodable-over-4096"]++
			} else {
				f = genOversizeFrame(rng, s, false)
				wantApp = append(wantApp, Delivery{5, s})
				hist["item/status-with-body-over-4096"]++
			}
		case k == 13:
			// an undecodable frame that carries the sequence number of a STILL OUTSTANDING request — half of them of the
			// response type paired with that request: it is answered by generic_nack like any other, nothing is delivered,
			// and the waiter is not handed what the decoder rejected: the Submit goes on waiting for its response
			var open []*Call
			for _, c := range reqs {
				if !answered[c.ID] && w.Written(c) && !w.Returned(c) {
					open = append(open, c)
				}
			}
			if len(open) == 0 {
				continue
			}
			c := open[rng.Intn(len(open))]
			if rng.Bool() {
				f = genBadFrameOfID(rng, idOfPDU(c.P)|0x80000000, c.Seq)
			}
			if f == nil {
				f = genBadFrame(rng, ts, c.Seq)
			}
			batch.nack = true
			wantNack = append(wantNack, c.Seq)
			sawBad = true
			hist["item/undecodable-with-the-number-of-an-outstanding-request"]++
		case k == 14:
			// the pdu engine's hostile frames: whatever they are to the decoder, Watch survives them
			s := fresh()
			var class string
			f, class = genHostileFrame(rng, ts, s)
			hist["item/hostile/"+class]++
			switch kind, id, q := classifyFrame(f); kind {
			case "pdu":
				wantApp = append(wantApp, Delivery{id, q})
				if sawBad {
					badThenGood = true
				}
			case "bad":
				batch.nack = true
				if q > 0 {
					wantNack = append(wantNack, q)
				}
				sawBad = true
			default:
				// a frame after which Watch cannot go on (or on which this tree's ReadPDU panics): the history ends with it
				dead = true
				if os.Getenv("VERIF_DEBUG_C16") != "" {
					fmt.Fprintf(os.Stderr, "c16 idx=%d hostile fatal: class=%s kind=%s len=%d %x\n", idx, class, kind, len(f), f[:min(len(f), 80)])
				}
			}
		case k == 12:
			// a Submit that ends WITHOUT ever having been sent — its PDU refused by Marshal at some stage, or the transport's
			// Write failing — leaves nothing behind: a PDU of the peer (request or response type) that carries its sequence
			// number is an ordinary unsolicited PDU
			flush()
			s := fresh()
			sp := CallSpec{Kind: "submit", Seq: s}
			how := "write-fails"
			if rng.Intn(3) == 0 {
				sp.P, sp.WriteFails = genSendable(rng, ts, true, 600), true
			} else {
				how = refusedStages[rng.Intn(len(refusedStages))]
				sp.P = genRefused(rng, how)
				if expectedFrame(sp.P, s) != nil {
					continue // (this tree accepts it)
				}
			}
			releaseAll() // (it may have to wait for the transport behind an open Write)
			c := w.Go(50+i, sp)[0]
			if !w.Returned(c) || c.Err == nil {
				r.Fail("dispatch/refused-request", "a Submit whose request cannot be sent did not return an error", "sched "+w.Script(), c.Class(), "err")
				continue
			}
			f = genUnsolicited(rng, ts, s)
			_, id, q := classifyFrame(f)
			wantApp = append(wantApp, Delivery{id, q})
			hist["item/sequence-of-a-refused-request-reused/"+how]++
			if sawBad {
				badThenGood = true
			}
		default:
			s := fresh()
			if rng.Intn(5) == 0 {
				s = badSeq(rng)
			}
			f = genBadFrame(rng, ts, s)
			batch.nack = true
			if s > 0 {
				wantNack = append(wantNack, s)
			}
			sawBad = true
			hist["item/undecodable"]++
		}
		c := genCuts(rng, len(f))
		hist["frag/"+cutsClass(c, len(f))]++
		batch.frames = append(batch.frames, f)
		batch.cuts = append(batch.cuts, c)
		if rng.Intn(3) != 0 {
			flush()
		}
		if rng.Intn(5) == 0 {
			for _, c := range reqs {
				if w.Held(c) {
					w.Release(c)
					break
				}
			}
		}
	}
	flush()
	releaseAll() // (a call may reach the transport only once another's Write has returned)
	for i := 0; !auto && i < 64 && w.Stuck == "" && w.watchSending(); i++ {
		w.AppGrant()
	}
	// the connection is still alive: one more PDU is delivered
	probe := genUnsolicited(rng, ts, fresh())
	if !dead {
		_, id, s := classifyFrame(probe)
		wantApp = append(wantApp, Delivery{id, s})
		w.Peer([][]byte{probe}, nil)
		if !auto && w.Stuck == "" && w.watchSending() {
			w.AppGrant()
		}
	}
	end := rng.Intn(4)
	if dead {
		end = 9
	}
	switch end {
	case 9:
		end = 2 // the hostile frame was the fatal one
		hist["end/hostile-frame"]++
	case 1:
		w.PeerEnd(io.EOF)
		hist["end/eof"]++
	case 2:
		w.Peer([][]byte{genFatalFrame(rng, fresh())}, nil)
		hist["end/fatal-frame"]++
	default:
		end = 0
		hist["end/open"]++
	}
	input := "sched " + w.Script()
	r.Count(input, badThenGood, "")
	for k, v := range hist {
		r.Hist[k] += v
	}
	if idx < 2 {
		r.Sample(map[string]interface{}{"consumer": map[bool]string{true: "fast", false: "slow"}[auto], "outstanding_requests": len(reqs),
			"expected_deliveries": len(wantApp), "expected_nacks": len(wantNack), "schedule": w.Script()[:min(len(w.Script()), 500)]})
	}
	if runStuck(r, w, input) {
		return
	}
	for _, p := range w.Panics() {
		r.Fail("panic", "a library goroutine panicked", input, p, "no panic")
	}
	if w.watchPanic != "" {
		last := ""
		if g := w.groups; len(g) > 0 {
			last = strings.Join(g[len(g)-1], "; ")
		}
		r.Fail("watch-died", "Watch died of a panic while reading an inbound frame", "inbound frame(s) "+head(last, 1200)+" in "+head(input, 1500), w.watchPanic,
			"whatever octets arrive, Watch delivers, answers with generic_nack or returns")
	}
	// deliveries: exactly the expected PDUs, once, in arrival order
	got := w.App()
	same := len(got) == len(wantApp)
	for i := 0; same && i < len(got); i++ {
		same = got[i] == wantApp[i]
	}
	if !same {
		r.Fail("dispatch/deliveries", "PDU() did not yield exactly the PDUs without an outstanding request, once each, in arrival order", input,
			fmtDeliveries(got), fmtDeliveries(wantApp))
	}
	// generic_nack for every undecodable frame with a positive sequence number
	var gotNack []int32
	for _, wr := range w.T.Writes() {
		if wr.ByReader {
			if !wr.Full || wr.ID != idGenericNack || binary.BigEndian.Uint32(wr.Data[8:12]) == 0 {
				r.Fail("nack/malformed", "Watch wrote something that is not a generic_nack with a non-zero status", input,
					fmt.Sprintf("%x", wr.Data[:min(len(wr.Data), 32)]), "generic_nack, status != 0")
			}
			gotNack = append(gotNack, wr.Seq)
		}
	}
	same = len(gotNack) == len(wantNack)
	for i := 0; same && i < len(gotNack); i++ {
		same = gotNack[i] == wantNack[i]
	}
	if !same {
		r.Fail("nack/sequence", "undecodable frames were not answered by generic_nack with their sequence numbers", input,
			fmt.Sprint(gotNack), fmt.Sprint(wantNack))
	}
	for _, c := range reqs {
		switch {
		case cancelled[c.ID]:
			if !(w.Returned(c) && c.Err != nil) {
				r.Fail("dispatch/cancelled", "a Submit whose own context ended did not return an error", input, c.Class(), "err")
			}
		case answered[c.ID] && !(w.Returned(c) && c.Err == nil && pdu.ReadSequence(c.Resp) == c.Seq):
			r.Fail("dispatch/response", "an answered Submit did not return its response", input, c.Class(), fmt.Sprintf("ok with sequence %d", c.Seq))
		case !answered[c.ID] && end == 0 && w.Returned(c):
			r.Fail("dispatch/response", "an unanswered Submit returned", input, c.Class(), "blocked")
		}
	}
	if end == 0 && w.WatchReturned() {
		r.Fail("watch/ended", "Watch returned although the stream went on", input, "Watch returned", "Watch keeps reading")
	}
	if end != 0 && !w.WatchReturned() {
		r.Fail("watch/not-ended", "Watch did not return on EOF / a fatal frame", input, "Watch running", "Watch returns")
	}
	r.Case(fmt.Sprintf("sched#%d %.200s", idx, input), w.CaseExpr(connVariant))
}
