package main

// Watchdog for the C10/C11 direct tests: "returns normally" excludes not
// returning at all.  Every combiner history and every accessor sweep of one PDU
// runs on its own goroutine and reports progress (calls completed) through an
// atomic counter; the caller declares it hung when NO progress was made during
// a whole patience window (a correct call takes microseconds, so a busy machine
// cannot turn slowness into a finding: only a stall counts).  A hung goroutine
// cannot be stopped; it is abandoned together with the object it is stuck in
// (the process exit does not wait for it).  After the first confirmed stall the
// patience drops (the tree is known to be broken, the run must still finish),
// after maxStalls stalls the remaining histories are skipped.

import (
	"fmt"
	"sync/atomic"
	"time"
)

var (
	stallPatience      = 3 * time.Second
	stallPatienceAfter = 250 * time.Millisecond
	stallCount         int32
)

const maxStalls = 40

func stallsExhausted() bool { return atomic.LoadInt32(&stallCount) >= maxStalls }

// stallWatch runs f (which bumps *progress after every completed call) and waits for it.
// hung: no progress during a whole patience window; at = calls completed before the stuck one.
func stallWatch(progress *int64, f func()) (hung bool, at int64, waited time.Duration) {
	done := make(chan struct{})
	go func() {
		defer close(done)
		f()
	}()
	patience := stallPatience
	if atomic.LoadInt32(&stallCount) > 0 {
		patience = stallPatienceAfter
	}
	last := int64(-1)
	start := time.Now()
	for {
		t := time.NewTimer(patience)
		select {
		case <-done:
			t.Stop()
			return false, atomic.LoadInt64(progress), time.Since(start)
		case <-t.C:
			cur := atomic.LoadInt64(progress)
			if cur == last {
				atomic.AddInt32(&stallCount, 1)
				return true, cur, time.Since(start)
			}
			last = cur
		}
	}
}

// callWatch: one call under the watchdog (and under recover()).
func callWatch(f func()) (hung, panicked bool, msg string) {
	var progress int64
	var p bool
	var m string
	h, _, waited := stallWatch(&progress, func() { p, m = guard(f) })
	if h {
		return true, false, fmt.Sprintf("the call had not returned after %v", waited.Round(100*time.Millisecond))
	}
	return false, p, m
}
