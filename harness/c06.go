package main

// C06 — documented concurrent use of Conn is free of data races.
//
// Static side (c06_extract.go -> Gen/ConnLocks.v): for every README role the
// control-flow graph of lock operations and accesses to ANY part of the state
// of Conn; two accesses to the same non-synchronisation location, at least one
// a write, by roles that can run in different goroutines, without a common
// mutex, are the failing input (the two sites, the two roles, the held sets).
// The theorems of Properties/C06.v are about any such table; the generated
// cases evaluate the Coq checker on the table of the current source.
// What the extraction cannot interpret is left to the dynamic side, with a note.
//
// Dynamic side (c06_dyn.go): the README roles under `go build -race`, one
// child process per configuration.
//
// Tie (c06_tie.go): the lock operations the table predicts are observed on
// the running code through the runtime's mutex-contention profile.

import (
	"fmt"
	"os"
	"sort"
	"strings"
)

const libPrefix = "github.com/M2MGateway/go-smpp"

func init() {
	corrTable["C06"] = corrC06
	if len(os.Args) > 1 && os.Args[1] == "raceload" {
		raceLoadMain()
		os.Exit(0)
	}
	if len(os.Args) > 1 && os.Args[1] == "c06tie" {
		tieChildMain(os.Args[2:])
		os.Exit(0)
	}
	if len(os.Args) > 1 && os.Args[1] == "c06static" { // debugging aid: the static verdict for $VERIF_REPO
		t := extractConnTable()
		fmt.Println("err:", t.Err, "notes:", t.Notes)
		fmt.Printf("%d locations, %d mutexes, %d nodes, %d entries\n", len(t.Locs), len(t.Mus), len(t.Nodes), len(t.Entries))
		for _, e := range t.Entries {
			if len(e.Bad) > 0 {
				fmt.Printf("NOT ANALYSED %s (readme=%v): %s\n", e.Name, e.Readme, strings.Join(e.Bad, " | "))
			}
		}
		for _, rd := range []bool{true, false} {
			for _, c := range t.conflicts(rd) {
				fmt.Printf("CONFLICT readme=%v %q: %s || %s\n", rd, t.Locs[c.Loc].Path, t.describe(c.N1), t.describe(c.N2))
			}
		}
		os.Exit(0)
	}
}

func corrC06(r *Run) {
	r.Import("Model.Base")
	r.Import("Model.LockTable")
	r.Import("Gen.ConnLocks")
	r.Rule = "static: per README role (Watch, EnquireLink, Submit, Send, Close, Done, PDU) the lock/access control-flow graph over every location of Conn's state, extracted from the current source; " +
		"one case per location (Coq verdict of the regenerated table) and random schedules of 2..6 threads over the table; " +
		"dynamic (go build -race, one child process per configuration): README workload with 1..16 submitting goroutines and default/5 s timeouts; senders running for a fixed time with " +
		"WriteTimeout/ReadTimeout 2 ms, 20 ms, 200 ms and default; keep-alive whose enquire_link is left unanswered with the application's Close coming from a timer; Close while senders run; " +
		"the peer dropping the transport; forced schedules of C05/C15/C16; response handed over exactly while the caller's own context ends; " +
		"non-trivial = workloads with at least two goroutines sending; distinct by workload label"
	c06Static(r)
	c06Tie(r)
	c06Dynamic(r)
}

func (t *lkTable) describe(n *lkNode) string {
	e := t.Entries[n.Entry]
	held := "no mutex held"
	if len(n.LS) > 0 {
		var hs []string
		for _, h := range n.LS {
			m := t.Mus[h.M].Path
			if !h.Excl {
				m += " (shared)"
			}
			hs = append(hs, m)
		}
		held = "holding " + strings.Join(hs, ", ")
	}
	what := map[string]string{"MRead": "read", "MWrite": "write", "MAtomicRead": "atomic read", "MAtomicWrite": "atomic write"}[n.Mode]
	many := "one goroutine"
	if e.Multi {
		many = "any number of goroutines"
	}
	return fmt.Sprintf("%s at %s, reached from %s (%s), %s", what, n.Site, e.Name, many, held)
}

func siteFunc(site string) string {
	if i := strings.LastIndex(site, " "); i >= 0 {
		return site[i+1:]
	}
	return site
}

func c06Static(r *Run) {
	t := extractConnTable()
	if t.Err != "" {
		r.Notes = append(r.Notes, "static extraction failed ("+t.Err+"): the verdict rests on the dynamic evidence alone")
		return
	}
	for _, n := range t.Notes {
		r.Notes = append(r.Notes, "static extraction: "+n)
	}
	for _, e := range t.badEntries(true) {
		r.Notes = append(r.Notes, fmt.Sprintf("static: role %s could not be analysed (%s): it is not in the Coq table; its accesses are covered by the dynamic evidence only", e.Name, strings.Join(e.Bad, " | ")))
	}
	// ---- direct: conflicting accesses without a common mutex between README roles
	confl := map[int][]lkConflict{}
	for _, c := range t.conflicts(true) {
		if len(t.Entries[c.N1.Entry].Bad)+len(t.Entries[c.N2.Entry].Bad) > 0 {
			continue // a role whose lock state could not be followed: no verdict from here
		}
		confl[c.Loc] = append(confl[c.Loc], c)
		l := t.Locs[c.Loc]
		f1, f2 := siteFunc(c.N1.Site), siteFunc(c.N2.Site)
		if f2 < f1 {
			f1, f2 = f2, f1
		}
		in := fmt.Sprintf("two goroutines on one Conn, state %q (%s): [1] %s; [2] %s", l.Path, l.Type, t.describe(c.N1), t.describe(c.N2))
		r.Fail("unsynchronised/"+f1+"+"+f2, "two README roles access the same connection state, at least one writing, with no common mutex held and the state is not a synchronisation object",
			in, "no common mutex: "+t.describe(c.N1)+" || "+t.describe(c.N2), "every pair of conflicting accesses by different goroutines is ordered by a common mutex (or the state is a channel/context/atomic/sync object)")
	}
	for _, c := range t.conflicts(false) {
		r.Notes = append(r.Notes, fmt.Sprintf("static (outside the README usage, not a verdict): state %q: %s || %s", t.Locs[c.Loc].Path, t.describe(c.N1), t.describe(c.N2)))
		if len(r.Notes) > 30 {
			break
		}
	}
	// ---- cases: the Coq checker on the regenerated table
	inTab := 0
	for _, e := range t.Entries {
		if t.inTable(e) {
			inTab++
			r.Count("entry/"+e.Name, true, "static/role-in-table")
		}
	}
	r.Case("the certificate of the regenerated table (held set at every node, edge by edge)", "table_wf conn_table")
	written := map[int]bool{}
	accessed := map[int]int{}
	for _, n := range t.Nodes {
		if n.Kind == "acc" && t.inTable(t.Entries[n.Entry]) {
			accessed[n.Loc]++
			if modeWrite(n.Mode) {
				written[n.Loc] = true
			}
		}
	}
	for _, l := range t.Locs {
		ok := true
		for _, c := range confl[l.ID] {
			if t.inTable(t.Entries[c.N1.Entry]) && t.inTable(t.Entries[c.N2.Entry]) {
				ok = false
			}
		}
		kind := "read-only after construction"
		switch {
		case l.Sync:
			kind = "synchronisation object"
		case !ok:
			kind = "UNRESOLVED"
		case written[l.ID]:
			kind = "written under a common mutex"
		}
		r.Count(fmt.Sprintf("location %s : %s", l.Path, l.Type), written[l.ID] || l.Sync, "static/location/"+kind)
		r.Case(fmt.Sprintf("location %s (%s, %d access nodes): %s", l.Path, l.Type, accessed[l.ID], kind),
			fmt.Sprintf("Bool.eqb (loc_sync conn_table %d || loc_ok conn_table %d) %s && Bool.eqb (loc_sync conn_table %d) %s", l.ID, l.ID, coqBool(ok), l.ID, coqBool(l.Sync)))
	}
	// ---- random schedules over the table, run by the model; at every state no two threads are at conflicting accesses of a resolved location
	var ids []int
	for _, e := range t.Entries {
		if t.inTable(e) {
			ids = append(ids, e.ID)
		}
	}
	sort.Ints(ids)
	if len(ids) > 0 {
		for i, n := 0, r.N(24, 120); i < n; i++ {
			nt := 2 + r.Rng.Intn(5)
			// roles: thread 0 may run every single-goroutine role, the others only the any-number roles
			var sched []string
			for k := 0; k < 300; k++ {
				sched = append(sched, fmt.Sprintf("(%d%%nat, %d)", r.Rng.Intn(nt), func() int {
					if r.Rng.Intn(3) == 0 {
						return ids[r.Rng.Intn(len(ids))]
					}
					return r.Rng.Intn(3)
				}()))
			}
			r.Count(fmt.Sprintf("schedule#%d threads=%d", i, nt), true, "static/random-schedule")
			r.Case(fmt.Sprintf("random schedule #%d, %d threads, 300 attempted steps over the regenerated table", i, nt),
				fmt.Sprintf("sched_check conn_table %s", coqList(sched)))
		}
	}
	r.Sample(map[string]interface{}{"locations": len(t.Locs), "mutexes": len(t.Mus), "nodes": len(t.Nodes), "roles_in_table": inTab, "entries_total": len(t.Entries)})
}

func permOf(r *Rng, n int) []int {
	p := make([]int, n)
	for i := range p {
		p[i] = i
	}
	for i := n - 1; i > 0; i-- {
		j := r.Intn(i + 1)
		p[i], p[j] = p[j], p[i]
	}
	return p
}
