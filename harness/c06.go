package main

// C06 — documented concurrent use of Conn is free of data races.
//
// Static side: the lock/map action sequence of every function of package smpp
// touching Conn.pending (gen_connlocks.go) must be well locked; the Coq
// theorems quantify over those routines (Gen/ConnLocks.v).
// Dynamic side: the -race build of this harness (.work/harness_race) runs the
// README workload and forced schedules of C05/C15/C16; a race report whose
// racing access is made by code of go-smpp, or a "concurrent map" abort of
// the runtime, is the failing input.

import (
	"fmt"
	"os"
	"strings"

	"github.com/M2MGateway/go-smpp/pdu"
)

const libPrefix = "github.com/M2MGateway/go-smpp"

func init() {
	corrTable["C06"] = corrC06
	if len(os.Args) > 1 && os.Args[1] == "raceload" {
		raceLoadMain()
		os.Exit(0)
	}
}

func corrC06(r *Run) {
	r.Import("Model.LockProto")
	r.Import("Model.ConnRun")
	r.Rule = "static: every function of package smpp that mentions Conn.pending, as a lock/map action sequence; " +
		"dynamic (go build -race): README workload (Watch, EnquireLink with 2 ms tick, 1..16 goroutines calling Submit and Send, a consumer of PDU() answering requests, " +
		"one caller whose own context times out about when its response arrives, a peer answering asynchronously and sending unsolicited deliver_sm, final Close) " +
		"with default and custom NextSequence, plus forced schedules of C05, C15 and C16 and schedules in which a response is handed over exactly while the caller's own context ends; " +
		"non-trivial = workloads with at least two submitting goroutines; distinct by workload label"
	// ---- static
	rs, err := connLockRoutines()
	if err != nil {
		fmt.Fprintln(os.Stderr, "cannot parse the root package:", err)
		os.Exit(2)
	}
	touched := false
	for _, rt := range rs {
		held, ok := false, true
		for _, a := range rt.Acts {
			switch {
			case a == "ALock":
				ok = ok && !held
				held = true
			case a == "AUnlock":
				ok = ok && held
				held = false
			default:
				touched = true
				ok = ok && held
			}
		}
		ok = ok && !held
		r.Count("routine/"+rt.Name, true, "static/routine")
		in := fmt.Sprintf("routine %s [%s]", rt.Name, strings.Join(rt.Acts, "; "))
		if !ok {
			r.Fail("lock-discipline/"+rt.Name, "a function of package smpp touches Conn.pending outside the mutex (or mis-nests Lock/Unlock)", in,
				"actions in source order: "+strings.Join(rt.Acts, "; "), "Lock; map accesses; Unlock")
		}
		r.Case(in, fmt.Sprintf("Bool.eqb (routine_ok [%s]) %s", strings.Join(rt.Acts, "; "), coqBool(ok)))
	}
	if !touched {
		r.Notes = append(r.Notes, "no function of package smpp mentions Conn.pending: the extraction found nothing (renamed field?)")
	}
	// ---- random interleavings of threads running the extracted routines, through the model's semantics
	if len(rs) > 0 {
		for i, n := 0, r.N(160, 900); i < n; i++ {
			c06Interleaving(r, rs, i)
		}
	}
	// ---- the LTS's pending-table events, expanded into their routines, obey the discipline
	ts := pduTypes()
	for i, n := 0, r.N(48, 300); i < n; i++ {
		c06LockTrace(r, ts, i)
	}
	// ---- dynamic
	c06Dynamic(r)
}

// c06LockTrace: a forced schedule (as in C05) whose model trace, with every
// pending-table event expanded into its lock routine, must pass trace_ok.
func c06LockTrace(r *Run, ts []pduType, idx int) {
	rng := r.Rng
	w := NewWorld(true)
	defer w.Shutdown()
	w.StartWatch()
	n := 1 + rng.Intn(5)
	var calls []*Call
	for i := 0; i < n; i++ {
		calls = append(calls, w.Go(i, CallSpec{Kind: "submit", Seq: int32(100 + 3*i + idx), P: genSendable(rng, ts, true, 400)})[0])
	}
	for _, i := range permOf(rng, n) {
		c := calls[i]
		switch rng.Intn(3) {
		case 0:
			w.PeerPDU(respFor(c.P, c.Seq))
			w.Release(c)
		case 1:
			w.Release(c)
			w.PeerPDU(respFor(c.P, c.Seq))
		default:
			w.Release(c)
			w.CancelCtx(c)
		}
	}
	w.PeerPDU(&pdu.DeliverSM{Header: pdu.Header{Sequence: 7}})
	input := "sched " + w.Script()
	r.Count(input, n >= 2, "static/lts-lock-trace")
	if runStuck(r, w, input) {
		return
	}
	gs := make([]string, len(w.groups))
	for i, g := range w.groups {
		gs[i] = coqList(g)
	}
	r.Case("lock trace of "+input[:min(len(input), 160)], fmt.Sprintf("lock_trace_ok fixed true %s", coqList(gs)))
}

// c06Interleaving: 2..6 threads, each running 1..4 of the routines found in the source, stepped in a
// random order that respects the mutex; the Go side computes the verdict of the same discipline.
func c06Interleaving(r *Run, rs []lockRoutine, idx int) {
	rng := r.Rng
	nt := 2 + rng.Intn(5)
	progs := make([][]string, nt)
	for t := range progs {
		for j, n := 0, 1+rng.Intn(4); j < n; j++ {
			progs[t] = append(progs[t], rs[rng.Intn(len(rs))].Acts...)
		}
	}
	pos := make([]int, nt)
	holder := -1
	ok, adjacent := true, false
	var sched []string
	lastMap, lastWrite := -1, false
	for {
		var ready []int
		for t := range progs {
			if pos[t] < len(progs[t]) && !(progs[t][pos[t]] == "ALock" && holder >= 0) {
				ready = append(ready, t)
			}
		}
		if len(ready) == 0 {
			break
		}
		t := ready[rng.Intn(len(ready))]
		a := progs[t][pos[t]]
		pos[t]++
		sched = append(sched, fmt.Sprintf("%d%%nat", t))
		switch a {
		case "ALock":
			holder = t
			lastMap = -1
		case "AUnlock":
			ok = ok && holder == t
			holder = -1
			lastMap = -1
		default:
			w := a == "AMap true"
			ok = ok && holder == t
			if lastMap >= 0 && lastMap != t && (w || lastWrite) {
				adjacent = true
			}
			lastMap, lastWrite = t, w
		}
	}
	var ps []string
	for _, p := range progs {
		ps = append(ps, "["+strings.Join(p, "; ")+"]")
	}
	in := fmt.Sprintf("interleave threads=%d sched=%s", nt, strings.Join(sched, ","))
	r.Count(in, true, "static/interleaving")
	r.Case(in[:min(len(in), 200)], fmt.Sprintf("Bool.eqb (lrun_ok %s %s) %s", coqList(ps), coqList(sched), coqBool(ok && !adjacent)))
}

func permOf(r *Rng, n int) []int {
	p := make([]int, n)
	for i := range p {
		p[i] = i
	}
	for i := n - 1; i > 0; i-- {
		j := r.Intn(i + 1)
		p[i], p[j] = p[j], p[i]
	}
	return p
}

