package main

// C06 — documented concurrent use of Conn is free of data races.
//
// Static side: the lock/map action sequence of every function of package smpp
// touching Conn.pending (gen_connlocks.go) must be well locked; the Coq
// theorems quantify over those routines (Gen/ConnLocks.v).
// Dynamic side: the -race build of this harness (.work/harness_race) runs the
// README workload and forced schedules of C05/C15/C16; a race report whose
// racing access is made by code of go-smpp, or a "concurrent map" abort of
// the runtime, is the failing input.

import (
	"bytes"
	"context"
	"encoding/json"
	"fmt"
	"net"
	"os"
	"os/exec"
	"path/filepath"
	"regexp"
	"strconv"
	"strings"
	"sync"
	"sync/atomic"
	"time"

	smpp "github.com/M2MGateway/go-smpp"
	"github.com/M2MGateway/go-smpp/pdu"
)

const libPrefix = "github.com/M2MGateway/go-smpp"

func init() {
	corrTable["C06"] = corrC06
	if len(os.Args) > 1 && os.Args[1] == "raceload" {
		raceLoadMain()
		os.Exit(0)
	}
}

type raceSummary struct {
	Workloads map[string]int `json:"workloads"`
	Submits   int            `json:"submits"`
	Sends     int            `json:"sends"`
	Inbound   int            `json:"unsolicited"`
	Pings     int            `json:"enquire_links"`
	Problems  []string       `json:"problems"`
	RaceBuild bool           `json:"race_build"`
}

func corrC06(r *Run) {
	r.Import("Model.LockProto")
	r.Import("Model.ConnRun")
	r.Rule = "static: every function of package smpp that mentions Conn.pending, as a lock/map action sequence; " +
		"dynamic (go build -race): README workload (Watch, EnquireLink with 2 ms tick, 1..16 goroutines calling Submit and Send, a consumer of PDU() answering requests, " +
		"one caller whose own context times out about when its response arrives, a peer answering asynchronously and sending unsolicited deliver_sm, final Close) " +
		"with default and custom NextSequence, plus forced schedules of C05, C15 and C16 and schedules in which a response is handed over exactly while the caller's own context ends; " +
		"non-trivial = workloads with at least two submitting goroutines; distinct by workload label"
	// ---- static
	rs, err := connLockRoutines()
	if err != nil {
		fmt.Fprintln(os.Stderr, "cannot parse the root package:", err)
		os.Exit(2)
	}
	touched := false
	for _, rt := range rs {
		held, ok := false, true
		for _, a := range rt.Acts {
			switch {
			case a == "ALock":
				ok = ok && !held
				held = true
			case a == "AUnlock":
				ok = ok && held
				held = false
			default:
				touched = true
				ok = ok && held
			}
		}
		ok = ok && !held
		r.Count("routine/"+rt.Name, true, "static/routine")
		in := fmt.Sprintf("routine %s [%s]", rt.Name, strings.Join(rt.Acts, "; "))
		if !ok {
			r.Fail("lock-discipline/"+rt.Name, "a function of package smpp touches Conn.pending outside the mutex (or mis-nests Lock/Unlock)", in,
				"actions in source order: "+strings.Join(rt.Acts, "; "), "Lock; map accesses; Unlock")
		}
		r.Case(in, fmt.Sprintf("Bool.eqb (routine_ok [%s]) %s", strings.Join(rt.Acts, "; "), coqBool(ok)))
	}
	if !touched {
		r.Notes = append(r.Notes, "no function of package smpp mentions Conn.pending: the extraction found nothing (renamed field?)")
	}
	// ---- random interleavings of threads running the extracted routines, through the model's semantics
	if len(rs) > 0 {
		for i, n := 0, r.N(160, 900); i < n; i++ {
			c06Interleaving(r, rs, i)
		}
	}
	// ---- the LTS's pending-table events, expanded into their routines, obey the discipline
	ts := pduTypes()
	for i, n := 0, r.N(48, 300); i < n; i++ {
		c06LockTrace(r, ts, i)
	}
	// ---- dynamic
	bin := filepath.Join(filepath.Dir(r.Dir), "harness_race")
	if _, err := os.Stat(bin); err != nil {
		fmt.Fprintln(os.Stderr, "race build of the harness not found:", bin)
		os.Exit(2)
	}
	logBase := filepath.Join(r.Dir, "racelog")
	old, _ := filepath.Glob(logBase + "*")
	for _, f := range old {
		_ = os.Remove(f)
	}
	cmd := exec.Command(bin, "raceload", r.Tier, strconv.FormatUint(r.Seed, 10), r.Dir)
	cmd.Env = append(os.Environ(), "GORACE=halt_on_error=0 exitcode=0 log_path="+logBase)
	var stdout, stderr bytes.Buffer
	cmd.Stdout, cmd.Stderr = &stdout, &stderr
	done := make(chan error, 1)
	if err := cmd.Start(); err != nil {
		fmt.Fprintln(os.Stderr, "cannot start the race build:", err)
		os.Exit(2)
	}
	go func() { done <- cmd.Wait() }()
	limit := 8 * time.Minute
	if r.Quick {
		limit = 150 * time.Second
	}
	var runErr error
	select {
	case runErr = <-done:
	case <-time.After(limit):
		_ = cmd.Process.Kill()
		runErr = fmt.Errorf("race workload exceeded %s", limit)
	}
	var sum raceSummary
	_ = json.Unmarshal(stdout.Bytes(), &sum)
	for k, v := range sum.Workloads {
		for i := 0; i < v; i++ {
			r.Count(fmt.Sprintf("%s#%d", k, i), !strings.Contains(k, "submitters=1/"), "dynamic/"+k)
		}
	}
	r.Sample(map[string]interface{}{"race_build": sum.RaceBuild, "submits": sum.Submits, "sends": sum.Sends, "unsolicited_pdus": sum.Inbound,
		"enquire_links": sum.Pings, "workloads": sum.Workloads})
	for _, p := range sum.Problems {
		r.Notes = append(r.Notes, "race workload: "+p)
	}
	if !sum.RaceBuild && runErr == nil {
		fmt.Fprintln(os.Stderr, "the race workload did not run in a -race build")
		os.Exit(2)
	}
	// runtime abort
	errText := stderr.String()
	if m := regexp.MustCompile(`fatal error: (concurrent map[^\n]*)`).FindStringSubmatch(errText); m != nil {
		r.Fail("runtime-fatal/concurrent-map-access", "the Go runtime aborted the workload: "+m[1], "raceload "+r.Tier+" seed "+fmt.Sprint(r.Seed),
			tail(head(errText, 5000), 2500), "no runtime fatal error")
	} else if runErr != nil {
		if strings.Contains(errText, "go-smpp.(*Conn)") {
			r.Fail("runtime-fatal/other", "the workload process died inside the library", "raceload "+r.Tier, tail(errText, 2500), "workload completes")
		} else {
			fmt.Fprintln(os.Stderr, "race workload failed:", runErr, "\n", tail(errText, 3000))
			os.Exit(2)
		}
	}
	// race reports
	logs, _ := filepath.Glob(logBase + "*")
	nRep, nLib := 0, 0
	for _, f := range logs {
		data, _ := os.ReadFile(f)
		for _, rep := range strings.Split(string(data), "==================") {
			if !strings.Contains(rep, "WARNING: DATA RACE") {
				continue
			}
			nRep++
			fn := raceLibraryAccess(rep)
			if fn == "" {
				continue
			}
			nLib++
			r.Fail("race/"+fn, "the race detector reports a data race with an access made by go-smpp code", "raceload "+r.Tier+" seed "+fmt.Sprint(r.Seed),
				strings.TrimSpace(head(rep, 3000)), "no report with a frame inside the library")
		}
	}
	if nRep > nLib {
		r.Notes = append(r.Notes, fmt.Sprintf("%d race reports without a racing access inside go-smpp (harness code): ignored for the verdict", nRep-nLib))
	}
}

var raceFrame = regexp.MustCompile(`(?m)^  (\S+)\(\)$`)

// raceLibraryAccess: the go-smpp function performing one of the two racing
// accesses (innermost frame that is not Go runtime/library code), or "".
func raceLibraryAccess(rep string) string {
	// the first two stacks of a report are the two accesses
	stacks := regexp.MustCompile(`(?m)^(?:Write|Read|Previous write|Previous read|Atomic write|Atomic read|Previous atomic write|Previous atomic read)[^\n]*:\n((?:  \S[^\n]*\n      [^\n]*\n)+)`).FindAllStringSubmatch(rep, -1)
	for _, st := range stacks {
		for _, m := range raceFrame.FindAllStringSubmatch(st[1], -1) {
			fn := m[1]
			if strings.HasPrefix(fn, "runtime.") || strings.HasPrefix(fn, "internal/") || strings.HasPrefix(fn, "sync.") ||
				strings.HasPrefix(fn, "sync/") || strings.HasPrefix(fn, "reflect.") {
				continue
			}
			if strings.HasPrefix(fn, libPrefix) {
				return strings.TrimPrefix(strings.TrimPrefix(fn, libPrefix), ".")
			}
			break // the access was made by other code
		}
	}
	return ""
}

// c06LockTrace: a forced schedule (as in C05) whose model trace, with every
// pending-table event expanded into its lock routine, must pass trace_ok.
func c06LockTrace(r *Run, ts []pduType, idx int) {
	rng := r.Rng
	w := NewWorld(true)
	defer w.Shutdown()
	w.StartWatch()
	n := 1 + rng.Intn(5)
	var calls []*Call
	for i := 0; i < n; i++ {
		calls = append(calls, w.Go(i, CallSpec{Kind: "submit", Seq: int32(100 + 3*i + idx), P: genSendable(rng, ts, true, 400)})[0])
	}
	for _, i := range permOf(rng, n) {
		c := calls[i]
		switch rng.Intn(3) {
		case 0:
			w.PeerPDU(respFor(c.P, c.Seq))
			w.Release(c)
		case 1:
			w.Release(c)
			w.PeerPDU(respFor(c.P, c.Seq))
		default:
			w.Release(c)
			w.CancelCtx(c)
		}
	}
	w.PeerPDU(&pdu.DeliverSM{Header: pdu.Header{Sequence: 7}})
	input := "sched " + w.Script()
	r.Count(input, n >= 2, "static/lts-lock-trace")
	if runStuck(r, w, input) {
		return
	}
	gs := make([]string, len(w.groups))
	for i, g := range w.groups {
		gs[i] = coqList(g)
	}
	r.Case("lock trace of "+input[:min(len(input), 160)], fmt.Sprintf("lock_trace_ok fixed true %s", coqList(gs)))
}

// c06Interleaving: 2..6 threads, each running 1..4 of the routines found in the source, stepped in a
// random order that respects the mutex; the Go side computes the verdict of the same discipline.
func c06Interleaving(r *Run, rs []lockRoutine, idx int) {
	rng := r.Rng
	nt := 2 + rng.Intn(5)
	progs := make([][]string, nt)
	for t := range progs {
		for j, n := 0, 1+rng.Intn(4); j < n; j++ {
			progs[t] = append(progs[t], rs[rng.Intn(len(rs))].Acts...)
		}
	}
	pos := make([]int, nt)
	holder := -1
	ok, adjacent := true, false
	var sched []string
	lastMap, lastWrite := -1, false
	for {
		var ready []int
		for t := range progs {
			if pos[t] < len(progs[t]) && !(progs[t][pos[t]] == "ALock" && holder >= 0) {
				ready = append(ready, t)
			}
		}
		if len(ready) == 0 {
			break
		}
		t := ready[rng.Intn(len(ready))]
		a := progs[t][pos[t]]
		pos[t]++
		sched = append(sched, fmt.Sprintf("%d%%nat", t))
		switch a {
		case "ALock":
			holder = t
			lastMap = -1
		case "AUnlock":
			ok = ok && holder == t
			holder = -1
			lastMap = -1
		default:
			w := a == "AMap true"
			ok = ok && holder == t
			if lastMap >= 0 && lastMap != t && (w || lastWrite) {
				adjacent = true
			}
			lastMap, lastWrite = t, w
		}
	}
	var ps []string
	for _, p := range progs {
		ps = append(ps, "["+strings.Join(p, "; ")+"]")
	}
	in := fmt.Sprintf("interleave threads=%d sched=%s", nt, strings.Join(sched, ","))
	r.Count(in, true, "static/interleaving")
	r.Case(in[:min(len(in), 200)], fmt.Sprintf("Bool.eqb (lrun_ok %s %s) %s", coqList(ps), coqList(sched), coqBool(ok && !adjacent)))
}

func permOf(r *Rng, n int) []int {
	p := make([]int, n)
	for i := range p {
		p[i] = i
	}
	for i := n - 1; i > 0; i-- {
		j := r.Intn(i + 1)
		p[i], p[j] = p[j], p[i]
	}
	return p
}

// ---------------------------------------------------------------- the -race child
func raceLoadMain() {
	tier := "quick"
	seed := uint64(1)
	dir := os.TempDir()
	if len(os.Args) > 2 {
		tier = os.Args[2]
	}
	if len(os.Args) > 3 {
		seed, _ = strconv.ParseUint(os.Args[3], 10, 64)
	}
	if len(os.Args) > 4 {
		dir = os.Args[4]
	}
	sum := raceSummary{Workloads: map[string]int{}, RaceBuild: raceEnabled}
	rng := &Rng{s: seed*0x9E3779B97F4A7C15 + 77}
	ks := []int{1, 2, 4, 8, 16}
	rounds := 8
	per := 25
	if tier == "thorough" {
		rounds, per = 10, 60
	}
	for round := 0; round < rounds; round++ {
		for _, k := range ks {
			for _, custom := range []bool{false, true} {
				label := fmt.Sprintf("readme/submitters=%d/custom-sequence=%v", k, custom)
				if err := readmeWorkload(rng, k, per, custom, &sum); err != "" {
					sum.Problems = append(sum.Problems, label+": "+err)
				}
				sum.Workloads[label]++
			}
		}
	}
	// forced schedules under the race detector
	scratch := NewRun("C06race", tier, seed, filepath.Join(dir, "race_scratch"))
	ts := pduTypes()
	nf := 70
	if tier == "thorough" {
		nf = 120
	}
	for i := 0; i < nf; i++ {
		c05Scenario(scratch, ts, i, 8)
		c15Scenario(scratch, ts, i, c15Terms[i%len(c15Terms)])
		c16Scenario(scratch, ts, i)
	}
	c15Witnesses(scratch)
	// a response handed to the waiter while the request's own context ends: both branches of Submit's select are ready
	nr := 400
	if tier == "thorough" {
		nr = 800
	}
	for i := 0; i < nr; i++ {
		raceResponseVsContext(rng, ts, i)
	}
	sum.Workloads["forced/response-vs-own-context"] += nr
	sum.Workloads["forced/C05"] += nf
	sum.Workloads["forced/C15"] += nf
	sum.Workloads["forced/C16"] += nf
	for _, f := range scratch.Failures {
		sum.Problems = append(sum.Problems, "forced schedule under -race: "+f.Class+": "+head(f.Observed, 200))
	}
	out, _ := json.Marshal(sum)
	fmt.Println(string(out))
}

// raceResponseVsContext: Watch hands the response to the waiter while the caller is still inside its transport
// Write; the caller's own context ends; the Write returns: Submit's select finds its response and its context
// both ready (either outcome is fine — what matters here is that the two goroutines touch nothing unsynchronised).
// Variant: the context ends first and the response is taken while the caller leaves.
func raceResponseVsContext(rng *Rng, ts []pduType, idx int) {
	w := NewWorld(true)
	defer w.Shutdown()
	w.StartWatch()
	p := genSendable(rng, ts, true, 300)
	c := w.Go(0, CallSpec{Kind: "submit", Seq: int32(500 + idx), P: p})[0]
	if w.Stuck != "" {
		return
	}
	resp := frameOf(respFor(p, c.Seq))
	switch idx % 3 {
	case 0:
		w.T.Inject(resp, nil)
		w.quiesce()
		c.stop()
		w.Release(c)
	case 1:
		c.stop()
		w.T.Inject(resp, nil)
		w.quiesce()
		w.Release(c)
	default: // caller already in its select: cancel and response at the same moment
		w.Release(c)
		go c.stop()
		w.T.Inject(resp, nil)
	}
	w.WaitUntil(2*time.Second, func() bool { return w.Returned(c) })
}

// readmeWorkload: the usage the README prescribes, free-running, over an in-memory connection.
func readmeWorkload(rng *Rng, k, per int, customSeq bool, sum *raceSummary) string {
	cli, srv := net.Pipe()
	var peerWG sync.WaitGroup
	var wmu sync.Mutex
	send := func(p interface{}) {
		wmu.Lock()
		_, _ = pdu.Marshal(srv, p)
		wmu.Unlock()
	}
	stopPeer := make(chan struct{})
	var unsolicited, pings int32
	peerWG.Add(2)
	go func() { // reader: answers every request, asynchronously
		defer peerWG.Done()
		for {
			p, err := pdu.ReadPDU(srv)
			if err != nil && p == nil {
				return
			}
			if _, ok := p.(*pdu.EnquireLink); ok {
				atomic.AddInt32(&pings, 1)
			}
			if rq, ok := p.(pdu.Responsable); ok {
				resp := rq.Resp()
				peerWG.Add(1)
				go func() {
					defer peerWG.Done()
					send(resp)
				}()
			}
		}
	}()
	bound := make(chan struct{})
	go func() { // unsolicited traffic, once the session is bound
		defer peerWG.Done()
		seq := int32(1 << 20)
		select {
		case <-bound:
		case <-stopPeer:
			return
		}
		for {
			select {
			case <-stopPeer:
				return
			case <-time.After(150 * time.Microsecond):
			}
			seq++
			d := &pdu.DeliverSM{Header: pdu.Header{Sequence: seq}, SourceAddr: pdu.Address{No: "100"}, DestAddr: pdu.Address{No: "200"}}
			_ = d.Message.Compose("ping")
			send(d)
			atomic.AddInt32(&unsolicited, 1)
		}
	}()

	conn := smpp.NewConn(context.Background(), cli)
	conn.WriteTimeout = 5 * time.Second
	conn.ReadTimeout = 5 * time.Second
	if customSeq {
		var n int32
		conn.NextSequence = func() int32 { return atomic.AddInt32(&n, 1) }
	}
	var wg sync.WaitGroup
	wg.Add(1)
	go func() { defer wg.Done(); conn.Watch() }()
	problem := ""
	var pmu sync.Mutex
	note := func(s string) {
		pmu.Lock()
		if problem == "" {
			problem = s
		}
		pmu.Unlock()
	}
	if resp, err := conn.Submit(context.Background(), &pdu.BindTransceiver{SystemID: "id", Password: "pw", Version: pdu.SMPPVersion50}); err != nil {
		note("bind: " + err.Error())
	} else if _, ok := resp.(*pdu.BindTransceiverResp); !ok {
		note(fmt.Sprintf("bind answered by %T", resp))
	}
	close(bound)
	wg.Add(1)
	go func() { defer wg.Done(); conn.EnquireLink(2*time.Millisecond, time.Second) }()
	wg.Add(1)
	go func() { // the README's event loop (leaving when the connection is done)
		defer wg.Done()
		for {
			select {
			case <-conn.Done():
				return
			case packet, ok := <-conn.PDU():
				if !ok || packet == nil {
					return
				}
				if p, ok := packet.(pdu.Responsable); ok {
					_ = conn.Send(p.Resp())
				}
			}
		}
	}()
	var subWG sync.WaitGroup
	var submits, sends int32
	sendSeq := int32(1 << 28)
	for g := 0; g < k; g++ {
		subWG.Add(1)
		go func(g int) {
			defer subWG.Done()
			for i := 0; i < per; i++ {
				packet := &pdu.SubmitSM{SourceAddr: pdu.Address{TON: 1, NPI: 1, No: "00919821"}, DestAddr: pdu.Address{TON: 1, NPI: 1, No: "99919821"}}
				_ = packet.Message.Compose("Hello World!")
				resp, err := conn.Submit(context.Background(), packet)
				if err != nil {
					note("submit: " + err.Error())
					return
				}
				if pdu.ReadSequence(resp) != pdu.ReadSequence(packet) {
					note(fmt.Sprintf("submit got sequence %d for %d", pdu.ReadSequence(resp), pdu.ReadSequence(packet)))
				}
				atomic.AddInt32(&submits, 1)
				if i%5 == 4 {
					if err := conn.Send(&pdu.EnquireLink{Header: pdu.Header{Sequence: atomic.AddInt32(&sendSeq, 1)}}); err != nil {
						note("send: " + err.Error())
					}
					atomic.AddInt32(&sends, 1)
				}
			}
		}(g)
	}
	// an impatient caller: its own context ends about when the response arrives
	subWG.Add(1)
	go func() {
		defer subWG.Done()
		for i := 0; i < per; i++ {
			ctx, cancel := context.WithTimeout(context.Background(), time.Duration(20+i*7%180)*time.Microsecond)
			packet := &pdu.SubmitSM{SourceAddr: pdu.Address{No: "1"}, DestAddr: pdu.Address{No: "2"}}
			_ = packet.Message.Compose("hurry")
			_, _ = conn.Submit(ctx, packet) // deadline exceeded is an acceptable outcome
			cancel()
		}
	}()
	finished := make(chan struct{})
	go func() { subWG.Wait(); close(finished) }()
	select {
	case <-finished:
	case <-time.After(60 * time.Second):
		note("submitters did not finish within 60 s")
	}
	close(stopPeer)
	if err := conn.Close(); err != nil {
		note("close: " + err.Error())
	}
	all := make(chan struct{})
	go func() { wg.Wait(); close(all) }()
	select {
	case <-all:
	case <-time.After(10 * time.Second):
		note("Watch / EnquireLink / consumer did not return within 10 s of Close")
	}
	_ = srv.Close()
	_ = cli.Close()
	peerDone := make(chan struct{})
	go func() { peerWG.Wait(); close(peerDone) }()
	select {
	case <-peerDone:
	case <-time.After(5 * time.Second):
	}
	sum.Submits += int(submits)
	sum.Sends += int(sends)
	sum.Inbound += int(atomic.LoadInt32(&unsolicited))
	sum.Pings += int(atomic.LoadInt32(&pings))
	return problem
}
