package main

// Shared by the pdu engine's checks (C01 C02 C12 C13):
//
//  1. a small DETERMINISTIC corpus of "semantically loaded" field contents — E.164 number forms, date strings, service
//     types, passwords — put into every C-octet-string / address / destination / unsuccess-record position of every
//     registered type on every run, addresses over the whole TON 0..7 x NPI 0..15 grid.  Code that treats particular
//     contents specially (a leading "+" with TON=1/NPI=1, ...) is data-dependent: uniform octets reach it with
//     probability 2^-24 and less;
//  2. a reference encoder written here from the wire format (refEncode), so that frames carrying those contents do
//     not pass through the library's own encoders before the decoder sees them;
//  3. call HISTORIES: every way a Marshal can fail (a refusal by each field kind at each field position, a destination
//     that gives up after k octets) placed in front of / between Marshal calls whose results must not depend on it.

import (
	"bytes"
	"encoding/binary"
	"encoding/hex"
	"encoding/json"
	"fmt"
	"reflect"
	"sort"

	"github.com/M2MGateway/go-smpp/coding"
	"github.com/M2MGateway/go-smpp/pdu"
)

// ---------------------------------------------------------------- loaded contents
var loadedNumbers = []string{
	"+15417543010", "+861", "++1", "+", "+0", "+12345678901234567890", // international notation
	"0015417543010", "00", "0", "000000", "011", // prefixes, all zeros
	"", "1", "15417543010", "12345678901234567890", // plain
	"ALERT", "Info SMS", " 123", "12 34", "12-34", "*100#", "#", "a", "\xff\xfe", // alphanumeric senders, spaces, service codes, octets above 0x7F
}

var loadedStrings = append(append([]string(nil), loadedNumbers...),
	"250101000000000+", "991231235959948-", "000000010000000R", "000007000000000R", "2501010000", "250101000000000", // absolute / relative times, malformed ones
	"CMT", "CPT", "VMN", "VMA", "WAP", "USSD", "CBS", "GUTS", // service_type names of section 4.7.25
	"secret08", "password", "smppclient1", "SMPP", "\t", "a,b;c", "^1", "%", // credentials, system types, patterns
)

// the four number forms crossed with the whole TON x NPI grid
var gridNumbers = []string{"+15417543010", "0015417543010", "0", ""}

var npiGrid = []byte{0, 1, 2, 3, 4, 5, 6, 7, 8, 9, 10, 11, 12, 13, 14, 15, 18}

// loadedAddr: an address out of the loaded classes, for the random generators
func loadedAddr(r *Rng) pdu.Address {
	return pdu.Address{TON: byte(r.Pick([]int{1, 1, 0, 2, 5, r.Intn(8)})), NPI: byte(r.Pick([]int{1, 1, 0, 8, int(npiGrid[r.Intn(len(npiGrid))])})),
		No: loadedNumbers[r.Intn(len(loadedNumbers))]}
}

type corpusItem struct {
	t    pduType
	p    interface{}
	what string
}

// corpusPDUs: every loaded content in every string-like position of every type, deterministic.
// [stride]/[phase] thin it out (item k is kept when k % stride == phase); stride 1 = everything.
func corpusPDUs(ts []pduType, stride, phase int) []corpusItem {
	var out []corpusItem
	k := 0
	keep := func() bool { k++; return stride <= 1 || (k-1)%stride == phase%stride }
	for _, t := range ts {
		mk := func() reflect.Value {
			p := reflect.New(t.T)
			pdu.WriteSequence(p.Interface(), int32(1+len(out)%1000))
			if observePrepare(t.T).isReplace {
				// replace_sm carries no data_coding: the representable domain has the "absent" marker there
				for j := 0; j < t.T.NumField(); j++ {
					if m, ok := p.Elem().Field(j).Interface().(pdu.ShortMessage); ok {
						m.DataCoding = coding.NoCoding
						p.Elem().Field(j).Set(reflect.ValueOf(m))
					}
				}
			}
			return p
		}
		for j := 0; j < t.T.NumField(); j++ {
			f := t.T.Field(j)
			switch {
			case f.Type.Kind() == reflect.String:
				for _, s := range loadedStrings {
					if keep() {
						p := mk()
						p.Elem().Field(j).SetString(s)
						out = append(out, corpusItem{t, p.Interface(), fmt.Sprintf("%s.%s=%q", t.Name, f.Name, s)})
					}
				}
			case f.Type == reflect.TypeOf(pdu.Address{}):
				add := func(a pdu.Address) {
					if keep() {
						p := mk()
						p.Elem().Field(j).Set(reflect.ValueOf(a))
						out = append(out, corpusItem{t, p.Interface(), fmt.Sprintf("%s.%s={%d %d %q}", t.Name, f.Name, a.TON, a.NPI, a.No)})
					}
				}
				for ton := 0; ton < 8; ton++ {
					for _, npi := range npiGrid {
						for _, no := range gridNumbers {
							add(pdu.Address{TON: byte(ton), NPI: npi, No: no})
						}
					}
				}
				for _, tn := range [][2]byte{{1, 1}, {0, 0}, {5, 0}, {2, 8}} {
					for _, no := range loadedNumbers {
						add(pdu.Address{TON: tn[0], NPI: tn[1], No: no})
					}
				}
			case f.Type == reflect.TypeOf(pdu.DestinationAddresses{}):
				for _, tn := range [][2]byte{{1, 1}, {0, 0}, {1, 0}} {
					for _, no := range loadedNumbers {
						for _, at := range []int{0, 2} {
							if keep() {
								d := pdu.DestinationAddresses{Addresses: []pdu.Address{{TON: 2, NPI: 3, No: "70"}, {TON: 2, NPI: 3, No: "71"}, {TON: 2, NPI: 3, No: "72"}}, DistributionList: []string{"dl"}}
								d.Addresses[at] = pdu.Address{TON: tn[0], NPI: tn[1], No: no}
								p := mk()
								p.Elem().Field(j).Set(reflect.ValueOf(d))
								out = append(out, corpusItem{t, p.Interface(), fmt.Sprintf("%s.%s.Addresses[%d]={%d %d %q}", t.Name, f.Name, at, tn[0], tn[1], no)})
							}
						}
					}
				}
				for _, s := range loadedStrings {
					if keep() {
						d := pdu.DestinationAddresses{Addresses: []pdu.Address{{TON: 1, NPI: 1, No: "70"}}, DistributionList: []string{"first", s}}
						p := mk()
						p.Elem().Field(j).Set(reflect.ValueOf(d))
						out = append(out, corpusItem{t, p.Interface(), fmt.Sprintf("%s.%s.DistributionList[1]=%q", t.Name, f.Name, s)})
					}
				}
			case f.Type == reflect.TypeOf(pdu.UnsuccessfulRecords{}):
				for _, tn := range [][2]byte{{1, 1}, {0, 0}, {1, 0}} {
					for _, no := range loadedNumbers {
						for _, at := range []int{0, 1} {
							if keep() {
								u := pdu.UnsuccessfulRecords{{DestAddr: pdu.Address{TON: 2, NPI: 3, No: "70"}, ErrorStatusCode: 11}, {DestAddr: pdu.Address{TON: 2, NPI: 3, No: "71"}, ErrorStatusCode: 0x45}}
								u[at].DestAddr = pdu.Address{TON: tn[0], NPI: tn[1], No: no}
								p := mk()
								p.Elem().Field(j).Set(reflect.ValueOf(u))
								out = append(out, corpusItem{t, p.Interface(), fmt.Sprintf("%s.%s[%d]={%d %d %q}", t.Name, f.Name, at, tn[0], tn[1], no)})
							}
						}
					}
				}
			}
		}
	}
	return out
}

// ---------------------------------------------------------------- reference encoder
// refEncode lays a *PDU out as SMPP v5 section 4 prescribes, written here from the wire format (field kinds as
// classify() names them), without calling any encoder of the library.  ok=false: a field kind it does not know or a
// value that does not fit its field.  The frame is what a conforming peer would send for that value.
func refEncode(p interface{}, id uint32) (frame []byte, ok bool) {
	v := reflect.ValueOf(p).Elem()
	isReplace := observePrepare(v.Type()).isReplace
	var b []byte
	cstr := func(s string) bool {
		if bytes.IndexByte([]byte(s), 0) >= 0 {
			return false
		}
		b = append(append(b, s...), 0)
		return true
	}
	addr := func(a pdu.Address) bool { b = append(b, a.TON, a.NPI); return cstr(a.No) }
	var hdr pdu.Header
	for i := 0; i < v.NumField(); i++ {
		switch x := v.Field(i).Interface().(type) {
		case pdu.Header:
			hdr = x
			if x.CommandStatus != 0 {
				goto done
			}
		case pdu.ESMClass:
			if x.MessageMode > 3 || x.MessageType > 15 {
				return nil, false
			}
			c := x.MessageMode | x.MessageType<<2
			if x.UDHIndicator {
				c |= 0x40
			}
			if x.ReplyPath {
				c |= 0x80
			}
			b = append(b, c)
		case pdu.RegisteredDelivery:
			if x.MCDeliveryReceipt > 3 || x.SMEOriginatedAcknowledgment > 3 || x.Reserved > 7 {
				return nil, false
			}
			c := x.MCDeliveryReceipt | x.SMEOriginatedAcknowledgment<<2 | x.Reserved<<5
			if x.IntermediateNotification {
				c |= 0x10
			}
			b = append(b, c)
		case pdu.Address:
			if !addr(x) {
				return nil, false
			}
		case pdu.DestinationAddresses:
			n := len(x.Addresses) + len(x.DistributionList)
			if n > 255 {
				return nil, false
			}
			b = append(b, byte(n))
			for _, a := range x.Addresses {
				b = append(b, 1)
				if !addr(a) {
					return nil, false
				}
			}
			for _, d := range x.DistributionList {
				b = append(b, 2)
				if !cstr(d) {
					return nil, false
				}
			}
		case pdu.UnsuccessfulRecords:
			if len(x) > 255 {
				return nil, false
			}
			b = append(b, byte(len(x)))
			for _, u := range x {
				if !addr(u.DestAddr) {
					return nil, false
				}
				b = binary.BigEndian.AppendUint32(b, uint32(u.ErrorStatusCode))
			}
		case pdu.ShortMessage:
			var udh []byte
			if x.UDHeader != nil {
				keys := make([]int, 0, len(x.UDHeader))
				for k := range x.UDHeader {
					keys = append(keys, int(k))
				}
				sort.Ints(keys)
				for _, k := range keys {
					d := x.UDHeader[byte(k)]
					if len(d) > 255 {
						return nil, false
					}
					udh = append(append(udh, byte(k), byte(len(d))), d...)
				}
				if len(udh) > 255 {
					return nil, false
				}
				udh = append([]byte{byte(len(udh))}, udh...)
			}
			if len(udh)+len(x.Message) > 255 {
				return nil, false
			}
			if !isReplace {
				b = append(b, byte(x.DataCoding))
			}
			b = append(b, x.DefaultMessageID, byte(len(udh)+len(x.Message)))
			b = append(append(b, udh...), x.Message...)
		case pdu.Tags:
			keys := make([]int, 0, len(x))
			for k := range x {
				keys = append(keys, int(k))
			}
			sort.Ints(keys)
			for _, k := range keys {
				d := x[uint16(k)]
				if len(d) == 0 {
					continue
				}
				if len(d) > 65535 {
					return nil, false
				}
				b = binary.BigEndian.AppendUint16(b, uint16(k))
				b = binary.BigEndian.AppendUint16(b, uint16(len(d)))
				b = append(b, d...)
			}
		default:
			f := v.Field(i)
			switch f.Kind() {
			case reflect.String:
				if !cstr(f.String()) {
					return nil, false
				}
			case reflect.Uint8:
				b = append(b, byte(f.Uint()))
			case reflect.Bool:
				if f.Bool() {
					b = append(b, 1)
				} else {
					b = append(b, 0)
				}
			default:
				if classify(f.Type()) != "FSkipped" {
					return nil, false
				}
			}
		}
	}
done:
	return rawFrame(id, uint32(hdr.CommandStatus), hdr.Sequence, b), true
}

// ---------------------------------------------------------------- failing Marshal calls
// A poison is one Marshal call that must fail: a value some field encoder refuses (kind "refused") or an encodable
// value handed to a destination that gives up after [room] octets (kind "writer").
type poison struct {
	kind string      // refused | writer
	what string      // which field position / which k
	p    interface{} // the value marshalled
	room int
}

func (x poison) String() string { return x.kind + ":" + x.what }

func (x poison) replay() map[string]interface{} {
	b, _ := json.Marshal(x.p)
	return map[string]interface{}{"kind": x.kind, "what": x.what, "type": reflect.TypeOf(x.p).Elem().Name(), "json": json.RawMessage(b), "room": x.room}
}

// run performs the failing call; failed=false means Marshal unexpectedly reported success (the poison is then no poison).
func (x poison) run() (failed bool, panicked bool, pmsg string) {
	var err error
	if x.kind == "writer" {
		w := &roomWriter{room: x.room}
		_, panicked, pmsg = callWatchMarked(func() { _, err = pdu.Marshal(w, clonePDU(x.p)) })
	} else {
		_, err, _, panicked, pmsg = marshalRec(clonePDU(x.p))
	}
	return err != nil, panicked, pmsg
}

// refusals: for a valid value [base] of type t, every refused variant — one per (field position, refusal kind):
// NUL in each C-octet string, in each address number, in the first / last destination address and list name and
// unsuccess record; more than 255 destinations / records; message of 141 octets, UDH element of 256, UDH + message
// over 255; a TLV value of 65535 octets; a non-positive sequence number; flag sub-fields wider than their bit fields.
func refusals(t pduType, base interface{}) []poison {
	var out []poison
	add := func(what string, mod func(v reflect.Value)) {
		q := clonePDU(base)
		mod(reflect.ValueOf(q).Elem())
		out = append(out, poison{kind: "refused", what: t.Name + "." + what, p: q})
	}
	nul := func(s string) string {
		if len(s) < 2 {
			return s + "\x00z"
		}
		return s[:len(s)/2] + "\x00" + s[len(s)/2:]
	}
	for j := 0; j < t.T.NumField(); j++ {
		j := j
		name := t.T.Field(j).Name
		switch x := reflect.ValueOf(base).Elem().Field(j).Interface().(type) {
		case pdu.Header:
			add(name+"/sequence-0", func(v reflect.Value) {
				h := v.Field(j).Interface().(pdu.Header)
				h.Sequence = 0
				v.Field(j).Set(reflect.ValueOf(h))
			})
			add(name+"/sequence-negative", func(v reflect.Value) {
				h := v.Field(j).Interface().(pdu.Header)
				h.Sequence = -7
				v.Field(j).Set(reflect.ValueOf(h))
			})
		case pdu.ESMClass:
			add(name+"/mode-4", func(v reflect.Value) {
				e := x
				e.MessageMode = 4
				v.Field(j).Set(reflect.ValueOf(e))
			})
		case pdu.RegisteredDelivery:
			add(name+"/receipt-7", func(v reflect.Value) {
				e := x
				e.MCDeliveryReceipt = 7
				v.Field(j).Set(reflect.ValueOf(e))
			})
		case pdu.Address:
			add(name+"/nul-in-number", func(v reflect.Value) {
				a := x
				a.No = nul(a.No)
				v.Field(j).Set(reflect.ValueOf(a))
			})
		case pdu.DestinationAddresses:
			for _, at := range []string{"first", "last"} {
				at := at
				add(name+"/nul-in-"+at+"-address", func(v reflect.Value) {
					d := pdu.DestinationAddresses{Addresses: append([]pdu.Address{{TON: 1, NPI: 1, No: "100"}, {TON: 1, NPI: 1, No: "200"}, {TON: 2, NPI: 1, No: "300"}}, x.Addresses...), DistributionList: x.DistributionList}
					if len(d.Addresses) > 200 {
						d.Addresses = d.Addresses[:3]
					}
					k := 0
					if at == "last" {
						k = len(d.Addresses) - 1
					}
					d.Addresses[k].No = nul(d.Addresses[k].No)
					v.Field(j).Set(reflect.ValueOf(d))
				})
				add(name+"/nul-in-"+at+"-list-name", func(v reflect.Value) {
					d := pdu.DestinationAddresses{Addresses: []pdu.Address{{TON: 1, NPI: 1, No: "100"}}, DistributionList: []string{"one", "two", "three"}}
					k := 0
					if at == "last" {
						k = 2
					}
					d.DistributionList[k] = nul(d.DistributionList[k])
					v.Field(j).Set(reflect.ValueOf(d))
				})
			}
			add(name+"/256-destinations", func(v reflect.Value) {
				v.Field(j).Set(reflect.ValueOf(pdu.DestinationAddresses{Addresses: make([]pdu.Address, 200), DistributionList: make([]string, 56)}))
			})
		case pdu.UnsuccessfulRecords:
			for _, at := range []string{"first", "last"} {
				at := at
				add(name+"/nul-in-"+at+"-record", func(v reflect.Value) {
					u := pdu.UnsuccessfulRecords{{DestAddr: pdu.Address{TON: 1, NPI: 1, No: "100"}, ErrorStatusCode: 8}, {DestAddr: pdu.Address{TON: 1, NPI: 1, No: "200"}}, {DestAddr: pdu.Address{TON: 3, NPI: 1, No: "300"}}}
					k := 0
					if at == "last" {
						k = 2
					}
					u[k].DestAddr.No = nul(u[k].DestAddr.No)
					v.Field(j).Set(reflect.ValueOf(u))
				})
			}
			add(name+"/256-records", func(v reflect.Value) { v.Field(j).Set(reflect.ValueOf(make(pdu.UnsuccessfulRecords, 256))) })
		case pdu.ShortMessage:
			add(name+"/message-141", func(v reflect.Value) {
				m := x
				m.Message = bytes.Repeat([]byte{0x4D}, 141)
				v.Field(j).Set(reflect.ValueOf(m))
			})
			add(name+"/udh-element-256", func(v reflect.Value) {
				m := x
				m.UDHeader = pdu.UserDataHeader{1: {1}, 7: bytes.Repeat([]byte{0x55}, 256)}
				m.Message = nil
				v.Field(j).Set(reflect.ValueOf(m))
			})
			add(name+"/udh+message-256", func(v reflect.Value) {
				m := x
				m.UDHeader = pdu.UserDataHeader{1: bytes.Repeat([]byte{0x11}, 120), 2: bytes.Repeat([]byte{0x22}, 100)}
				m.Message = bytes.Repeat([]byte{0x4D}, 32)
				v.Field(j).Set(reflect.ValueOf(m))
			})
		case pdu.Tags:
			add(name+"/tlv-65535", func(v reflect.Value) {
				tg := pdu.Tags{0x0005: {1}, 0x0424: bytes.Repeat([]byte{0x54}, 65535)}
				v.Field(j).Set(reflect.ValueOf(tg))
			})
		default:
			if t.T.Field(j).Type.Kind() == reflect.String {
				add(name+"/nul-in-string", func(v reflect.Value) { v.Field(j).SetString(nul(v.Field(j).String())) })
			}
		}
	}
	return out
}

// writerPoisons: an encodable value handed to destinations that give up after k octets, for several k
func writerPoisons(t pduType, base interface{}, frameLen int) []poison {
	var out []poison
	seen := map[int]bool{}
	for _, k := range []int{0, 1, 3, 4, 15, 16, 17, frameLen / 2, frameLen - 1} {
		if k < 0 || k >= frameLen || seen[k] {
			continue
		}
		seen[k] = true
		out = append(out, poison{kind: "writer", what: fmt.Sprintf("%s/gives-up-after-%d-of-%d", t.Name, k, frameLen), p: base, room: k})
	}
	return out
}

// allPoisons of one valid value: every refusal and every writer failure
func allPoisons(t pduType, base interface{}) []poison {
	out := refusals(t, base)
	_, err, w, panicked, _ := marshalRec(clonePDU(base))
	if err == nil && !panicked && len(w.calls) == 1 {
		out = append(out, writerPoisons(t, base, len(w.calls[0]))...)
	}
	return out
}

// poisonBase: a valid value of type t with every container non-empty (so that every refusal position exists)
func poisonBase(r *Rng, t pduType) interface{} {
	for try := 0; try < 30; try++ {
		p := genPDU(r, t, modeDomain)
		v := reflect.ValueOf(p).Elem()
		for j := 0; j < v.NumField(); j++ {
			if classify(v.Type().Field(j).Type) == "FSkipped" {
				v.Field(j).Set(reflect.Zero(v.Field(j).Type()))
			}
			if tg, ok := v.Field(j).Interface().(pdu.Tags); ok && len(tg) > 3 {
				v.Field(j).Set(reflect.ValueOf(pdu.Tags{0x0005: {9}}))
			}
		}
		_, err, w, panicked, _ := marshalRec(clonePDU(p))
		if err == nil && !panicked && len(w.calls) == 1 && len(w.calls[0]) < 1200 {
			return p
		}
	}
	p := reflect.New(t.T).Interface()
	pdu.WriteSequence(p, 1)
	return p
}

// sandwich: Marshal(v) -> B1; the failing call; Marshal(v) again (a fresh clone, a fresh destination) -> B2.
// The second result must not depend on the failed call in between: same outcome, same octets, and ReadPDU(B2)
// gives v.  Returns what it observed for the model case.  [prefix] is the failure-class prefix of the calling check.
func sandwich(r *Run, prefix string, t pduType, v interface{}, x poison) (b1, b2 []byte, ok bool) {
	rp := replayValue(v)
	rp["failed_call_between"] = x.replay()
	r.SetReplay(rp)
	in := fmt.Sprintf("marshal %s %.1500s; then a Marshal that fails (%s); then marshal the first value again", t.Name, coqValue(v), x)
	_, err1, w1, pan1, _ := marshalRec(clonePDU(v))
	if err1 != nil || pan1 || len(w1.calls) != 1 {
		return nil, nil, false
	}
	b1 = w1.calls[0]
	failed, panicked, pmsg := x.run()
	if panicked {
		r.Fail(prefix+"/failed-call-panicked/"+x.kind, "the failing Marshal of the history panicked", in, pmsg, "an error")
		return b1, nil, false
	}
	if !failed {
		return b1, nil, false // not a failing call after all (reported elsewhere: C02 / C12 own these verdicts)
	}
	n2, err2, w2, pan2, pmsg2 := marshalRec(clonePDU(v))
	switch {
	case pan2:
		r.Fail(prefix+"/after-failed-marshal/"+x.kind+"/panic", "Marshal panicked after an earlier Marshal call had failed", in, pmsg2, "the same frame as before")
		return b1, nil, false
	case err2 != nil || len(w2.calls) != 1:
		r.Fail(prefix+"/after-failed-marshal/"+x.kind+"/refused", "Marshal refused a value it had encoded before an unrelated Marshal call failed", in, fmt.Sprint(err2), "the same frame as before")
		return b1, nil, false
	}
	b2 = w2.calls[0]
	if !bytes.Equal(b1, b2) || n2 != int64(len(b1)) {
		r.Fail(prefix+"/after-failed-marshal/"+x.kind+"/octets-differ", "the same value encoded to different octets after an unrelated Marshal call had failed (state carried between calls)", in,
			fmt.Sprintf("n=%d %s", n2, hex.EncodeToString(b2[:min(len(b2), 200)])), hex.EncodeToString(b1[:min(len(b1), 200)]))
		// and what a peer makes of it
		o := readOnce(&chunkReader{data: b2, sched: []int{len(b2)}})
		if o.Kind != "ok" || canonNoLenID(o.PDU) != canonNoLenID(v) {
			got := o.Kind
			if o.Kind == "ok" {
				got = canonNoLenID(o.PDU)
			}
			r.Fail(prefix+"/after-failed-marshal/"+x.kind+"/readpdu", "ReadPDU of a frame Marshal produced after an unrelated failed Marshal does not return the value", in, got, canonNoLenID(v))
		}
		return b1, b2, false
	}
	return b1, b2, true
}

// historyCase: the model's view of the same history — the calls are independent (Properties/C13.v: C13_history_free)
func historyCase(r *Run, t pduType, v interface{}, x poison, b1, b2 []byte) {
	vt := coqValue(v)
	xt := coqValue(x.p)
	if len(vt)+len(xt) > 9000 {
		return
	}
	xid := uint32(0)
	for _, u := range pduTypes() {
		if u.T == reflect.TypeOf(x.p).Elem() {
			xid = u.ID
		}
	}
	room := "None"
	if x.kind == "writer" {
		room = fmt.Sprintf("(Some %d)", x.room)
	}
	r.Case(fmt.Sprintf("history: marshal %s; failing call %s; marshal again", t.Name, x),
		fmt.Sprintf("match run_calls [(%s, %s, None); (%s, %s, %s); (%s, %s, None)] with [(MOk _, a); (r2, _); (MOk _, c)] => beq_bytes a %s && beq_bytes c %s && negb (beq_mres r2 (MOk 0)) | _ => false end",
			layoutRef(t.ID), vt, layoutRef(xid), xt, room, layoutRef(t.ID), vt, coqHex(b1), coqHex(b2)))
}

var _ = coding.NoCoding

// ---------------------------------------------------------------- dense deterministic sweeps
// denseSweep: sizes walked one by one instead of sampled — a defect that shows at particular frame lengths (a buffer that
// reallocates at a capacity step, an estimate that is one octet short) needs EVERY length, with every way the short message
// can be written:
//   - every type with a short message: message length 0..140 x {no UDH indicator; indicator with a nil, an empty, a one-element header};
//   - every C-octet-string field and every address number: length 0..66 (the largest field maximum of SMPP v5 is 65, +1);
//   - every type with TLVs: one TLV of 0..300 octets, and around the 512 / 1024 steps.
// part: "message" | "strings" | "tlvs".
func denseSweep(ts []pduType, part string) []corpusItem {
	var out []corpusItem
	fill := func(n int, c byte) []byte { return bytes.Repeat([]byte{c}, n) }
	for _, t := range ts {
		t := t
		facts := observePrepare(t.T)
		mk := func() reflect.Value {
			p := reflect.New(t.T)
			pdu.WriteSequence(p.Interface(), int32(1+len(out)%9999))
			if facts.isReplace { // replace_sm carries no data_coding: the representable domain has the "absent" marker there
				for j := 0; j < t.T.NumField(); j++ {
					if m, ok := p.Elem().Field(j).Interface().(pdu.ShortMessage); ok {
						m.DataCoding = coding.NoCoding
						p.Elem().Field(j).Set(reflect.ValueOf(m))
					}
				}
			}
			return p
		}
		for j := 0; j < t.T.NumField(); j++ {
			f := t.T.Field(j)
			switch {
			case part == "message" && f.Type == reflect.TypeOf(pdu.ShortMessage{}):
				modes := []string{"no-udh", "udh-empty", "udh-1"}
				if facts.esmField >= 0 {
					modes = []string{"no-udhi", "udhi+nil-udh", "udhi+empty-udh", "udhi+1-element"}
				}
				for _, mode := range modes {
					for l := 0; l <= 140; l++ {
						p := mk()
						m := pdu.ShortMessage{Message: fill(l, 0x6D)}
						if facts.isReplace {
							m.DataCoding = coding.NoCoding
						}
						switch mode {
						case "udh-empty", "udhi+empty-udh":
							m.UDHeader = pdu.UserDataHeader{}
						case "udh-1", "udhi+1-element":
							m.UDHeader = pdu.UserDataHeader{0: {7, 2, 1}}
						}
						if facts.esmField >= 0 && mode != "no-udhi" {
							p.Elem().Field(facts.esmField).Set(reflect.ValueOf(pdu.ESMClass{UDHIndicator: true}))
						}
						p.Elem().Field(j).Set(reflect.ValueOf(m))
						out = append(out, corpusItem{t, p.Interface(), fmt.Sprintf("%s message=%d %s", t.Name, l, mode)})
					}
				}
			case part == "strings" && f.Type.Kind() == reflect.String:
				for l := 0; l <= 66; l++ {
					p := mk()
					p.Elem().Field(j).SetString(string(fill(l, 'a'+byte(l%26))))
					out = append(out, corpusItem{t, p.Interface(), fmt.Sprintf("%s.%s length=%d", t.Name, f.Name, l)})
				}
			case part == "strings" && f.Type == reflect.TypeOf(pdu.Address{}):
				for l := 0; l <= 66; l++ {
					p := mk()
					p.Elem().Field(j).Set(reflect.ValueOf(pdu.Address{TON: 1, NPI: 1, No: string(fill(l, '0'+byte(l%10)))}))
					out = append(out, corpusItem{t, p.Interface(), fmt.Sprintf("%s.%s number length=%d", t.Name, f.Name, l)})
				}
			case part == "tlvs" && f.Type == reflect.TypeOf(pdu.Tags{}):
				var ls []int
				for l := 0; l <= 300; l++ {
					ls = append(ls, l)
				}
				for l := 440; l <= 520; l++ {
					ls = append(ls, l)
				}
				for l := 950; l <= 1030; l++ {
					ls = append(ls, l)
				}
				for _, l := range ls {
					p := mk()
					p.Elem().Field(j).Set(reflect.ValueOf(pdu.Tags{0x0424: fill(l, 0x70)}))
					out = append(out, corpusItem{t, p.Interface(), fmt.Sprintf("%s TLV length=%d", t.Name, l)})
				}
				// the ends and the byte / sign boundaries of the tag space, alone and in pairs
				for a, ta := range boundaryTags {
					p := mk()
					p.Elem().Field(j).Set(reflect.ValueOf(pdu.Tags{ta: {1, 2}}))
					out = append(out, corpusItem{t, p.Interface(), fmt.Sprintf("%s TLV tag=%#04x", t.Name, ta)})
					tb := boundaryTags[(a+1)%len(boundaryTags)]
					p = mk()
					p.Elem().Field(j).Set(reflect.ValueOf(pdu.Tags{ta: {1}, tb: {2}, 0x0424: {3}}))
					out = append(out, corpusItem{t, p.Interface(), fmt.Sprintf("%s TLV tags=%#04x,%#04x,0x0424", t.Name, ta, tb)})
				}
			}
		}
	}
	return out
}

// ---------------------------------------------------------------- aliasing between values the library hands out
// mutateReachable writes through every map and slice reachable from a *PDU: every value octet is inverted in place, a new
// entry is added to every map, every slice element is overwritten and the slice appended to.  What a caller may do with a
// value it owns.
func mutateReachable(p interface{}) {
	v := reflect.ValueOf(p).Elem()
	inv := func(b []byte) {
		for i := range b {
			b[i] ^= 0xFF
		}
	}
	for j := 0; j < v.NumField(); j++ {
		switch x := v.Field(j).Interface().(type) {
		case pdu.Tags:
			for _, d := range x {
				inv(d)
			}
			if x != nil {
				x[0xEEEE] = []byte{0xEE}
			}
		case pdu.ShortMessage:
			for _, d := range x.UDHeader {
				inv(d)
			}
			if x.UDHeader != nil {
				x.UDHeader[0xEE] = []byte{0xEE, 0xEE}
			}
			inv(x.Message)
			if cap(x.Message) > len(x.Message) {
				_ = append(x.Message, 0xEE) // writes into the backing array behind the slice
			}
		case pdu.DestinationAddresses:
			for i := range x.Addresses {
				x.Addresses[i] = pdu.Address{TON: 0xEE, NPI: 0xEE, No: "mutated"}
			}
			for i := range x.DistributionList {
				x.DistributionList[i] = "mutated"
			}
			if cap(x.Addresses) > len(x.Addresses) {
				_ = append(x.Addresses, pdu.Address{No: "appended"})
			}
		case pdu.UnsuccessfulRecords:
			for i := range x {
				x[i] = pdu.UnsuccessfulRecord{DestAddr: pdu.Address{TON: 0xEE, No: "mutated"}, ErrorStatusCode: 0xEE}
			}
		}
	}
}

// aliasProbes: frames (laid out by the reference encoder) whose decoding is watched across the mutations: for every type with
// an esm_class the frame with the UDH indicator set and a header of ZERO elements, plus one ordinary frame of every type.
func aliasProbes(r *Rng, ts []pduType) (frames [][]byte, names []string) {
	for _, t := range ts {
		facts := observePrepare(t.T)
		for j := 0; j < t.T.NumField(); j++ {
			if t.T.Field(j).Type == reflect.TypeOf(pdu.ShortMessage{}) && facts.esmField >= 0 {
				p := reflect.New(t.T)
				pdu.WriteSequence(p.Interface(), 77)
				p.Elem().Field(facts.esmField).Set(reflect.ValueOf(pdu.ESMClass{UDHIndicator: true}))
				p.Elem().Field(j).Set(reflect.ValueOf(pdu.ShortMessage{UDHeader: pdu.UserDataHeader{}, Message: []byte("hi")}))
				if f, ok := refEncode(p.Interface(), t.ID); ok {
					frames, names = append(frames, f), append(names, t.Name+"(UDHI, zero-element header)")
				}
			}
		}
		if f, ok := refEncode(poisonBase(r, t), t.ID); ok {
			frames, names = append(frames, f), append(names, t.Name)
		}
	}
	return
}

func decodeText(f []byte) string {
	o := readOnce(&chunkReader{data: f, sched: []int{len(f)}})
	if o.Kind != "ok" && o.Kind != "decode-err" {
		return o.Kind
	}
	return o.Kind + " " + coqValue(o.PDU)
}

// checkAliasing: (1) the same frame decoded twice: writing through everything reachable from the first result must not change
// the second; (2) after that mutation — and after mutating a value Marshal was given — every probe frame still decodes to what
// it decoded to before, and a probe value still marshals to the same octets.
func checkAliasing(r *Run, prefix string, ts []pduType) {
	probes, names := aliasProbes(r.Rng, ts)
	before := make([]string, len(probes))
	for i, f := range probes {
		before[i] = decodeText(f)
	}
	recheck := func(what string, victim []byte) bool {
		for i, f := range probes {
			if got := decodeText(f); got != before[i] {
				rp := replayStream(f, []int{len(f)})
				rp["after_mutating_the_pdu_decoded_from"] = hex.EncodeToString(victim)
				rp["mutation"] = what
				r.SetReplay(rp)
				r.Fail(prefix+"/aliasing/later-result-changed/"+what, "a frame decodes to another value after the caller wrote through the maps / slices of a PDU the library had handed out earlier (shared state)",
					fmt.Sprintf("readpdu %x (%s) — after %s of the PDU decoded from %s", f, names[i], what, shortHex(victim)), got, before[i])
				return false
			}
		}
		return true
	}
	victims := append([][]byte(nil), probes...)
	for k := 0; k < 40; k++ {
		f, _, _ := genFrame(r.Rng, ts)
		if len(f) < 3000 {
			victims = append(victims, f)
		}
	}
	for k, f := range victims {
		a := readOnce(&chunkReader{data: f, sched: []int{len(f)}})
		b := readOnce(&chunkReader{data: f, sched: []int{len(f)}})
		r.Count(fmt.Sprintf("alias/%d", k), true, "aliasing")
		if a.Kind != "ok" || b.Kind != "ok" {
			continue
		}
		textB := coqValue(b.PDU)
		mutateReachable(a.PDU)
		if got := coqValue(b.PDU); got != textB {
			rp := replayStream(f, []int{len(f)})
			rp["mutation"] = "decoded-twice"
			r.SetReplay(rp)
			r.Fail(prefix+"/aliasing/two-decodes-share-storage", "two PDUs decoded from the same frame share backing store: writing through one changes the other",
				fmt.Sprintf("readpdu %x twice; write through every map / slice of the first result", f), got, textB)
		}
		if !recheck("mutating-a-decoded-pdu", f) {
			return
		}
		// the same on the Marshal side: Marshal rewrites its argument (Prepare); what it put there belongs to the caller
		_, err, _, panicked, _ := marshalRec(a.PDU) // a.PDU is now full of mutated contents; the outcome does not matter
		_ = err
		if !panicked {
			c := readOnce(&chunkReader{data: f, sched: []int{len(f)}})
			if c.Kind == "ok" {
				if _, err2, _, p2, _ := marshalRec(c.PDU); err2 == nil && !p2 {
					mutateReachable(c.PDU)
					if !recheck("mutating-a-marshalled-pdu", f) {
						return
					}
				}
			}
		}
	}
}
