package main

// C06, tie between the extracted table and the running code: the lock
// operations the table predicts are looked for on the running library through
// the runtime's mutex-contention profile (runtime.SetMutexProfileFraction(1)):
// under a workload in which 16 goroutines call Submit and Send on one Conn,
// every Unlock that made another goroutine wait is recorded by the runtime with
// its stack.  The functions of go-smpp that called Unlock are compared with the
// functions in which the table has an unlock node:
// The workload runs in a child process (sub-command c06tie).
//   - an observed unlocking function the table does not know  -> the extraction
//     missed a lock operation: said in a note, and the static verdict is
//     declared unreliable for this run (the dynamic evidence stands);
//   - a predicted function not observed -> no contention there in this run
//     (cannot be forced): said in a note, counted in the evidence.
// This confirms the lock events per function, not per path: a finer tie would
// need probes compiled into the library, which the rules of this tree exclude
// (the library is tested unmodified).

import (
	"bytes"
	"context"
	"encoding/json"
	"fmt"
	"net"
	"os"
	"os/exec"
	"regexp"
	"runtime"
	"sort"
	"strings"
	"sync"
	"sync/atomic"
	"time"

	smpp "github.com/M2MGateway/go-smpp"
	"github.com/M2MGateway/go-smpp/pdu"
)

func baseFunc(fn string) string {
	fn = strings.TrimPrefix(fn, libPrefix)
	fn = strings.TrimPrefix(fn, ".")
	if strings.HasPrefix(fn, "(") {
		if i := strings.Index(fn, ")."); i >= 0 {
			fn = fn[i+2:]
		}
	}
	if i := strings.Index(fn, "."); i >= 0 {
		fn = fn[:i]
	}
	return fn
}

func contentionWorkload(d time.Duration) (submits int32) {
	cli, srv := net.Pipe()
	var wmu sync.Mutex
	go func() {
		for {
			p, err := pdu.ReadPDU(srv)
			if err != nil && p == nil {
				return
			}
			if rq, ok := p.(pdu.Responsable); ok {
				resp := rq.Resp()
				go func() {
					wmu.Lock()
					_ = srv.SetWriteDeadline(time.Now().Add(time.Second))
					_, _ = pdu.Marshal(srv, resp)
					wmu.Unlock()
				}()
			}
		}
	}()
	conn := smpp.NewConn(context.Background(), cli)
	conn.WriteTimeout, conn.ReadTimeout = 2*time.Second, 2*time.Second
	go conn.Watch()
	go func() {
		for range conn.PDU() {
		}
	}()
	until := time.Now().Add(d)
	var wg sync.WaitGroup
	var seq int32 = 1 << 28
	for g := 0; g < 16; g++ {
		wg.Add(1)
		go func() {
			defer wg.Done()
			for time.Now().Before(until) {
				ctx, cancel := context.WithTimeout(context.Background(), time.Second)
				if _, err := conn.Submit(ctx, &pdu.EnquireLink{}); err == nil {
					atomic.AddInt32(&submits, 1)
				}
				cancel()
				_ = conn.Send(&pdu.DeliverSMResp{Header: pdu.Header{Sequence: atomic.AddInt32(&seq, 1)}})
			}
		}()
	}
	wg.Wait()
	_ = conn.Close()
	_ = srv.Close()
	_ = cli.Close()
	return
}

// tieChildMain: sub-command `c06tie` — the contention workload runs in a child process: with a broken library it
// can die of the runtime's "concurrent map" abort, which must be an observation and not the end of the check.
func tieChildMain(want []string) {
	runtime.SetMutexProfileFraction(1)
	observed := map[string]int{}
	var submits int32
	for attempt := 0; attempt < 3; attempt++ {
		submits += contentionWorkload(time.Duration(150*(attempt+1)) * time.Millisecond)
		recs := make([]runtime.BlockProfileRecord, 4096)
		n, _ := runtime.MutexProfile(recs)
		for k := range observed {
			delete(observed, k) // the profile is cumulative
		}
		for _, rec := range recs[:n] {
			frames := runtime.CallersFrames(rec.Stack())
			sawUnlock := false
			for {
				f, more := frames.Next()
				if strings.HasPrefix(f.Function, "sync.(*Mutex).Unlock") || strings.HasPrefix(f.Function, "sync.(*RWMutex).Unlock") ||
					strings.HasPrefix(f.Function, "sync.(*RWMutex).RUnlock") || strings.HasPrefix(f.Function, "sync.(*Mutex).unlockSlow") || strings.HasPrefix(f.Function, "sync.(*RWMutex).rUnlockSlow") {
					sawUnlock = true
				} else if sawUnlock && !strings.HasPrefix(f.Function, "sync.") && !strings.HasPrefix(f.Function, "runtime.") && !strings.HasPrefix(f.Function, "internal/") {
					if strings.HasPrefix(f.Function, libPrefix+".") { // the root package only
						observed[baseFunc(f.Function)] += int(rec.Count)
					}
					break
				}
				if !more {
					break
				}
			}
		}
		missing := 0
		for _, p := range want {
			if observed[p] == 0 {
				missing++
			}
		}
		if missing == 0 {
			break
		}
	}
	out, _ := json.Marshal(map[string]interface{}{"submits": submits, "observed": observed})
	fmt.Println(string(out))
}

func c06Tie(r *Run) {
	t := extractConnTable()
	if t.Err != "" {
		return
	}
	predicted := map[string]bool{}
	for _, n := range t.Nodes {
		if n.Kind == "unlock" && !t.Mus[n.M].Once && t.Entries[n.Entry].Readme {
			predicted[baseFunc(siteFunc(n.Site))] = true
		}
	}
	var ps []string
	for p := range predicted {
		ps = append(ps, p)
	}
	sort.Strings(ps)
	var res struct {
		Submits  int            `json:"submits"`
		Observed map[string]int `json:"observed"`
	}
	var lastErr string
	for attempt := 0; attempt < 2 && res.Observed == nil; attempt++ {
		cmd := exec.Command(os.Args[0], append([]string{"c06tie"}, ps...)...)
		var stdout, stderr bytes.Buffer
		cmd.Stdout, cmd.Stderr = &stdout, &stderr
		if err := cmd.Start(); err != nil {
			lastErr = err.Error()
			continue
		}
		done := make(chan error, 1)
		go func() { done <- cmd.Wait() }()
		var err error
		select {
		case err = <-done:
		case <-time.After(40 * time.Second):
			_ = cmd.Process.Kill()
			<-done
			err = fmt.Errorf("exceeded 40 s")
		}
		if m := regexp.MustCompile(`fatal error: (concurrent map[^\n]*)`).FindStringSubmatch(stderr.String()); m != nil {
			r.Fail("runtime-fatal/concurrent-map-access", "the Go runtime aborted the workload: "+m[1], "harness c06tie: 16 goroutines calling Submit and Send on one Conn over net.Pipe, Watch running, peer answering",
				tail(head(stderr.String(), 5000), 2500), "no runtime fatal error")
			return
		}
		if err != nil {
			lastErr = err.Error() + ": " + tail(stderr.String(), 300)
			continue
		}
		_ = json.Unmarshal(stdout.Bytes(), &res)
	}
	if res.Observed == nil {
		r.Notes = append(r.Notes, "tie: the contention workload did not complete ("+lastErr+"): the lock events of the table were not confirmed on the running code in this run")
		return
	}
	observed := res.Observed
	for _, p := range ps {
		if observed[p] > 0 {
			r.Count("tie/unlock observed in "+p, true, "tie/predicted-unlock-observed-under-contention")
		} else {
			r.Count("tie/unlock not observed in "+p, false, "tie/predicted-unlock-not-contended-in-this-run")
			r.Notes = append(r.Notes, fmt.Sprintf("tie: the table predicts an Unlock in %s; no contended Unlock was recorded there in this run (contention cannot be forced; not a verdict)", p))
		}
	}
	for o, c := range observed {
		if !predicted[o] {
			r.Notes = append(r.Notes, fmt.Sprintf("tie: the running library unlocked a contended mutex in %s (%d times) but the extracted table has no unlock node there: the extraction missed a lock operation; the static verdict of this run is unreliable, the dynamic evidence stands", o, c))
		}
	}
	r.Sample(map[string]interface{}{"tie": "mutex-contention profile", "submits": res.Submits, "predicted_unlock_functions": ps, "observed_contended_unlocks": observed})
}
