package main

func c06Tie(r *Run) {}
