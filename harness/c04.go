package main

import (
	"encoding/binary"
	"fmt"
	"reflect"
	"runtime"
	"time"

	"github.com/M2MGateway/go-smpp/pdu"
)

func init() { corrTable["C04"] = corrC04 }

// allocBound is what one ReadPDU call may allocate in total (runtime.MemStats.TotalAlloc
// delta): the body buffer and the tee buffer's doubling growth (a few frame sizes),
// bufio's 4096-octet buffer, and — the densest case — one map entry plus the
// temporaries of binary.Read per 4-octet TLV: a 64 KiB frame of 16380 empty TLVs
// measures 2.3 MB.  The bound is 64 x the frame limit; what the property excludes
// is allocation driven by a length field rather than by octets actually received.
const allocBound = 64 * 65536

// per-input overhead allowed on top of the buffers the decoders request (see the case emitted in corrC04)
const allocPerOctet = 96
const allocConst = 24576

func measuredRead(c *chunkReader) (o readObs, alloc uint64, hung bool) {
	done := make(chan struct{})
	var m0, m1 runtime.MemStats
	go func() {
		defer close(done)
		runtime.ReadMemStats(&m0)
		o = readOnce(c)
		runtime.ReadMemStats(&m1)
	}()
	select {
	case <-done:
		return o, m1.TotalAlloc - m0.TotalAlloc, false
	case <-time.After(10 * time.Second):
		return readObs{Kind: "hang"}, 0, true
	}
}

func corrC04(r *Run) {
	r.Import("Model.PduRun")
	r.Import("Model.PduAllocRun")
	r.Import("Model.PduReadHazardsRun")
	ioBudget := r.N(160, 3000) // the Go-hazards layer of the decoder (read_pdu_io) on a fixed slice of the malformed stream
	r.PerShard(80)
	r.Rule = "arbitrary octets under arbitrary read schedules: unstructured random strings; a valid header of every registered command_id (and unknown ids) " +
		"followed by arbitrary body octets; every kind of command_length lie (0..15, 16, exact, short, long, 65536, 65537, 2^31, 2^32-1); mutated and truncated valid frames; " +
		"non-trivial = distinct input with at least a complete 16-octet header"
	ts := pduTypes()
	n := r.N(10000, 200000)
	caseBudget := r.N(500, 8000)
	vol := &pduVolume{}
	defer vol.diff(r)
	single := func(data []byte, sched []int, bucket string) {
		c := &chunkReader{data: data, sched: sched}
		r.SetReplay(replayStream(data, sched))
		var o readObs
		var alloc uint64
		var hung bool
		measure := r.Evaluations%4 == 0 || bucket == "max-frame"
		if measure {
			o, alloc, hung = measuredRead(c)
			// runtime.MemStats.TotalAlloc is process-wide (timers, goroutine bookkeeping, the runtime under load): a reading
			// that would fail one of the memory clauses is taken again twice and the smallest counts — only a reproducible
			// allocation is reported
			rejected := len(data) >= 16 && (binary.BigEndian.Uint32(data[:4]) < 16 || binary.BigEndian.Uint32(data[:4]) > 65536)
			for try := 0; try < 2 && !hung && ((rejected && alloc > 4096) || alloc > allocBound); try++ {
				_, a2, h2 := measuredRead(&chunkReader{data: data, sched: sched})
				if !h2 && a2 < alloc {
					alloc = a2
				}
			}
		} else {
			o = readOnce(c)
		}
		r.Count(fmt.Sprintf("%x|%v", data, sched), len(data) >= 16, bucket+"/"+o.Kind)
		if !hung && o.Kind != "neither" {
			vol.readone(data, sched, o)
		}
		in := fmt.Sprintf("readpdu %x sched=%s", data, schedString(sched))
		if len(in) > 3000 {
			in = fmt.Sprintf("readpdu %s sched=%s", shortHex(data), schedString(sched))
		}
		switch {
		case hung:
			r.Fail("total/hang", "ReadPDU did not return", in, "no return within 10 s", "returns")
			return
		case o.Kind == "panic":
			r.Fail("total/panic", "ReadPDU panicked", in, o.Msg, "a value or an error")
		case o.Kind == "neither":
			r.Fail("total/neither", "ReadPDU returned a nil PDU and a nil error", in, "nil, nil", "non-nil error or non-nil PDU")
		}
		if o.Consumed > 65536 {
			r.Fail("total/consumed>65536", "ReadPDU took more than 65536 octets from the reader", in, fmt.Sprint(o.Consumed), "<= 65536")
		}
		if len(data) >= 16 {
			L := binary.BigEndian.Uint32(data[:4])
			if L < 16 || L > 65536 {
				if o.Kind != "bad-len" || o.Consumed != 16 {
					r.Fail("header-reject/not-after-16", "a header announcing < 16 or > 65536 octets was not rejected after exactly 16 octets", in,
						fmt.Sprintf("%s consumed=%d", o.Kind, o.Consumed), "bad-len consumed=16")
				}
				if measure && alloc > 4096 {
					r.Fail("header-reject/allocated", "memory was allocated for a rejected header", in, fmt.Sprintf("%d octets allocated", alloc), "<= 4096 (no body buffer)")
				}
			} else if int(L) <= len(data) && o.Consumed != int(L) && o.Kind != "panic" {
				r.Fail("total/consumed-not-command-length", "acceptable header but ReadPDU did not consume command_length octets", in,
					fmt.Sprintf("%s consumed=%d", o.Kind, o.Consumed), fmt.Sprintf("consumed=%d", L))
			}
		}
		if measure && alloc > allocBound {
			r.Fail("total/alloc", "ReadPDU allocated more than a small multiple of the frame limit", in, fmt.Sprintf("%d octets", alloc), fmt.Sprintf("<= %d", allocBound))
		}
		if measure {
			r.Hist["alloc<=4KiB"] += b2i(alloc <= 4096)
			r.Hist["alloc<=64KiB"] += b2i(alloc > 4096 && alloc <= 65536)
			r.Hist["alloc<=512KiB"] += b2i(alloc > 65536 && alloc <= 8*65536)
			r.Hist["alloc<=4MiB"] += b2i(alloc > 8*65536 && alloc <= 64*65536)
		}
		if measure && !hung {
			// Tie of the allocation model, in the direction that matters: what ReadPDU really allocated is bounded by what the
			// model says the decoders REQUEST from length fields (run_alloc) plus an overhead proportional to the octets actually
			// taken from the reader (tee buffer growth, map entries and binary.Read temporaries per TLV: 35 octets per octet
			// measured on the densest input) plus a constant (bufio's 4096-octet buffer, reflect.New, the PDU struct).
			// A model that under-counts (say 0) is refuted by this case; a refactoring that allocates LESS than the model
			// requests passes it.  TotalAlloc is process-wide: an overshoot is re-measured twice and the minimum counts.
			over := func(a uint64) bool { return a > allocPerOctet*uint64(o.Consumed)+allocConst+65536 }
			for try := 0; try < 2 && over(alloc); try++ {
				_, a2, h2 := measuredRead(&chunkReader{data: data, sched: sched})
				if !h2 && a2 < alloc {
					alloc = a2
				}
			}
			if caseBudget > 0 && len(data) < 6000 {
				// ADVISORY (never an alarm): how much the implementation allocates beyond the property's bound is an internal
				// strategy (a refactoring that reserves the tee buffer for the whole announced body doubles it and is harmless);
				// the property's memory clauses are the direct tests total/alloc and header-reject/allocated above.
				r.Advisory(fmt.Sprintf("allocated(%d) <= requested + %d x consumed(%d) + %d  %s", alloc, allocPerOctet, o.Consumed, allocConst, shortHex(data)),
					fmt.Sprintf("%d <=? run_alloc %s %s + %d", alloc, coqHex(data), schedTerm(sched), allocPerOctet*uint64(o.Consumed)+allocConst))
			}
		}
		if ioBudget > 0 && len(data) < 1500 && len(data) >= 16 && r.Evaluations%5 == 2 && o.Kind != "hang" && o.Kind != "neither" {
			// the layer in which make / slice / reflect.New CAN panic reproduces the implementation's outcome (class, value, octets consumed)
			ioBudget--
			r.Case(fmt.Sprintf("readpdu (hazards layer) %s sched=%s", shortHex(data), schedString(sched)),
				fmt.Sprintf("beq_read (run_read_io %s %s) %s", coqHex(data), schedTerm(sched), o.term()))
		}
		if caseBudget > 0 && len(data) < 6000 && o.Kind != "hang" && o.Kind != "neither" {
			caseBudget--
			r.Case(fmt.Sprintf("readpdu %s sched=%s", shortHex(data), schedString(sched)),
				fmt.Sprintf("beq_read (run_read %s %s) %s", coqHex(data), schedTerm(sched), o.term()))
		}
	}
	lies := []uint32{0, 1, 15, 16, 17, 65535, 65536, 65537, 0x7FFFFFFF, 0x80000000, 0xFFFFFFFF}
	ids := []uint32{0, 10, 0x0BAD, 0x800000FF, 0xFFFFFFFF}
	for _, t := range ts {
		ids = append(ids, t.ID)
	}
	for i := 0; i < n; i++ {
		var data []byte
		bucket := ""
		switch i % 7 {
		case 6: // valid mandatory parameters followed by a raw TLV section: standard tags, empty and undersized values
			t := ts[r.Rng.Intn(len(ts))]
			p := genPDU(r.Rng, t, modeDomain)
			v := reflect.ValueOf(p).Elem()
			for j := 0; j < v.NumField(); j++ {
				if _, ok := v.Field(j).Interface().(pdu.Tags); ok {
					v.Field(j).Set(reflect.Zero(v.Field(j).Type()))
				}
			}
			_, err, w, panicked, _ := marshalRec(p)
			if err != nil || panicked || len(w.calls) != 1 {
				data = r.Rng.Bytes(20)
			} else {
				data = append(append([]byte(nil), w.calls[0]...), rawTLVs(r.Rng)...)
				binary.BigEndian.PutUint32(data, uint32(len(data)))
			}
			bucket = "valid+raw-tlvs"
			if r.Rng.Intn(2) == 0 {
				multi := r.Rng.Intn(3) == 0
				id := uint32(r.Rng.Pick([]int{4, 5}))
				if multi {
					id = 0x21
				}
				data = rawFrame(id, 0, int32(1+r.Rng.Intn(1<<20)), handBody(r.Rng, multi))
				bucket = "hand-laid"
			}
		case 0: // unstructured
			data = r.Rng.Bytes(r.Rng.Pick([]int{0, 1, 3, 15, 16, 17, 31, 32, 64, 200, 1000}))
			if r.Rng.Intn(2) == 0 && len(data) >= 4 {
				binary.BigEndian.PutUint32(data, uint32(16+r.Rng.Intn(100)))
			}
			bucket = "random"
		case 1, 2: // valid header of a registered (or unknown) id, arbitrary body
			body := r.Rng.Bytes(r.Rng.Pick([]int{0, 1, 2, 5, 17, 40, 100, 300, 300 + r.Rng.Intn(4000)}))
			if r.Rng.Intn(3) == 0 {
				for j := range body {
					if r.Rng.Intn(3) == 0 {
						body[j] = 0
					}
				}
			}
			id := ids[r.Rng.Intn(len(ids))]
			data = rawFrame(id, uint32(r.Rng.Pick([]int{0, 0, 0, 1})), int32(r.Rng.Pick([]int{1, 7, -1, 0})), body)
			bucket = "header+body"
		case 3: // length lies
			body := r.Rng.Bytes(r.Rng.Pick([]int{0, 1, 20, 100}))
			data = rawFrame(ids[r.Rng.Intn(len(ids))], 0, 1, body)
			L := lies[r.Rng.Intn(len(lies))]
			if r.Rng.Intn(3) == 0 {
				L = uint32(len(data) + r.Rng.Intn(7) - 3)
			}
			binary.BigEndian.PutUint32(data, L)
			bucket = "length-lie"
		case 4: // mutated valid frame
			f, _, _ := genFrame(r.Rng, ts)
			data = append([]byte(nil), f...)
			for k := 0; k < 1+r.Rng.Intn(4); k++ {
				if len(data) > 16 {
					pos := 16 + r.Rng.Intn(len(data)-16)
					switch r.Rng.Intn(3) {
					case 0:
						data[pos] ^= 1 << uint(r.Rng.Intn(8))
					case 1:
						data[pos] = byte(r.Rng.Pick([]int{0, 1, 2, 0xFF, 0x7F}))
					default:
						data[pos] = r.Rng.Byte()
					}
				}
			}
			bucket = "mutated"
		default: // truncated / extended valid frame, length field kept or fixed up
			f, _, _ := genFrame(r.Rng, ts)
			cut := r.Rng.Intn(len(f) + 1)
			data = append([]byte(nil), f[:cut]...)
			if r.Rng.Intn(2) == 0 && cut >= 16 {
				binary.BigEndian.PutUint32(data, uint32(cut))
				bucket = "cut-body"
			} else {
				bucket = "truncated"
			}
		}
		var sched []int
		switch r.Rng.Intn(4) {
		case 0:
			sched = nil
			if len(data) > 3000 {
				sched = randomSched(r.Rng, len(data))
			}
		case 1:
			sched = []int{len(data) + 1}
		default:
			sched = randomSched(r.Rng, len(data))
		}
		if i == 1 || i == 3 {
			r.Sample(map[string]interface{}{"class": bucket, "octets": shortHex(data), "schedule": schedString(sched)})
		}
		single(data, sched, bucket)
	}
	// the largest acceptable frame and the first rejected one, with a body of TLV length lies
	big := make([]byte, 65536)
	binary.BigEndian.PutUint32(big, 65536)
	binary.BigEndian.PutUint32(big[4:], 0x80000000)
	binary.BigEndian.PutUint32(big[12:], 1)
	for i := 16; i+4 <= len(big); i += 4 {
		binary.BigEndian.PutUint16(big[i:], uint16(i))
		binary.BigEndian.PutUint16(big[i+2:], 0)
	}
	saved := caseBudget
	caseBudget = 0
	single(big, []int{70000}, "max-frame")
	binary.BigEndian.PutUint16(big[18:], 0xFFFF) // a TLV announcing 65535 octets with fewer behind it
	single(big[:40000], []int{70000}, "max-frame")
	caseBudget = saved
}

func b2i(b bool) int {
	if b {
		return 1
	}
	return 0
}
