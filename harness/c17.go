package main

import (
	"encoding/hex"
	"errors"
	"fmt"
	"strconv"
	"strings"
	"sync"

	"github.com/M2MGateway/go-smpp/coding"
	"github.com/M2MGateway/go-smpp/pdu"
)

func init() {
	corrTable["C17"] = corrC17
	replayTable["C17"] = replayText
	replayTable["C09"] = replayText
}

// ---------------------------------------------------------------- references written from the standards (not from x/text)
// (first octet, last octet, UCS of first): ISO/IEC 8859-n table 2, see coq/Spec/Iso8859.v
var refG1 = map[coding.DataCoding][][3]int{
	coding.Latin1Coding: {{0xA0, 0xFF, 0xA0}},
	coding.CyrillicCoding: {{0xA0, 0xA0, 0xA0}, {0xA1, 0xAC, 0x0401}, {0xAD, 0xAD, 0xAD}, {0xAE, 0xAF, 0x040E}, {0xB0, 0xCF, 0x0410},
		{0xD0, 0xEF, 0x0430}, {0xF0, 0xF0, 0x2116}, {0xF1, 0xFC, 0x0451}, {0xFD, 0xFD, 0xA7}, {0xFE, 0xFF, 0x045E}},
	coding.HebrewCoding: {{0xA0, 0xA0, 0xA0}, {0xA2, 0xA9, 0xA2}, {0xAA, 0xAA, 0xD7}, {0xAB, 0xB9, 0xAB}, {0xBA, 0xBA, 0xF7},
		{0xBB, 0xBE, 0xBB}, {0xDF, 0xDF, 0x2017}, {0xE0, 0xFA, 0x05D0}, {0xFD, 0xFE, 0x200E}},
}

// refSingle: what a conforming ISO 8859-n encoder does with rune r:
// 0 must be octet b, 1 (C1 control) rejected or identical octet b, 2 must be rejected.
func refSingle(c coding.DataCoding, r rune) (cls int, b byte) {
	if r <= 0x7F {
		return 0, byte(r)
	}
	for _, s := range refG1[c] {
		if int(r) >= s[2] && int(r) <= s[2]+(s[1]-s[0]) {
			return 0, byte(s[0] + int(r) - s[2])
		}
	}
	if r >= 0x80 && r <= 0x9F {
		return 1, byte(r)
	}
	return 2, 0
}

// refUTF16BE: Unicode 3.9 D91.
func refUTF16BE(r rune) []byte {
	if r < 0x10000 {
		return []byte{byte(r >> 8), byte(r)}
	}
	u := r - 0x10000
	h, l := 0xD800+u>>10, 0xDC00+u&0x3FF
	return []byte{byte(h >> 8), byte(h), byte(l >> 8), byte(l)}
}

// ---------------------------------------------------------------- the implementation under test
func implEncode(dc coding.DataCoding, s string) (out []byte, ok bool, panicked bool) {
	panicked, _ = guard(func() {
		e := dc.Encoding()
		if e == nil {
			return
		}
		b, err := e.NewEncoder().Bytes([]byte(s))
		if err == nil {
			out, ok = b, true
		}
	})
	return
}

func implDecode(dc coding.DataCoding, b []byte) (out string, ok bool, panicked bool) {
	panicked, _ = guard(func() {
		e := dc.Encoding()
		if e == nil {
			return
		}
		d, err := e.NewDecoder().Bytes(b)
		if err == nil {
			out, ok = string(d), true
		}
	})
	return
}

func coqOutBytes(b []byte, ok, panicked bool) string {
	switch {
	case panicked:
		return "Panic"
	case !ok:
		return "(Err EText)"
	}
	return "(Ok " + coqHex(b) + ")"
}
func coqOutRunes(s string, ok, panicked bool) string {
	switch {
	case panicked:
		return "Panic"
	case !ok:
		return "(Err EDecode)"
	}
	return "(Ok " + coqRunes([]rune(s)) + ")"
}

func uplus(r rune) string { return fmt.Sprintf("U+%04X", r) }

// accepted single runes per coding, from the running encoder (for generators)
type alphabet struct {
	ascii, other []rune // accepted runes below / from U+0080
	edges        []rune // first and last rune of each accepted run
	rejected     []rune // a few rejected runes next to accepted runs
}

var alphaOnce sync.Once
var alphaTab map[coding.DataCoding]*alphabet

func alphabets() map[coding.DataCoding]*alphabet {
	alphaOnce.Do(func() {
		alphaTab = map[coding.DataCoding]*alphabet{}
		var mu sync.Mutex
		var wg sync.WaitGroup
		for _, cs := range charsetList {
			wg.Add(1)
			go func(cs csInfo) {
				defer wg.Done()
				runs, _, _ := sweepEncoder(cs.dc)
				a := &alphabet{}
				for _, x := range runs {
					for r := x.lo; r <= x.hi; r++ {
						if cs.dc == coding.UCS2Coding && r > 0x3000 && r%97 != 0 && r != x.lo && r != x.hi {
							continue // thin out the 1.1M UCS-2 runes
						}
						if r < 0x80 {
							a.ascii = append(a.ascii, r)
						} else {
							a.other = append(a.other, r)
						}
					}
					a.edges = append(a.edges, x.lo, x.hi)
					for _, r := range []rune{x.lo - 1, x.hi + 1} {
						if isScalar(r) {
							if _, ok := encodeOne(cs.dc.Encoding().NewEncoder(), r); !ok {
								a.rejected = append(a.rejected, r)
							}
						}
					}
				}
				a.rejected = append(a.rejected, 0x10FFFF, 0x1F48A, 0xFFFD)
				mu.Lock()
				alphaTab[cs.dc] = a
				mu.Unlock()
			}(cs)
		}
		wg.Wait()
	})
	return alphaTab
}

// genText draws a text over the accepted alphabet of c; with bad=true one rejected rune is put in.
func genText(r *Run, a *alphabet, maxLen int, bad bool) []rune {
	n := r.Rng.Intn(maxLen + 1)
	if r.Rng.Intn(8) == 0 {
		n = r.Rng.Intn(3)
	}
	out := make([]rune, 0, n+1)
	mode := r.Rng.Intn(4) // 0 mixed, 1 mostly non-ASCII, 2 edges, 3 alternating (escape switching)
	for i := 0; i < n; i++ {
		var pool []rune
		switch {
		case mode == 2 && len(a.edges) > 0 && r.Rng.Intn(2) == 0:
			pool = a.edges
		case mode == 3:
			if i%2 == 0 || len(a.other) == 0 {
				pool = a.ascii
			} else {
				pool = a.other
			}
		case (mode == 1 && r.Rng.Intn(10) != 0 || r.Rng.Intn(2) == 0) && len(a.other) > 0:
			pool = a.other
		default:
			pool = a.ascii
		}
		if len(pool) == 0 {
			pool = a.ascii
		}
		if len(pool) == 0 {
			pool = []rune{'a'}
		}
		x := pool[r.Rng.Intn(len(pool))]
		if x == 0x1b { // ESC: RFC 1468 reserves it; out of the property's scope for ISO-2022-JP, harmless elsewhere
			x = 0x0a
		}
		out = append(out, x)
	}
	if bad && len(a.rejected) > 0 {
		x := a.rejected[r.Rng.Intn(len(a.rejected))]
		k := r.Rng.Intn(len(out) + 1)
		out = append(out[:k], append([]rune{x}, out[k:]...)...)
	}
	return out
}

// data_coding values (message-waiting / message-class groups) whose encoder behaves like that of the given table
// entry - by behaviour (gen_charsets_closure.go), not by comparing Encoding() values
func aliasesOf() map[coding.DataCoding][]coding.DataCoding {
	m := map[coding.DataCoding][]coding.DataCoding{}
	for _, cs := range charsetList {
		m[cs.dc] = aliasValues(cs.dc)
	}
	return m
}

// the outcome classes of the composing entry points, whatever the error is wrapped in
func isTooLarge(err error) bool { return errors.Is(err, pdu.ErrShortMessageTooLarge) }
func isTooMany(err error) bool  { return errors.Is(err, pdu.ErrMultipartTooMuch) }

// closureWitness: a concrete input on which data_coding dc (encoder / decoder / splitter, by `which`) behaves
// differently from the table constant base
func closureWitness(dc, base coding.DataCoding, which string) string {
	res := "no single character or probe text found (digests differ)"
	guard(func() {
		switch which {
		case "splitter":
			sa, sb := dc.Splitter(), base.Splitter()
			done := false
			sweepRunes(func(x rune) {
				if !done && sa(x) != sb(x) {
					done = true
					res = fmt.Sprintf("character %s: Splitter() charges %d bits, data_coding %d charges %d", uplus(x), sa(x), byte(base), sb(x))
				}
			})
		case "encoder":
			ea, eb := dc.Encoding().NewEncoder(), base.Encoding().NewEncoder()
			done := false
			sweepRunes(func(x rune) {
				if done {
					return
				}
				a, oka := encodeOne(ea, x)
				b, okb := encodeOne(eb, x)
				if oka != okb || string(a) != string(b) {
					done = true
					res = fmt.Sprintf("character %s: encoder gives ok=%v %x, data_coding %d gives ok=%v %x", uplus(x), oka, a, byte(base), okb, b)
				}
			})
			for _, t := range closureProbeTexts {
				if done {
					break
				}
				a, oka, _ := implEncode(dc, t)
				b, okb, _ := implEncode(base, t)
				if oka != okb || string(a) != string(b) {
					done = true
					res = fmt.Sprintf("text %q: encoder gives ok=%v %x, data_coding %d gives ok=%v %x", t, oka, a, byte(base), okb, b)
				}
			}
		case "decoder":
			eb := base.Encoding().NewEncoder()
			done := false
			sweepRunes(func(x rune) {
				if done {
					return
				}
				if b, ok := encodeOne(eb, x); ok {
					da, oka, _ := implDecode(dc, b)
					db, okb, _ := implDecode(base, b)
					if oka != okb || da != db {
						done = true
						res = fmt.Sprintf("octets %x: decoder gives ok=%v %q, data_coding %d gives ok=%v %q", b, oka, da, byte(base), okb, db)
					}
				}
			})
		}
	})
	return res
}

func corrC17(r *Run) {
	r.Import("Model.Base")
	r.Import("Model.IntervalMap")
	r.Import("Model.Charset")
	r.PerShard(120)
	r.Rule = "per coding: every Unicode scalar value as a one-character text against references written from the standards (exhaustive, direct); " +
		"random texts over the accepted alphabet of each coding (boundary runes of every accepted run, alternating scripts for escape switching, " +
		"one rejected rune in a separate stream) through encoder and decoder, each also evaluated by the Coq model; random sequences of valid codes " +
		"through the decoders; all 256 data_coding values. non-trivial = distinct non-empty (coding, text) pairs"
	waitTables := tablePerturbTest(r, "charsets")
	defer waitTables()
	codecHistoryTests(r, "C17", r.N(40, 600), r.N(6, 40))
	{ // entry points other than Bytes: String, transform.String / Append, Writer, Reader - for every coding of the table and an alias value
		var dcs []coding.DataCoding
		for _, cs := range charsetList {
			dcs = append(dcs, cs.dc)
		}
		xfEntryPointTests(r, "xf", append(dcs, 0xE0+coding.DataCoding(r.Rng.Intn(16))))
	}
	alph := alphabets()

	// ---- 1. exhaustive per-rune conformance for the codings with a standard to compare with
	for _, c := range []coding.DataCoding{coding.Latin1Coding, coding.CyrillicCoding, coding.HebrewCoding} {
		enc := c.Encoding().NewEncoder()
		name := csName(c)
		sweepRunes(func(x rune) {
			b, ok := encodeOne(enc, x)
			cls, want := refSingle(c, x)
			good := false
			switch cls {
			case 0:
				good = ok && len(b) == 1 && b[0] == want
			case 1:
				good = !ok || (len(b) == 1 && b[0] == want)
			default:
				good = !ok
			}
			if !good {
				req := map[int]string{0: fmt.Sprintf("octet %02x", want), 1: fmt.Sprintf("an error or octet %02x", want), 2: "an error (not in the code)"}[cls]
				r.Fail("exact/"+name+"/"+uplus(x), "encoder output differs from the standard's code table",
					fmt.Sprintf("encode %d %s", byte(c), hex.EncodeToString([]byte(string(x)))), fmt.Sprintf("ok=%v octets=%x", ok, b), req)
			}
		})
		r.Count("sweep/"+name, true, "exhaustive per-rune sweep "+name)
		r.Evaluations += 1112064 - 1
	}
	{
		enc := coding.UCS2Coding.Encoding().NewEncoder()
		sweepRunes(func(x rune) {
			b, ok := encodeOne(enc, x)
			if want := refUTF16BE(x); !ok || string(b) != string(want) {
				r.Fail("exact/ucs2/"+uplus(x), "encoder output is not UTF-16BE without BOM",
					fmt.Sprintf("encode 8 %s", hex.EncodeToString([]byte(string(x)))), fmt.Sprintf("ok=%v octets=%x", ok, b), fmt.Sprintf("octets %x", want))
			}
		})
		r.Count("sweep/ucs2", true, "exhaustive per-rune sweep ucs2")
		r.Evaluations += 1112064 - 1
		enc = coding.ASCIICoding.Encoding().NewEncoder()
		for x := rune(0); x < 0x80; x++ {
			b, ok := encodeOne(enc, x)
			if !ok || len(b) != 1 || b[0] != byte(x) {
				r.Fail("exact/ascii/"+uplus(x), "ASCII text is not encoded as the identical octet",
					fmt.Sprintf("encode 1 %s", hex.EncodeToString([]byte(string(x)))), fmt.Sprintf("ok=%v octets=%x", ok, b), fmt.Sprintf("octet %02x", x))
			}
		}
		r.Count("sweep/ascii", true, "exhaustive per-rune sweep ascii")
	}
	// ---- 2. exhaustive per-rune round trip for the multi-octet codings
	for _, c := range []coding.DataCoding{coding.ShiftJISCoding, coding.EUCJPCoding, coding.EUCKRCoding, coding.ISO2022JPCoding} {
		_, bad, _ := sweepEncoder(c)
		for _, x := range bad {
			if c == coding.ISO2022JPCoding && (x == 0x1b || x == 0x0e || x == 0x0f) {
				continue // reserved by RFC 1468, excluded by the property
			}
			b, _ := encodeOne(c.Encoding().NewEncoder(), x)
			d, _, _ := implDecode(c, b)
			r.Fail("roundtrip/"+csName(c)+"/"+uplus(x), "an accepted character does not survive encode then decode",
				fmt.Sprintf("encode %d %s", byte(c), hex.EncodeToString([]byte(string(x)))), fmt.Sprintf("octets=%x decoded=%q", b, d), fmt.Sprintf("decoded=%q", string(x)))
		}
		r.Count("rt-sweep/"+csName(c), true, "exhaustive per-rune round trip "+csName(c))
		r.Evaluations += 1112064 - 1
	}
	// ---- 3. availability, all 256 data_coding values
	for b := 0; b < 256; b++ {
		c := coding.DataCoding(b)
		e := c.Encoding()
		hasEnc, hasDec := false, false
		if e != nil {
			hasEnc, hasDec = e.NewEncoder() != nil, e.NewDecoder() != nil
		}
		hasSpl := c.Splitter() != nil
		r.Count(fmt.Sprintf("avail/%d", b), hasEnc, "data_coding value")
		if hasEnc && !(hasDec && hasSpl) {
			r.Fail(fmt.Sprintf("availability/dc=%d", b), "data_coding has an encoder but no decoder or no splitter",
				fmt.Sprintf("avail %d", b), fmt.Sprintf("encoder=%v decoder=%v splitter=%v", hasEnc, hasDec, hasSpl), "decoder and splitter present")
		}
		r.Case(fmt.Sprintf("availability %d", b), fmt.Sprintf("Bool.eqb (has_encoder %d) %s && Bool.eqb (has_decoder %d) %s && Bool.eqb (has_splitter %d) %s",
			b, coqBool(hasEnc), b, coqBool(hasDec), b, coqBool(hasSpl)))
	}
	// ---- 3b. closure, all 256 data_coding values: a value with an encoder has the decoder and the splitter OF THE SAME
	// coding - each of the three is classified by its behaviour (gen_charsets_closure.go), independently of how
	// Encoding() / Splitter() find them.  A splitter that is present but belongs to another coding makes the
	// multipart estimate wrong for that value (parts half empty, or texts refused as too large).
	{
		tab := dcClosure()
		for b := 0; b < 256; b++ {
			cl := tab[b]
			if cl.enc == clsNone {
				continue
			}
			in := fmt.Sprintf("closure %d", b)
			r.Count(in, true, "data_coding value with an encoder: closure")
			r.Case(in, fmt.Sprintf("closure_row_eq %d (%d, %d, %d)", b, cl.enc, cl.dec, cl.spl))
			// the coding the library itself declares for a message-waiting / message-class value (its public accessors)
			declared, grouped := coding.NoCoding, false
			guard(func() {
				if c, _, kind := coding.DataCoding(b).MessageWaitingInfo(); kind != -1 {
					declared, grouped = c, true
				} else if c, class := coding.DataCoding(b).MessageClass(); class != -1 {
					declared, grouped = c, true
				}
			})
			if grouped && tab[byte(declared)].enc != clsNone && cl.enc != tab[byte(declared)].enc {
				r.Fail(fmt.Sprintf("closure/dc=%d/encoder-not-of-the-declared-coding", b), "the encoder of this message-waiting / message-class value is not that of the coding the value denotes",
					in, fmt.Sprintf("MessageWaitingInfo/MessageClass say data_coding %d; %s", byte(declared), closureWitness(coding.DataCoding(b), declared, "encoder")), "the encoder of that coding")
				continue
			}
			if cl.enc == clsOther {
				r.Fail(fmt.Sprintf("closure/dc=%d/encoder-of-no-table-coding", b), "the encoder of this data_coding value behaves like none of the ten codings of the table",
					in, "encoder class 254", "the encoder of one of the table's codings")
				continue
			}
			base := coding.DataCoding(cl.enc)
			bcl := tab[cl.enc]
			if cl.dec != bcl.dec && cl.dec != clsNone {
				r.Fail(fmt.Sprintf("closure/dc=%d/decoder-of-another-coding", b), "the decoder of this data_coding value is not the one matching its encoder",
					in, fmt.Sprintf("encoder behaves like data_coding %d; %s", cl.enc, closureWitness(coding.DataCoding(b), base, "decoder")), "the decoder of the same coding")
			}
			if cl.spl != bcl.spl && cl.spl != clsNone {
				r.Fail(fmt.Sprintf("closure/dc=%d/splitter-of-another-coding", b), "the splitter of this data_coding value is not the one matching its encoder",
					in, fmt.Sprintf("encoder behaves like data_coding %d; %s", cl.enc, closureWitness(coding.DataCoding(b), base, "splitter")), "the splitter of the same coding")
			}
		}
	}
	// ---- 4. texts: encode / decode on the implementation and on the model
	aliases := aliasesOf()
	perCoding := r.N(70, 650)
	for _, cs := range charsetList {
		a := alph[cs.dc]
		for i := 0; i < perCoding; i++ {
			bad := i%9 == 8
			text := genText(r, a, 40, bad)
			dc := cs.dc
			if al := aliases[cs.dc]; len(al) > 0 && r.Rng.Intn(5) == 0 {
				dc = al[r.Rng.Intn(len(al))]
			}
			s := string(text)
			in := fmt.Sprintf("encode %d %s", byte(dc), hex.EncodeToString([]byte(s)))
			out, ok, pan := implEncode(dc, s)
			bucket := cs.name + " text"
			if bad {
				bucket = cs.name + " text with a rejected rune"
			}
			r.Count(in, len(text) > 0, bucket)
			if i < 1 {
				r.Sample(map[string]interface{}{"op": "encode", "data_coding": byte(dc), "text": s, "octets": hex.EncodeToString(out), "accepted": ok})
			}
			if pan {
				r.Fail("text/"+cs.name+"/encoder-panic", "encoder panicked", in, "panic", "octets or an error")
			}
			directTextCheck(r, cs, in, text, out, ok)
			r.Case(in, fmt.Sprintf("same_out (encode_dc %d %s) %s", byte(dc), coqRunes(text), coqOutBytes(out, ok, pan)))
			if ok {
				din := fmt.Sprintf("decode %d %s", byte(dc), hex.EncodeToString(out))
				d, dok, dpan := implDecode(dc, out)
				r.Count(din, len(out) > 0, cs.name+" decode of encoder output")
				if dpan || !dok {
					r.Fail("text/"+cs.name+"/decoder-fails", "decoder failed on encoder output", din, fmt.Sprintf("ok=%v panic=%v", dok, dpan), "the text")
				} else if cs.dc != coding.ASCIICoding && d != s {
					r.Fail("roundtrip/"+cs.name+"/text", "an accepted text does not survive encode then decode", in, fmt.Sprintf("octets=%x decoded=%q", out, d), fmt.Sprintf("decoded=%q", s))
				}
				r.Case(din, fmt.Sprintf("same_out (decode_dc %d %s) %s", byte(dc), coqHex(out), coqOutRunes(d, dok, dpan)))
			}
		}
	}
	// ---- 4a'. long texts (a block of 9..40 runes repeated up to 300..1500 runes): the step from characters to whole texts
	// (the encoders work character by character, ISO-2022-JP as the three-state machine) also for texts far beyond 40 runes
	for _, cs := range charsetList {
		a := alph[cs.dc]
		for k, nk := 0, r.N(1, 4); k < nk; k++ {
			block := genText(r, a, 31, false)
			for len(block) < 9 {
				block = append(block, genText(r, a, 9, false)...)
			}
			reps := (300 + r.Rng.Intn(1200)) / len(block)
			var text []rune
			for i := 0; i < reps; i++ {
				text = append(text, block...)
			}
			txt := fmt.Sprintf("(List.concat (List.repeat %s %d%%nat))", coqRunes(block), reps)
			sx := string(text)
			in := fmt.Sprintf("encode %d %s", byte(cs.dc), hex.EncodeToString([]byte(sx)))
			out, ok, pan := implEncode(cs.dc, sx)
			r.Count(in, true, cs.name+" long text")
			if pan {
				r.Fail("text/"+cs.name+"/encoder-panic", "encoder panicked", in, "panic", "octets or an error")
			}
			directTextCheck(r, cs, in, text, out, ok)
			r.Case(clip(in, 70), fmt.Sprintf("same_out (encode_dc %d %s) %s", byte(cs.dc), txt, coqOutBytes(out, ok, pan)))
			if ok {
				d, dok, dpan := implDecode(cs.dc, out)
				if dpan || !dok {
					r.Fail("text/"+cs.name+"/decoder-fails", "decoder failed on encoder output", in, fmt.Sprintf("ok=%v panic=%v", dok, dpan), "the text")
				} else if cs.dc != coding.ASCIICoding && d != sx {
					r.Fail("roundtrip/"+cs.name+"/text", "an accepted text does not survive encode then decode", in, fmt.Sprintf("%d octets, decoded %d runes", len(out), len([]rune(d))), "the text")
				}
				want := coqOutRunes(d, dok, dpan)
				if dok && d == sx {
					want = "(Ok " + txt + ")"
				}
				r.Case(clip("decode of "+in, 70), fmt.Sprintf("same_out (decode_dc %d %s) %s", byte(cs.dc), coqHex(out), want))
			}
		}
	}
	// observations outside the statement (audit B3): which coding the message-class / message-waiting values are given
	{
		tab := dcClosure()
		note := func(lo, hi int) string {
			cl := tab[lo]
			same := true
			for b := lo; b <= hi; b++ {
				same = same && tab[b] == cl
			}
			what := "no encoder"
			if cl.enc != clsNone {
				what = fmt.Sprintf("the codec of data_coding %d", cl.enc)
			}
			if !same {
				what = "mixed"
			}
			return fmt.Sprintf("0x%02X-0x%02X: %s", lo, hi, what)
		}
		r.Notes = append(r.Notes, "observation outside C17 (which coding an alias value is given is not specified by the property): "+
			note(0xC0, 0xCF)+" (GSM 03.38: discard message, default alphabet); "+note(0xD0, 0xDF)+"; "+note(0xE0, 0xEF)+"; "+
			note(0xF0, 0xF3)+"; "+note(0xF4, 0xF7)+" (GSM 03.38: 8-bit data); "+note(0xF8, 0xFB)+"; "+note(0xFC, 0xFF))
	}
	// ---- 4b. every entry point that encodes: Encoder (above), ShortMessage.Compose, ComposeMultipartShortMessage
	for _, t := range []string{"Łódź", "Dvořák", "Ґ", "ְשלום", "日本©", "가¢", "Ā", "naïve café", "Жук", "שלום", "日本語", "안녕", "\U0001F48A", "€uro", "a\u0085b"} {
		entryPoints(r, t, []coding.DataCoding{coding.Latin1Coding, coding.CyrillicCoding, coding.HebrewCoding, coding.UCS2Coding, coding.ShiftJISCoding, coding.EUCKRCoding}, "corpus")
	}
	nEP := r.N(14, 170)
	for _, d := range detectList {
		if d.dc == coding.GSM7BitCoding || d.dc == coding.ASCIICoding {
			continue
		}
		a := alph[d.dc]
		bad := badSet(d.dc) // runes the detector's table admits for this coding although its encoder rejects them
		for i := 0; i < nEP; i++ {
			ln := 40
			if i%4 == 3 {
				ln = 400 // several segments
			}
			text := genText(r, a, ln, false)
			if i%3 != 2 && len(bad) > 0 {
				for k, n := 0, 1+r.Rng.Intn(2); k < n; k++ {
					x := bad[r.Rng.Intn(len(bad))]
					at := r.Rng.Intn(len(text) + 1)
					text = append(text[:at], append([]rune{x.lo + rune(r.Rng.Intn(int(x.hi-x.lo)+1))}, text[at:]...)...)
				}
			}
			dcs := []coding.DataCoding{d.dc}
			if i%5 == 0 {
				dcs = append(dcs, coding.UCS2Coding, coding.ISO2022JPCoding, coding.EUCJPCoding)
				if al := aliases[coding.UCS2Coding]; len(al) > 0 { // a message-waiting / message-class value that carries UCS-2
					dcs = append(dcs, al[r.Rng.Intn(len(al))])
				}
			}
			entryPoints(r, string(text), dcs, d.name+" text")
		}
	}
	// ---- 4c. segment boundaries: control characters / U+007F / U+0080..U+00A0 at every offset around the cut, every
	// coding whose characters have more than one width; each part is decoded on its own
	wide := []coding.DataCoding{coding.ShiftJISCoding, coding.EUCJPCoding, coding.EUCKRCoding, coding.ISO2022JPCoding, coding.UCS2Coding}
	specials := []rune{0x7F, 0x00, 0x0A, 0x1F, 0x7E, 0x20, 0x80, 0x85, 0xA0, 0xFF71, 0x1F48A}
	if al := aliases[coding.UCS2Coding]; len(al) > 0 {
		wide = append(wide, al[r.Rng.Intn(len(al))], al[r.Rng.Intn(len(al))])
	}
	for _, dc := range wide {
		a := alph[dc]
		if b, ok := encBaseOf(dc); ok && a == nil {
			a = alph[b]
		}
		if a == nil {
			continue
		}
		var two []rune // characters of two octets
		enc := dc.Encoding().NewEncoder()
		for _, x := range a.other {
			if b, ok := encodeOne(enc, x); ok && (len(b) == 2 || dc == coding.ISO2022JPCoding && len(b) == 8) && x > 0x2000 {
				two = append(two, x)
			}
			if len(two) > 400 {
				break
			}
		}
		if len(two) == 0 {
			continue
		}
		for _, sp := range specials {
			if _, ok := encodeOne(enc, sp); !ok {
				continue
			}
			var offsets []int
			if r.Quick {
				offsets = []int{58 + r.Rng.Intn(5), 63 + r.Rng.Intn(3), 66, 67, 68 + r.Rng.Intn(4)}
				if dc == coding.ISO2022JPCoding {
					offsets = []int{10 + r.Rng.Intn(40), 55 + r.Rng.Intn(12)}
				}
			} else {
				for o := 20; o <= 72; o++ {
					if _, isBase := alph[dc]; !isBase && o%4 != 0 && (o < 62 || o > 70) {
						continue // alias values: every offset around the cut, every 4th elsewhere
					}
					offsets = append(offsets, o)
				}
			}
			for _, off := range offsets {
				total := 90 + r.Rng.Intn(60)
				text := make([]rune, 0, total+2)
				for k := 0; k < total; k++ {
					text = append(text, two[r.Rng.Intn(len(two))])
				}
				text = append(text[:off], append([]rune{sp}, text[off:]...)...)
				if r.Rng.Intn(3) == 0 { // a second one further on
					o2 := off + 1 + r.Rng.Intn(70)
					if o2 < len(text) {
						text = append(text[:o2], append([]rune{sp}, text[o2:]...)...)
					}
				}
				s := string(text)
				checkMultipart(r, s, dc, fmt.Sprintf("%s: %s at a segment boundary", csName(dc), uplus(sp)),
					fmt.Sprintf("multipart %d %s", byte(dc), hex.EncodeToString([]byte(s))), "")
			}
		}
	}
	// ---- 4d. histories through the entry points: accepted, rejected as too large / for a rune outside the code, again
	{
		kanji := func(n int) string { return strings.Repeat("日本語", (n+2)/3)[:3*n] }
		jp := coding.ISO2022JPCoding
		corpus := [][]entryStep{
			{{jp, "日本"}, {jp, kanji(68)}, {jp, "日本"}},
			{{jp, "こんにちは"}, {jp, kanji(300)}, {jp, "こんにちは"}, {jp, "abc"}},
			{{jp, "ｱｲｳ"}, {jp, kanji(69)}, {jp, "ｱｲｳ"}, {jp, "日本Ж"}, {jp, "日本"}},
			{{coding.ShiftJISCoding, "日本"}, {coding.ShiftJISCoding, kanji(300)}, {coding.ShiftJISCoding, "日本€"}, {coding.ShiftJISCoding, "日本"}},
			{{coding.EUCKRCoding, "안녕"}, {coding.EUCKRCoding, "안녕Ж\u0100"}, {coding.EUCKRCoding, "안녕"}},
		}
		for _, h := range corpus {
			entryHistory(r, h, "history corpus")
		}
		nH := r.N(10, 140)
		for _, cs := range charsetList {
			a := alph[cs.dc]
			for i := 0; i < nH; i++ {
				short := string(genText(r, a, 20, false))
				if cs.kind == 3 || cs.kind == 1 { // start on a wide character so that a lost escape sequence shows
					if len(a.other) > 0 {
						short = string(a.other[r.Rng.Intn(len(a.other))]) + short
					}
				}
				var long []rune
				for k, n := 0, 66+r.Rng.Intn(10); k < n && len(a.other) > 0; k++ {
					long = append(long, a.other[r.Rng.Intn(len(a.other))])
				}
				if i%3 == 0 {
					for len(long) < 200+r.Rng.Intn(200) && len(a.other) > 0 {
						long = append(long, a.other[r.Rng.Intn(len(a.other))])
					}
				}
				steps := []entryStep{{cs.dc, short}, {cs.dc, string(long)}, {cs.dc, short}}
				if i%2 == 0 {
					steps = append(steps, entryStep{cs.dc, string(genText(r, a, 20, true))}, entryStep{cs.dc, short})
				}
				entryHistory(r, steps, cs.name+" history")
			}
		}
	}
	// ---- 5. decoders on random sequences of valid codes (not only encoder images)
	nSeq := r.N(25, 300)
	for _, cs := range charsetList {
		if cs.kind != 1 {
			continue
		}
		codes := validCodes(cs.dc)
		for i := 0; i < nSeq && len(codes) > 0; i++ {
			var b []byte
			for k, n := 0, r.Rng.Intn(24); k < n; k++ {
				b = append(b, codes[r.Rng.Intn(len(codes))]...)
			}
			din := fmt.Sprintf("decode %d %s", byte(cs.dc), hex.EncodeToString(b))
			d, dok, dpan := implDecode(cs.dc, b)
			r.Count(din, len(b) > 0, cs.name+" decode of a random code sequence")
			if dpan || !dok {
				r.Fail("text/"+cs.name+"/decoder-fails", "decoder failed on a sequence of valid codes", din, fmt.Sprintf("ok=%v panic=%v", dok, dpan), "a text")
			}
			r.Case(din, fmt.Sprintf("same_out (decode_dc %d %s) %s", byte(cs.dc), coqHex(b), coqOutRunes(d, dok, dpan)))
		}
	}
}

// conformsText: do the octets stored for text s under data_coding dc satisfy C17?  "" when they do, else
// (class suffix, required).  GSM 7-bit (C08/C09) is out of scope here.
func conformsText(dc coding.DataCoding, s string, octets []byte) (cls, required string) {
	base := dc
	if b, ok := encBaseOf(dc); ok { // by behaviour of the encoder, not by identity of the Encoding value
		base = b
	}
	if dc == coding.Latin1Coding {
		base = dc
	}
	switch base {
	case coding.Latin1Coding, coding.CyrillicCoding, coding.HebrewCoding, coding.ASCIICoding:
		var want []byte
		for _, x := range s {
			var c int
			var b byte
			if base == coding.ASCIICoding {
				if x > 0x7F {
					return "", "" // nothing is claimed beyond U+007F
				}
				c, b = 0, byte(x)
			} else {
				c, b = refSingle(base, x)
			}
			if c == 2 {
				return "altered-instead-of-rejected", fmt.Sprintf("an error: %s is not in the code", uplus(x))
			}
			want = append(want, b)
		}
		if string(want) != string(octets) {
			return "wrong-octets", fmt.Sprintf("octets %x", want)
		}
	case coding.UCS2Coding:
		var want []byte
		for _, x := range s {
			want = append(want, refUTF16BE(x)...)
		}
		if string(want) != string(octets) {
			return "wrong-octets", fmt.Sprintf("octets %x", want)
		}
	case coding.ShiftJISCoding, coding.EUCJPCoding, coding.EUCKRCoding, coding.ISO2022JPCoding:
		if strings.ContainsRune(s, 0x1b) && base == coding.ISO2022JPCoding {
			return "", ""
		}
		d, ok, pan := implDecode(dc, octets)
		if pan || !ok || d != s {
			return "altered", fmt.Sprintf("octets that decode to %q (or an error)", s)
		}
	}
	return "", ""
}

// entryPoints: the same text through every public entry point that encodes.  A text the coding cannot
// represent must come back as an error from each of them - never as octets that mean something else.
func entryPoints(r *Run, s string, dcs []coding.DataCoding, bucket string) {
	runes := []rune(s)
	hx := hex.EncodeToString([]byte(s))
	// ShortMessage.Compose (coding chosen by BestCoding)
	{
		in := "compose " + hx
		var m pdu.ShortMessage
		var err error
		pan, _ := guard(func() { err = m.Compose(s) })
		r.Count(in, len(s) > 0, bucket+": Compose")
		if pan {
			r.Fail("compose/panic", "Compose panicked", in, "panic", "a message or an error")
		} else if err == nil && m.DataCoding != coding.GSM7BitCoding {
			name := csName(m.DataCoding)
			if cls, req := conformsText(m.DataCoding, s, m.Message); cls != "" {
				r.Fail("compose/"+name+"/"+cls, "Compose stored octets that are not the coding's encoding of the text (altered, not rejected)",
					in, fmt.Sprintf("data_coding=%d octets=%x", byte(m.DataCoding), m.Message), req)
			}
			r.Case(in, fmt.Sprintf("same_out (encode_dc %d %s) (Ok %s)", byte(m.DataCoding), coqRunes(runes), coqHex(m.Message)))
		}
	}
	// ComposeMultipartShortMessage (coding given by the caller)
	for _, dc := range dcs {
		if dc.Encoding() == nil || dc == coding.GSM7BitCoding {
			continue
		}
		checkMultipart(r, s, dc, bucket, fmt.Sprintf("multipart %d %s", byte(dc), hx), "")
	}
}

// checkMultipart: one ComposeMultipartShortMessage call checked against C17; `in` is the replayable input (for a
// history: all calls so far), `where` names the step.  Returns a signature of the result (error class or the parts)
// so that histories can compare repeated calls.
func checkMultipart(r *Run, s string, dc coding.DataCoding, bucket, in, where string) (sig string) {
	runes := []rune(s)
	var parts []pdu.ShortMessage
	var err error
	pan, _ := guard(func() { parts, err = pdu.ComposeMultipartShortMessage(s, dc, 0x1234) })
	r.Count(in, len(s) > 0, bucket+": ComposeMultipartShortMessage")
	name := csName(dc)
	if pan {
		r.Fail("multipart/"+name+"/panic", "ComposeMultipartShortMessage panicked", in, where+"panic", "parts or an error")
		return "panic"
	}
	_, rejected := firstRejected(dc, s)
	if err != nil {
		if !rejected && !isTooLarge(err) && !isTooMany(err) {
			r.Fail("multipart/"+name+"/rejected-representable-text", "a text the coding can represent was rejected", in, fmt.Sprintf("%serror %v", where, err), "parts")
		}
		if rejected {
			r.Case(in+" "+where, fmt.Sprintf("same_out (encode_dc %d %s) (Err EText)", byte(dc), coqRunes(runes)))
			return "err:text"
		}
		if isTooLarge(err) {
			return "err:too-large"
		} else if isTooMany(err) {
			return "err:too-many"
		}
		return "err:other"
	}
	// each part carries a segment and is decoded on its own by the receiver; together they must be the text
	var all []byte
	var back strings.Builder
	for _, p := range parts {
		all = append(all, p.Message...)
		d, _, _ := implDecode(dc, p.Message)
		back.WriteString(d)
		sig += hex.EncodeToString(p.Message) + "|"
	}
	cls, req := "", ""
	if dc != coding.ISO2022JPCoding {
		cls, req = conformsText(dc, s, all)
	}
	outOfScope := (dc == coding.ISO2022JPCoding && strings.ContainsRune(s, 0x1b)) || (csName(dc) == "ascii" && strings.IndexFunc(s, func(x rune) bool { return x > 0x7F }) >= 0)
	if cls == "" && !outOfScope && back.String() != s {
		cls, req = "parts-do-not-decode-to-the-text", fmt.Sprintf("parts that decode, each on its own, to %q", s)
	}
	if cls != "" {
		obs := fmt.Sprintf("%s%d parts:", where, len(parts))
		for _, p := range parts {
			d, _, _ := implDecode(dc, p.Message)
			obs += fmt.Sprintf(" [%x -> %q]", p.Message, d)
			if len(obs) > 700 {
				obs += " ..."
				break
			}
		}
		r.Fail("multipart/"+name+"/"+cls, "ComposeMultipartShortMessage produced parts that are not the coding's encoding of the text", in, obs, req)
	}
	if dc != coding.ISO2022JPCoding || len(parts) == 1 {
		r.Case(in+" "+where, fmt.Sprintf("same_out (encode_dc %d %s) (Ok %s)", byte(dc), coqRunes(runes), coqHex(all)))
	}
	return
}

// entryHistory: a sequence of calls through the encoding entry points in one process - accepted texts, texts rejected as
// too large or for a rune outside the code, the same text again.  Every call is checked as if it were the first
// (the model encodes from the initial state), and a repeated call must give what it gave before.
type entryStep struct {
	dc   coding.DataCoding
	text string
}

func entryHistory(r *Run, steps []entryStep, bucket string) {
	in := "multipart-history"
	seen := map[string]string{}
	for k, st := range steps {
		in += fmt.Sprintf(" %d:%s", byte(st.dc), hex.EncodeToString([]byte(st.text)))
		where := fmt.Sprintf("call %d of %d (data_coding %d, %q): ", k+1, len(steps), byte(st.dc), clip(st.text, 24))
		sig := checkMultipart(r, st.text, st.dc, bucket, in, where)
		key := fmt.Sprintf("%d:%s", byte(st.dc), st.text)
		if old, ok := seen[key]; ok && old != sig {
			r.Fail("multipart-history/"+csName(st.dc)+"/result-depends-on-earlier-calls", "the same call gives a different result after other calls",
				in, where+clip(sig, 300), "the earlier result "+clip(old, 300))
		}
		seen[key] = sig
	}
}

func clip(s string, n int) string {
	rs := []rune(s)
	if len(rs) <= n {
		return s
	}
	return string(rs[:n]) + "…"
}

func csName(c coding.DataCoding) string {
	for _, cs := range charsetList {
		if cs.dc == c {
			return cs.name
		}
	}
	return fmt.Sprintf("dc%d", byte(c))
}

// directTextCheck: the property on a whole text, against the references.
func directTextCheck(r *Run, cs csInfo, in string, text []rune, out []byte, ok bool) {
	switch cs.dc {
	case coding.Latin1Coding, coding.CyrillicCoding, coding.HebrewCoding, coding.ASCIICoding:
		var want []byte
		must, reject := true, false
		for _, x := range text {
			var cls int
			var b byte
			if cs.dc == coding.ASCIICoding {
				if x > 0x7F {
					return // nothing is claimed beyond U+007F
				}
				cls, b = 0, byte(x)
			} else {
				cls, b = refSingle(cs.dc, x)
			}
			want = append(want, b)
			if cls == 1 {
				must = false
			}
			if cls == 2 {
				reject = true
			}
		}
		switch {
		case reject && ok:
			r.Fail("text/"+cs.name+"/not-rejected", "a text outside the standard's repertoire was accepted", in, fmt.Sprintf("octets=%x", out), "an error")
		case !reject && must && !ok:
			r.Fail("text/"+cs.name+"/rejected", "a text the standard can represent was rejected", in, "error", fmt.Sprintf("octets %x", want))
		case !reject && ok && string(out) != string(want):
			r.Fail("text/"+cs.name+"/wrong-octets", "the octets are not the standard's encoding of the text", in, fmt.Sprintf("octets=%x", out), fmt.Sprintf("octets %x", want))
		}
	case coding.UCS2Coding:
		var want []byte
		for _, x := range text {
			want = append(want, refUTF16BE(x)...)
		}
		if !ok || string(out) != string(want) {
			r.Fail("text/ucs2/wrong-octets", "the octets are not the UTF-16BE encoding of the text", in, fmt.Sprintf("ok=%v octets=%x", ok, out), fmt.Sprintf("octets %x", want))
		}
	}
}

var validCodeCache = map[coding.DataCoding][][]byte{}

func validCodes(c coding.DataCoding) [][]byte {
	if v, ok := validCodeCache[c]; ok {
		return v
	}
	runs, _, _ := sweepEncoder(c)
	lead3 := map[byte]bool{}
	for _, x := range runs {
		if x.n == 3 {
			lead3[byte(x.v>>16)] = true
		}
	}
	dec, _ := sweepDecoderMB(c, lead3)
	var out [][]byte
	for _, d := range dec {
		for k := d.lo; k <= d.hi; k++ {
			b := make([]byte, d.n)
			for i := 0; i < d.n; i++ {
				b[i] = byte(k >> (8 * uint(d.n-1-i)))
			}
			out = append(out, b)
		}
	}
	validCodeCache[c] = out
	return out
}

// replayText re-runs a recorded input line:  encode <dc> <utf8 hex> | decode <dc> <hex> | avail <dc> | best <utf8 hex> | compose <utf8 hex>
func replayText(arg string) string {
	f := strings.Fields(arg)
	if len(f) < 2 {
		return "unrecognised input: " + arg
	}
	num := func(s string) coding.DataCoding { n, _ := strconv.Atoi(s); return coding.DataCoding(n) }
	switch f[0] {
	case "encode":
		raw := []byte{}
		if len(f) > 2 {
			raw, _ = hex.DecodeString(f[2])
		}
		out, ok, pan := implEncode(num(f[1]), string(raw))
		res := fmt.Sprintf("text=%q accepted=%v panic=%v octets=%x", raw, ok, pan, out)
		if ok {
			d, _, _ := implDecode(num(f[1]), out)
			res += fmt.Sprintf(" decoded=%q", d)
		}
		return res
	case "decode":
		raw := []byte{}
		if len(f) > 2 {
			raw, _ = hex.DecodeString(f[2])
		}
		d, ok, pan := implDecode(num(f[1]), raw)
		return fmt.Sprintf("ok=%v panic=%v decoded=%q", ok, pan, d)
	case "closure":
		c := num(f[1])
		cl := dcClosure()[byte(c)]
		res := fmt.Sprintf("data_coding %d: encoder like %d, decoder like %d, splitter like %d (255 none, 254 like no table constant)", byte(c), cl.enc, cl.dec, cl.spl)
		if cl.enc < clsOther {
			b := coding.DataCoding(cl.enc)
			res += "; decoder: " + closureWitness(c, b, "decoder") + "; splitter: " + closureWitness(c, b, "splitter")
		}
		return res
	case "avail":
		c := num(f[1])
		return fmt.Sprintf("encoding=%v splitter=%v", c.Encoding() != nil, c.Splitter() != nil)
	}
	if fn, ok := replayExtra[f[0]]; ok {
		return fn(f)
	}
	return "unrecognised input: " + arg
}

var replayExtra = map[string]func(f []string) string{}
