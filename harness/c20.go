package main

import (
	"encoding/json"
	"fmt"
	"os"

	"github.com/M2MGateway/go-smpp/pdu"
)

func init() { corrTable["C20"] = corrC20 }

func coqEsm(e pdu.ESMClass) string {
	return fmt.Sprintf("{| e_mode := %d; e_type := %d; e_udhi := %s; e_reply := %s |}", e.MessageMode, e.MessageType, coqBool(e.UDHIndicator), coqBool(e.ReplyPath))
}
func coqRegdel(d pdu.RegisteredDelivery) string {
	return fmt.Sprintf("{| r_mc := %d; r_sme := %d; r_inter := %s; r_rsv := %d |}", d.MCDeliveryReceipt, d.SMEOriginatedAcknowledgment, coqBool(d.IntermediateNotification), d.Reserved)
}

func corrC20(r *Run) {
	r.Import("Model.Flags")
	r.Rule = "octet codecs: all 256 octets per codec (exhaustive) + random unnormalised structs for the encoders; " +
		"absolute time strings: the full product of boundary values of every component (year 00/01/96/99, every month, day 1/28-31, hour 0/23, " +
		"minute and second 0/59, tenth 0/9, offset 0/1/48, both signs; impossible dates included as malformed input) + random valid strings + a malformed stream; " +
		"instants: both ends of the representable local range in each of the 97 zones, leap days, random interior, a few far outside; " +
		"periods: unit boundaries +-0.1 s, dense low grid, coarse grid over the whole range, random; " +
		"non-trivial = distinct op lines other than octet 0 / the empty string"
	// --- direct tests on the implementation, exhaustive over octets
	for b := 0; b < 256; b++ {
		var e pdu.ESMClass
		_ = e.WriteByte(byte(b))
		c, _ := e.ReadByte()
		r.Count(fmt.Sprintf("esm/%d", b), b != 0, "esm_class octet")
		wantMode, wantType := byte(b)&3, byte(b)>>2&15
		if int(c) != b || e.MessageMode != wantMode || e.MessageType != wantType ||
			e.UDHIndicator != (b&0x40 != 0) || e.ReplyPath != (b&0x80 != 0) {
			r.Fail(fmt.Sprintf("esm_class/octet=%d", b), "esm_class decode/encode is not the identity at the SMPP bit positions",
				fmt.Sprintf("esm %d", b), fmt.Sprintf("decoded=%+v re-encoded=%d", e, c),
				fmt.Sprintf("mode=%d type=%d udhi=%v reply=%v re-encoded=%d", wantMode, wantType, b&0x40 != 0, b&0x80 != 0, b))
		}
		var d pdu.RegisteredDelivery
		_ = d.WriteByte(byte(b))
		c, _ = d.ReadByte()
		r.Count(fmt.Sprintf("regdel/%d", b), b != 0, "registered_delivery octet")
		if int(c) != b || d.MCDeliveryReceipt != byte(b)&3 || d.SMEOriginatedAcknowledgment != byte(b)>>2&3 ||
			d.IntermediateNotification != (b&0x10 != 0) || d.Reserved != byte(b)>>5 {
			r.Fail(fmt.Sprintf("registered_delivery/octet=%d", b), "registered_delivery decode/encode is not the identity at the SMPP bit positions",
				fmt.Sprintf("regdel %d", b), fmt.Sprintf("decoded=%+v re-encoded=%d", d, c), fmt.Sprintf("re-encoded=%d", b))
		}
		v := pdu.InterfaceVersion(b)
		data, err := json.Marshal(v)
		var v2 pdu.InterfaceVersion
		if err == nil {
			err = json.Unmarshal(data, &v2)
		}
		r.Count(fmt.Sprintf("ifver/%d", b), b != 0, "interface_version octet")
		if err != nil || v2 != v {
			r.Fail(fmt.Sprintf("interface_version/octet=%d", b), "interface_version does not survive its JSON text form",
				fmt.Sprintf("ifver %d", b), fmt.Sprintf("json=%s back=%d err=%v", data, v2, err), fmt.Sprintf("back=%d", b))
		}
		// model cases.  The property fixes the round trip, not the text: the text form is an advisory case.
		r.Advisory(fmt.Sprintf("ifver_to_json %d", b), fmt.Sprintf("beq_bytes (ifver_to_json %d) %s && beq_opt N.eqb (ifver_of_json %s) (Some %d)", b, coqHex(data), coqHex(data), v2))
		// the decoders on each octet (ties esm_of_byte / regdel_of_byte outside the tables as well)
		r.Case(fmt.Sprintf("esm_of_byte %d", b), fmt.Sprintf("beq_esm (esm_of_byte %d) %s", b, coqEsm(e)))
		r.Case(fmt.Sprintf("regdel_of_byte %d", b), fmt.Sprintf("beq_regdel (regdel_of_byte %d) %s", b, coqRegdel(d)))
		// ---- the same octet decoded INTO variables that already hold a value: all-ones fields, the complement octet,
		// a random unnormalised struct, and at the end of a history of three octets on one variable
		for k, prior := range []pdu.ESMClass{{MessageMode: 0xFF, MessageType: 0xFF, UDHIndicator: true, ReplyPath: true}, esmOf(byte(^b)),
			{MessageMode: r.Rng.Byte(), MessageType: r.Rng.Byte(), UDHIndicator: r.Rng.Bool(), ReplyPath: r.Rng.Bool()}, esmOf(r.Rng.Byte())} {
			x := prior
			if k == 3 {
				_ = x.WriteByte(r.Rng.Byte())
				_ = x.WriteByte(r.Rng.Byte())
				prior = x
			}
			_ = x.WriteByte(byte(b))
			c2, _ := x.ReadByte()
			r.Count(fmt.Sprintf("esmreuse/%d/%d", b, k), true, "esm_class octet into a non-zero receiver")
			if x != e || int(c2) != b {
				r.Fail("esm_class/reused-receiver", "ESMClass.WriteByte into a variable that already holds a value does not give the decoding of the octet",
					fmt.Sprintf("esm %d into %+v", b, prior), fmt.Sprintf("%+v re-encoded=%d", x, c2), fmt.Sprintf("%+v re-encoded=%d", e, b))
			}
			if k >= 2 {
				r.Case(fmt.Sprintf("esm_write %+v %d", prior, b), fmt.Sprintf("beq_esm (esm_write %s %d) %s", coqEsm(prior), b, coqEsm(x)))
			}
		}
		for k, prior := range []pdu.RegisteredDelivery{{MCDeliveryReceipt: 0xFF, SMEOriginatedAcknowledgment: 0xFF, IntermediateNotification: true, Reserved: 0xFF}, regdelOf(byte(^b)),
			{MCDeliveryReceipt: r.Rng.Byte(), SMEOriginatedAcknowledgment: r.Rng.Byte(), IntermediateNotification: r.Rng.Bool(), Reserved: r.Rng.Byte()}, regdelOf(r.Rng.Byte())} {
			x := prior
			if k == 3 {
				_ = x.WriteByte(r.Rng.Byte())
				_ = x.WriteByte(r.Rng.Byte())
				prior = x
			}
			_ = x.WriteByte(byte(b))
			c2, _ := x.ReadByte()
			r.Count(fmt.Sprintf("regdelreuse/%d/%d", b, k), true, "registered_delivery octet into a non-zero receiver")
			if x != d || int(c2) != b {
				r.Fail("registered_delivery/reused-receiver", "RegisteredDelivery.WriteByte into a variable that already holds a value does not give the decoding of the octet",
					fmt.Sprintf("regdel %d into %+v", b, prior), fmt.Sprintf("%+v re-encoded=%d", x, c2), fmt.Sprintf("%+v re-encoded=%d", d, b))
			}
			if k >= 2 {
				r.Case(fmt.Sprintf("regdel_write %+v %d", prior, b), fmt.Sprintf("beq_regdel (regdel_write %s %d) %s", coqRegdel(prior), b, coqRegdel(x)))
			}
		}
		for _, v0 := range []byte{0xFF, byte(^b), r.Rng.Byte()} {
			x := pdu.InterfaceVersion(v0)
			err := json.Unmarshal(data, &x)
			r.Count(fmt.Sprintf("ifverreuse/%d/%d", b, v0), true, "interface_version JSON into a non-zero receiver")
			if err != nil || x != v {
				r.Fail("interface_version/reused-receiver", "InterfaceVersion.UnmarshalJSON into a variable that already holds a value does not give the version back",
					fmt.Sprintf("ifver %d into %d", b, v0), fmt.Sprintf("json=%s back=%d err=%v", data, x, err), fmt.Sprintf("back=%d", b))
			}
		}
	}
	r.Sample(map[string]interface{}{"codec": "esm_class", "octet": 0xC3, "decoded": "mode=3 type=0 udhi reply"})
	// --- encoders on arbitrary (unnormalised) struct contents: model must mask the same way
	n := r.N(300, 6000)
	for i := 0; i < n; i++ {
		e := pdu.ESMClass{MessageMode: r.Rng.Byte(), MessageType: r.Rng.Byte(), UDHIndicator: r.Rng.Bool(), ReplyPath: r.Rng.Bool()}
		c, _ := e.ReadByte()
		r.Count(fmt.Sprintf("esmenc/%v", e), true, "esm_class struct")
		r.Case(fmt.Sprintf("esm_to_byte %+v", e),
			fmt.Sprintf("esm_to_byte {| e_mode := %d; e_type := %d; e_udhi := %s; e_reply := %s |} =? %d",
				e.MessageMode, e.MessageType, coqBool(e.UDHIndicator), coqBool(e.ReplyPath), c))
		d := pdu.RegisteredDelivery{MCDeliveryReceipt: r.Rng.Byte(), SMEOriginatedAcknowledgment: r.Rng.Byte(),
			IntermediateNotification: r.Rng.Bool(), Reserved: r.Rng.Byte()}
		c, _ = d.ReadByte()
		r.Count(fmt.Sprintf("regdelenc/%v", d), true, "registered_delivery struct")
		r.Case(fmt.Sprintf("regdel_to_byte %+v", d),
			fmt.Sprintf("regdel_to_byte {| r_mc := %d; r_sme := %d; r_inter := %s; r_rsv := %d |} =? %d",
				d.MCDeliveryReceipt, d.SMEOriginatedAcknowledgment, coqBool(d.IntermediateNotification), d.Reserved, c))
		if i < 2 {
			r.Sample(map[string]interface{}{"codec": "esm_class encoder", "struct": fmt.Sprintf("%+v", e)})
		}
	}
	// --- the time half: pdu.Time / pdu.Duration (c20_time.go)
	c := corrC20Time(r)
	// --- thorough: the same op lines through the extracted OCaml model (c20_extract.go)
	if !r.Quick || os.Getenv("VERIF_EXTRACTED") == "1" {
		c20ExtractedDiff(r, c)
	}
}
