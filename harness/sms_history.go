package main

// Ordered histories for C18 / C19: the result of sms.Unmarshal (and of sms.Marshal on what it returned) must not
// depend on what the PROCESS decoded before.  State that survives a call (a cache filled on first use, a memo of
// the last value, a lazily built table) lives as long as the process, so the order "X first, then Y" can only be
// observed in a process that has decoded nothing else: every history below runs in a fresh child process (this
// binary, `harness replay smshist <file>`), and the observation of each input is compared with the observation of
// the same input as the FIRST decode of a fresh process.
//
//	process i:   X_i, Y_1, X_i, Y_2, X_i, ...   (every Y_j, j != i)
//
// so that over all i every ordered pair (A, B) of the corpus occurs adjacently both ways, with A having been the
// first input of the process for one of them (first-use caches) and the immediate predecessor (last-value memos).
// A few longer random sequences add triples.  A failure is re-run as the two-element histories (first, failing) and
// (predecessor, failing) to report the smallest one that reproduces.

import (
	"context"
	"encoding/hex"
	"encoding/json"
	"fmt"
	"os"
	"os/exec"
	"path/filepath"
	"strings"
	"sync"
	"time"
)

type histItem struct {
	Label string
	In    []byte
}

func init() { replayTable["smshist"] = smsHistReplay }

func smsObsLine(o smsObs) string {
	switch o.Class {
	case 2:
		return "panic " + strings.ReplaceAll(o.PanicMsg, "\n", " ")
	case 1:
		return "error"
	}
	enc := fmt.Sprintf("marshal-class=%d %s again=%v %s", o.EncClass, hex.EncodeToString(o.Out), o.AgainOK, o.AgainPanic)
	if o.EncClass == 2 {
		enc = "marshal-panic " + strings.ReplaceAll(o.EncPanic, "\n", " ")
	}
	return fmt.Sprintf("value %s %s | %s", o.Name, o.Term, enc)
}

// smsHistReplay: the file holds one input per line (hex, "-" = empty, anything after a space ignored); decodes them in
// that order in THIS process and prints one observation per line.
func smsHistReplay(arg string) string {
	var out []string
	for _, line := range strings.Split(strings.TrimSpace(strings.TrimPrefix(strings.TrimSpace(arg), "smshist")), "\n") {
		for _, f := range strings.Fields(line) {
			if f == "-" {
				f = ""
			}
			in, err := hex.DecodeString(f)
			if err != nil {
				continue
			}
			out = append(out, smsObsLine(smsRun(in)))
		}
	}
	return strings.Join(out, "\n")
}

func smsHexOrDash(b []byte) string {
	if len(b) == 0 {
		return "-"
	}
	return hex.EncodeToString(b)
}

// smsRunHistory decodes the sequence in one fresh child process; nil on a tool problem (reported as a note)
func smsRunHistory(dir string, id int, seq [][]byte) ([]string, error) {
	var sb strings.Builder
	for _, in := range seq {
		sb.WriteString(smsHexOrDash(in) + "\n")
	}
	file := filepath.Join(dir, fmt.Sprintf("hist_%d.txt", id))
	if err := os.WriteFile(file, []byte(sb.String()), 0o644); err != nil {
		return nil, err
	}
	defer os.Remove(file)
	self, err := os.Executable()
	if err != nil {
		return nil, err
	}
	ctx, cancel := context.WithTimeout(context.Background(), 120*time.Second)
	defer cancel()
	outb, err := exec.CommandContext(ctx, self, "replay", "smshist", file).Output()
	if err != nil {
		return nil, fmt.Errorf("child process: %v", err)
	}
	lines := strings.Split(strings.TrimRight(string(outb), "\n"), "\n")
	if len(lines) != len(seq) {
		return nil, fmt.Errorf("child process printed %d observations for %d inputs", len(lines), len(seq))
	}
	return lines, nil
}

// smsHistories runs the ordered histories over the corpus and reports every observation that differs from the
// observation of the same input decoded first in a fresh process.
func smsHistories(r *Run, corpus []histItem, nRandom int) {
	n := len(corpus)
	type job struct {
		id  int
		idx []int // indices into corpus, in order
	}
	var jobs []job
	for i := 0; i < n; i++ {
		idx := []int{i}
		for j := 0; j < n; j++ {
			if j != i {
				idx = append(idx, j, i)
			}
		}
		jobs = append(jobs, job{i, idx})
	}
	for k := 0; k < nRandom; k++ { // triples and longer: random sequences
		var idx []int
		for len(idx) < 3*n {
			idx = append(idx, r.Rng.Intn(n))
		}
		jobs = append(jobs, job{n + k, idx})
	}
	results := make([][]string, len(jobs))
	errs := make([]error, len(jobs))
	var wg sync.WaitGroup
	sem := make(chan struct{}, 6)
	for k := range jobs {
		wg.Add(1)
		go func(k int) {
			defer wg.Done()
			sem <- struct{}{}
			defer func() { <-sem }()
			seq := make([][]byte, len(jobs[k].idx))
			for p, x := range jobs[k].idx {
				seq[p] = corpus[x].In
			}
			results[k], errs[k] = smsRunHistory(r.Dir, jobs[k].id, seq)
		}(k)
	}
	wg.Wait()
	alone := make([]string, n)
	for i := 0; i < n; i++ {
		if errs[i] != nil || len(results[i]) == 0 {
			r.Notes = append(r.Notes, fmt.Sprintf("history process %d could not be run: %v", i, errs[i]))
			continue
		}
		alone[i] = results[i][0]
		r.Count("hist-alone/"+hex.EncodeToString(corpus[i].In), true, "history: decoded first in a fresh process")
	}
	pairSeen := map[[2]int]bool{}
	nMinimised := 0
	for k, jb := range jobs {
		if errs[k] != nil {
			if k >= n {
				r.Notes = append(r.Notes, fmt.Sprintf("history process %d could not be run: %v", k, errs[k]))
			}
			continue
		}
		for p, x := range jb.idx {
			if p > 0 && !pairSeen[[2]int{jb.idx[p-1], x}] {
				pairSeen[[2]int{jb.idx[p-1], x}] = true
				r.Count(fmt.Sprintf("hist-pair/%d/%d", jb.idx[p-1], x), true, "history: ordered pair decoded adjacently in one process")
			}
			if alone[x] == "" || results[k][p] == alone[x] || p == 0 {
				continue
			}
			// smallest history that reproduces
			first, pred := jb.idx[0], jb.idx[p-1]
			show := fmt.Sprintf("smshist %s %s", smsHexOrDash(corpus[first].In), smsHexOrDash(corpus[x].In))
			culprit := first
			reproduced := false
			isPanic := strings.HasPrefix(results[k][p], "panic") || strings.Contains(results[k][p], "marshal-panic")
			if nMinimised < 12 || isPanic && nMinimised < 60 { // candidates: the first element, the predecessor, then every other earlier element
				nMinimised++
				cands := []int{first, pred}
				seenC := map[int]bool{first: true, pred: true, x: true}
				for _, y := range jb.idx[:p] {
					if !seenC[y] {
						seenC[y] = true
						cands = append(cands, y)
					}
				}
				for ci, c := range cands {
					if two, err := smsRunHistory(r.Dir, 100000+k*1000+p*60+ci, [][]byte{corpus[c].In, corpus[x].In}); err == nil && two[1] != alone[x] {
						culprit, reproduced = c, true
						show = fmt.Sprintf("smshist %s %s", smsHexOrDash(corpus[c].In), smsHexOrDash(corpus[x].In))
						break
					}
				}
			}
			if !reproduced {
				var hs []string
				for _, y := range jb.idx[:p+1] {
					hs = append(hs, smsHexOrDash(corpus[y].In))
				}
				show = "smshist " + strings.Join(hs, " ")
			}
			class := "history/" + corpus[x].Label + "/after/" + corpus[culprit].Label
			what := "sms.Unmarshal / sms.Marshal give another result for this TPDU when the process has decoded another TPDU before than when it is decoded first"
			if strings.HasPrefix(results[k][p], "panic") || strings.Contains(results[k][p], "marshal-panic") {
				class = "history-panic/" + corpus[x].Label + "/after/" + corpus[culprit].Label
				what = "sms.Unmarshal / sms.Marshal panic on this TPDU when the process has decoded another TPDU before"
			}
			r.Fail(strings.ReplaceAll(class, " ", "-"), what, show, clip(results[k][p], 400), "as when decoded first in a fresh process: "+clip(alone[x], 400))
		}
	}
}

// smsHistoryCorpus: at least one well-formed and one malformed instance of each of the eight structures (both report
// flavours, both directions), every validity-period format and enhanced sub-format, numeric and alphanumeric addresses,
// the smallest witnesses of each structure, unknown message types.
func smsHistoryCorpus(rng *Rng) []histItem {
	var c []histItem
	add := func(label string, in []byte) { c = append(c, histItem{label, append([]byte{}, in...)}) }
	withAddr := func(t tpduSegs, alnum bool) tpduSegs {
		m := t.Clone()
		for i := range m {
			if m[i].Name == "OA" || m[i].Name == "DA" || m[i].Name == "RA" {
				if alnum {
					m[i].B = tpAlnumBytes(0xD0, []byte{0x48, 0x65, 0x6C, 0x6C, 0x6F})
				} else {
					m[i].B = tpAddrBytes(0x91, randDigits(rng, 11))
				}
			}
		}
		return m
	}
	for _, kind := range smsKinds {
		variants := []int{0}
		if kind == "submit" {
			variants = []int{0, 1, 2, 3, 5, 9, 13} // TP-VPF 0..3 and the four enhanced sub-formats
		}
		for _, v := range variants {
			base := smsBase(rng, kind, v)
			label := kind
			if kind == "submit" {
				label = fmt.Sprintf("submit-vp%d", v)
			}
			add(label+"/well-formed/numeric-address", withAddr(base, false).Bytes())
			if v == 0 {
				add(label+"/well-formed/alphanumeric-address", withAddr(base, true).Bytes())
				whole := base.Bytes()
				add(label+"/cut-in-half", whole[:len(whole)/2])
				mut, how := smsMutate(rng, base)
				add(label+"/"+how, mut.Bytes())
			}
		}
	}
	for _, w := range []struct{ l, h string }{
		{"deliver-report-error/smallest", "0000C4"}, {"deliver-report/smallest", "00000700000441424344"},
		{"submit-report-error/smallest", "019101C400"}, {"submit-report/smallest", "0191010042208062917314080000"},
		{"deliver-report/no-parameters", "000000"}, {"unknown-type/mo", "000300"}, {"unknown-type/mt", "01910300"},
		{"command/smallest", "000200000000000000"}, {"status-report/smallest", "01910200000000000000000000000000000000"},
		{"empty", ""}, {"one-octet", "00"},
		// the same address value octets under a numeric and under the alphanumeric type-of-number, and digits with non-decimal nibbles
		{"submit/address-octets-c8329bfd06-numeric", "0001000A91C8329BFD0600000141"}, {"submit/address-octets-c8329bfd06-alphanumeric", "00010009D0C8329BFD0600000141"},
		{"submit/address-non-decimal-nibbles", "0001000B911A2B3C4D5EF600000141"}, {"deliver/sc-address-non-decimal-nibbles", "0591A1B2C3D4040B915121551532F400002080629173140801 41"},
	} {
		b, _ := hex.DecodeString(strings.ReplaceAll(w.h, " ", ""))
		add(w.l, b)
	}
	return c
}

// `./check C18|C19 --replay <file>`: re-run the recorded input on the implementation.  "smshist a b c" decodes the
// history in this (fresh) process; "smsdec x" / "smsrt x" decodes one TPDU.
func init() {
	re := func(arg string) string {
		var obj struct {
			FailingInput struct {
				Input string `json:"input"`
			} `json:"failing_input"`
		}
		in := arg
		if json.Unmarshal([]byte(arg), &obj) == nil && obj.FailingInput.Input != "" {
			in = obj.FailingInput.Input
		}
		f := strings.Fields(in)
		if len(f) < 2 {
			return "no input recorded"
		}
		var out []string
		for _, h := range f[1:] {
			if h == "-" {
				h = ""
			}
			b, err := hex.DecodeString(h)
			if err != nil {
				break // free text after the octets
			}
			out = append(out, smsHexOrDash(b)+" -> "+clip(smsObsLine(smsRun(b)), 600))
			if f[0] != "smshist" {
				break
			}
		}
		return strings.Join(out, "\n")
	}
	replayTable["C18"] = re
	replayTable["C19"] = re
}
