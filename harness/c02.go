package main

import (
	"bytes"
	"encoding/binary"
	"encoding/hex"
	"fmt"
	"reflect"
	"strings"

	"github.com/M2MGateway/go-smpp/coding"
	"github.com/M2MGateway/go-smpp/pdu"
)

func init() { corrTable["C02"] = corrC02 }

// ---- a tiny layout helper written from SMPP v5 section 3.1 / 4.x, independent of package pdu
type specBuf struct{ b []byte }

func (s *specBuf) cstr(v string) *specBuf { s.b = append(append(s.b, v...), 0); return s }
func (s *specBuf) i1(v byte) *specBuf     { s.b = append(s.b, v); return s }
func (s *specBuf) i4(v uint32) *specBuf {
	s.b = append(s.b, byte(v>>24), byte(v>>16), byte(v>>8), byte(v))
	return s
}
func (s *specBuf) addr(ton, npi byte, a string) *specBuf { return s.i1(ton).i1(npi).cstr(a) }
func (s *specBuf) tlv(tag uint16, v []byte) *specBuf {
	s.b = append(s.b, byte(tag>>8), byte(tag), byte(len(v)>>8), byte(len(v)))
	s.b = append(s.b, v...)
	return s
}
func (s *specBuf) raw(v []byte) *specBuf { s.b = append(s.b, v...); return s }
func specFrame(id uint32, seq uint32, body []byte) []byte {
	s := &specBuf{}
	s.i4(uint32(16 + len(body))).i4(id).i4(0).i4(seq)
	return append(s.b, body...)
}

type golden struct {
	name string
	p    interface{}
	want []byte
	cls  string // failure class when it differs
}

// goldens: values assigned BY FIELD NAME, expected octets written parameter by parameter
// in the order of the SMPP v5 table cited; neighbouring parameters always differ.
func goldens() []golden {
	esm := pdu.ESMClass{MessageMode: 1, MessageType: 2, UDHIndicator: false, ReplyPath: true}                          // 0x89
	rd := pdu.RegisteredDelivery{MCDeliveryReceipt: 1, SMEOriginatedAcknowledgment: 2, IntermediateNotification: true} // 0x19
	var gs []golden
	add := func(name string, p interface{}, id uint32, body *specBuf) {
		gs = append(gs, golden{name, p, specFrame(id, 7, body.b), "golden/" + name})
	}
	smBody := func() *specBuf {
		return (&specBuf{}).cstr("WAP").addr(1, 2, "1000").addr(3, 4, "2000").i1(0x89).i1(0x11).i1(0x22).
			cstr("250101000000000+").cstr("250102000000000+").i1(0x19).i1(1).i1(0x08).i1(0x33).i1(2).raw([]byte("hi")).
			tlv(0x0005, []byte{9}).tlv(0x0424, []byte("xy"))
	}
	msg := pdu.ShortMessage{DefaultMessageID: 0x33, DataCoding: coding.DataCoding(8), Message: []byte("hi")}
	tags := pdu.Tags{0x0424: []byte("xy"), 0x0005: []byte{9}}
	add("submit_sm(table 4-14)", &pdu.SubmitSM{Header: pdu.Header{Sequence: 7}, ServiceType: "WAP",
		SourceAddr: pdu.Address{TON: 1, NPI: 2, No: "1000"}, DestAddr: pdu.Address{TON: 3, NPI: 4, No: "2000"}, ESMClass: esm,
		ProtocolID: 0x11, PriorityFlag: 0x22, ScheduleDeliveryTime: "250101000000000+", ValidityPeriod: "250102000000000+",
		RegisteredDelivery: rd, ReplaceIfPresent: true, Message: msg, Tags: tags}, 4, smBody())
	add("deliver_sm(table 4-22)", &pdu.DeliverSM{Header: pdu.Header{Sequence: 7}, ServiceType: "WAP",
		SourceAddr: pdu.Address{TON: 1, NPI: 2, No: "1000"}, DestAddr: pdu.Address{TON: 3, NPI: 4, No: "2000"}, ESMClass: esm,
		ProtocolID: 0x11, PriorityFlag: 0x22, ScheduleDeliveryTime: "250101000000000+", ValidityPeriod: "250102000000000+",
		RegisteredDelivery: rd, ReplaceIfPresent: true, Message: msg, Tags: tags}, 5, smBody())
	add("submit_multi(table 4-18)", &pdu.SubmitMulti{Header: pdu.Header{Sequence: 7}, ServiceType: "WAP",
		SourceAddr:   pdu.Address{TON: 1, NPI: 2, No: "1000"},
		DestAddrList: pdu.DestinationAddresses{Addresses: []pdu.Address{{TON: 3, NPI: 4, No: "2000"}}, DistributionList: []string{"friends"}},
		ESMClass:     esm, ProtocolID: 0x11, PriorityFlag: 0x22, ScheduleDeliveryTime: "s", ValidityPeriod: "v",
		RegisteredDelivery: rd, ReplaceIfPresent: false, Message: msg}, 0x21,
		(&specBuf{}).cstr("WAP").addr(1, 2, "1000").i1(2).i1(1).addr(3, 4, "2000").i1(2).cstr("friends").
			i1(0x89).i1(0x11).i1(0x22).cstr("s").cstr("v").i1(0x19).i1(0).i1(0x08).i1(0x33).i1(2).raw([]byte("hi")))
	add("submit_multi_resp(table 4-19)", &pdu.SubmitMultiResp{Header: pdu.Header{Sequence: 7}, MessageID: "m1",
		UnsuccessfulSMEs: pdu.UnsuccessfulRecords{{DestAddr: pdu.Address{TON: 3, NPI: 4, No: "2000"}, ErrorStatusCode: 0x0102030B}}}, 0x80000021,
		(&specBuf{}).cstr("m1").i1(1).addr(3, 4, "2000").i4(0x0102030B))
	add("data_sm(table 4-16)", &pdu.DataSM{Header: pdu.Header{Sequence: 7}, ServiceType: "WAP",
		SourceAddr: pdu.Address{TON: 1, NPI: 2, No: "1000"}, DestAddr: pdu.Address{TON: 3, NPI: 4, No: "2000"}, ESMClass: esm,
		RegisteredDelivery: rd, DataCoding: coding.DataCoding(8), Tags: pdu.Tags{0x0424: []byte("xy")}}, 0x103,
		(&specBuf{}).cstr("WAP").addr(1, 2, "1000").addr(3, 4, "2000").i1(0x89).i1(0x19).i1(0x08).tlv(0x0424, []byte("xy")))
	add("bind_transmitter(table 4-1)", &pdu.BindTransmitter{Header: pdu.Header{Sequence: 7}, SystemID: "sys", Password: "pw", SystemType: "ty",
		Version: pdu.InterfaceVersion(0x50), AddressRange: pdu.Address{TON: 1, NPI: 2, No: "^1"}}, 2,
		(&specBuf{}).cstr("sys").cstr("pw").cstr("ty").i1(0x50).addr(1, 2, "^1"))
	add("bind_transceiver_resp(table 4-6)", &pdu.BindTransceiverResp{Header: pdu.Header{Sequence: 7}, SystemID: "smsc",
		Tags: pdu.Tags{0x0210: []byte{0x50}}}, 0x80000009, (&specBuf{}).cstr("smsc").tlv(0x0210, []byte{0x50}))
	add("outbind(table 4-7)", &pdu.Outbind{Header: pdu.Header{Sequence: 7}, SystemID: "sys", Password: "pw"}, 0x0B, (&specBuf{}).cstr("sys").cstr("pw"))
	add("query_sm(table 4-32)", &pdu.QuerySM{Header: pdu.Header{Sequence: 7}, MessageID: "m1", SourceAddr: pdu.Address{TON: 1, NPI: 2, No: "1000"}}, 3,
		(&specBuf{}).cstr("m1").addr(1, 2, "1000"))
	gs = append(gs, golden{"query_sm_resp(table 4-33)", &pdu.QuerySMResp{Header: pdu.Header{Sequence: 7}, MessageID: "m1", FinalDate: "f", MessageState: 2, ErrorCode: 9},
		specFrame(0x80000003, 7, (&specBuf{}).cstr("m1").cstr("f").i1(2).i1(9).b), "layout/query_sm_resp/error_code-missing"})
	add("cancel_sm(table 4-30)", &pdu.CancelSM{Header: pdu.Header{Sequence: 7}, ServiceType: "WAP", MessageID: "m1",
		SourceAddr: pdu.Address{TON: 1, NPI: 2, No: "1000"}, DestAddr: pdu.Address{TON: 3, NPI: 4, No: "2000"}}, 8,
		(&specBuf{}).cstr("WAP").cstr("m1").addr(1, 2, "1000").addr(3, 4, "2000"))
	add("replace_sm(table 4-34)", &pdu.ReplaceSM{Header: pdu.Header{Sequence: 7}, MessageID: "m1", SourceAddr: pdu.Address{TON: 1, NPI: 2, No: "1000"},
		ScheduleDeliveryTime: "s", ValidityPeriod: "v", RegisteredDelivery: rd,
		Message: pdu.ShortMessage{DefaultMessageID: 0x33, Message: []byte("hi")}}, 7,
		(&specBuf{}).cstr("m1").addr(1, 2, "1000").cstr("s").cstr("v").i1(0x19).i1(0x33).i1(2).raw([]byte("hi")))
	add("alert_notification(table 4-12)", &pdu.AlertNotification{Header: pdu.Header{Sequence: 7}, SourceAddr: pdu.Address{TON: 1, NPI: 2, No: "1000"},
		ESMEAddr: pdu.Address{TON: 3, NPI: 4, No: "2000"}, Tags: pdu.Tags{0x0422: []byte{1}}}, 0x102,
		(&specBuf{}).addr(1, 2, "1000").addr(3, 4, "2000").tlv(0x0422, []byte{1}))
	add("broadcast_sm(table 4-26)", &pdu.BroadcastSM{Header: pdu.Header{Sequence: 7}, ServiceType: "WAP", SourceAddr: pdu.Address{TON: 1, NPI: 2, No: "1000"},
		MessageID: "m1", PriorityFlag: 0x22, ScheduleDeliveryTime: "s", ValidityPeriod: "v", ReplaceIfPresent: true,
		DataCoding: coding.DataCoding(8), DefaultMessageID: 0x33, Tags: pdu.Tags{0x0606: []byte{0, 1, 2}}}, 0x112,
		(&specBuf{}).cstr("WAP").addr(1, 2, "1000").cstr("m1").i1(0x22).cstr("s").cstr("v").i1(1).i1(0x08).i1(0x33).tlv(0x0606, []byte{0, 1, 2}))
	add("cancel_broadcast_sm(table 4-40)", &pdu.CancelBroadcastSM{Header: pdu.Header{Sequence: 7}, ServiceType: "WAP", MessageID: "m1",
		SourceAddr: pdu.Address{TON: 1, NPI: 2, No: "1000"}}, 0x113, (&specBuf{}).cstr("WAP").cstr("m1").addr(1, 2, "1000"))
	add("submit_sm_resp(table 4-15)", &pdu.SubmitSMResp{Header: pdu.Header{Sequence: 7}, MessageID: "m1", Tags: pdu.Tags{0x001D: []byte("ok")}}, 0x80000004,
		(&specBuf{}).cstr("m1").tlv(0x001D, []byte("ok")))
	add("deliver_sm_resp(table 4-23)", &pdu.DeliverSMResp{Header: pdu.Header{Sequence: 7}, MessageID: ""}, 0x80000005, (&specBuf{}).cstr(""))
	add("enquire_link(table 4-10)", &pdu.EnquireLink{Header: pdu.Header{Sequence: 7}}, 0x15, &specBuf{})
	add("unbind_resp(table 4-9)", &pdu.UnbindResp{Header: pdu.Header{Sequence: 7}}, 0x80000006, &specBuf{})
	// a UDH counted by sm_length (4.7.28: short_message includes the user data header when the UDHI is set)
	add("submit_sm+udh(4.7.28)", &pdu.SubmitSM{Header: pdu.Header{Sequence: 7}, ESMClass: pdu.ESMClass{UDHIndicator: true},
		Message: pdu.ShortMessage{DataCoding: coding.DataCoding(4), UDHeader: pdu.UserDataHeader{0: {7, 2, 1}}, Message: []byte{0xAA}}}, 4,
		(&specBuf{}).cstr("").addr(0, 0, "").addr(0, 0, "").i1(0x40).i1(0).i1(0).cstr("").cstr("").i1(0).i1(0).i1(4).i1(0).i1(7).raw([]byte{5, 0, 3, 7, 2, 1, 0xAA}))
	return gs
}

func setField(p interface{}, name string, v interface{}) bool {
	f := reflect.ValueOf(p).Elem().FieldByName(name)
	if !f.IsValid() {
		return false
	}
	f.Set(reflect.ValueOf(v))
	return true
}

// smpp5Operations: SMPP v5 section 4.7.5 (command_id values) with, per operation, the number of mandatory
// parameters of its syntax table (sections 4.1-4.6) — each is one octet when empty / zero (an empty C-octet string
// is its NUL; number_of_dests, no_unsuccess and sm_length are 0).  Written from the specification.
var smpp5Operations = []struct {
	id     uint32
	name   string
	params int
}{
	{0x00000001, "bind_receiver", 7}, {0x00000002, "bind_transmitter", 7}, {0x00000003, "query_sm", 4},
	{0x00000004, "submit_sm", 17}, {0x00000005, "deliver_sm", 17}, {0x00000006, "unbind", 0},
	{0x00000007, "replace_sm", 9}, {0x00000008, "cancel_sm", 8}, {0x00000009, "bind_transceiver", 7},
	{0x0000000B, "outbind", 2}, {0x00000015, "enquire_link", 0}, {0x00000021, "submit_multi", 15},
	{0x00000102, "alert_notification", 6}, {0x00000103, "data_sm", 10}, {0x00000111, "query_broadcast_sm", 4},
	{0x00000112, "broadcast_sm", 11}, {0x00000113, "cancel_broadcast_sm", 5},
	{0x80000000, "generic_nack", 0}, {0x80000001, "bind_receiver_resp", 1}, {0x80000002, "bind_transmitter_resp", 1},
	{0x80000003, "query_sm_resp", 4}, {0x80000004, "submit_sm_resp", 1}, {0x80000005, "deliver_sm_resp", 1},
	{0x80000006, "unbind_resp", 0}, {0x80000007, "replace_sm_resp", 0}, {0x80000008, "cancel_sm_resp", 0},
	{0x80000009, "bind_transceiver_resp", 1}, {0x80000015, "enquire_link_resp", 0}, {0x80000021, "submit_multi_resp", 2},
	{0x80000103, "data_sm_resp", 1}, {0x80000111, "query_broadcast_sm_resp", 1}, {0x80000112, "broadcast_sm_resp", 1},
	{0x80000113, "cancel_broadcast_sm_resp", 0},
}

// layoutIntoHeld: the layout clause on destinations that already hold octets (C12's destination kinds): the octets APPENDED
// by Marshal must be the same specification layout [want] that a fresh destination receives.
func layoutIntoHeld(r *Run, t pduType, before interface{}, want []byte, k int) {
	if stallsExhausted() {
		return
	}
	kind := []string{"buffer", "wrapped", "buffer"}[k%3]
	held := r.Rng.Bytes([]int{1, 3, 4, 16, 17, 100}[k%6])
	r.SetReplay(replayValueDest(before, kind, held, 0))
	_, err, got, panicked, pmsg := marshalInto(before, kind, held, 0)
	in := fmt.Sprintf("marshal %s %.1500s into %s already holding %d octets", t.Name, coqValue(before), kind, len(held))
	r.Count(fmt.Sprintf("held/%s/%d", t.Name, k), true, "dest="+kind)
	switch {
	case panicked:
		r.Fail("misstatement/panic", "Marshal panicked", in, pmsg, "a frame")
	case err != nil:
		r.Fail("layout/dest="+kind+"/"+t.Name, "Marshal refused, on a destination already holding octets, a value it lays out on a fresh one", in, fmt.Sprint(err), hex.EncodeToString(want))
	case len(got) < len(held) || !bytes.Equal(got[:len(held)], held) || !bytes.Equal(got[len(held):], want):
		app := got
		if len(got) >= len(held) {
			app = got[len(held):]
		}
		r.Fail("layout/dest="+kind+"/"+t.Name, "the octets appended to a destination that already held octets are not the SMPP v5 layout of the value (command_length must state this frame)", in,
			hex.EncodeToString(app[:min(len(app), 64)]), hex.EncodeToString(want[:min(len(want), 64)]))
	}
}

func corrC02(r *Run) {
	r.Import("Model.PduRun")
	r.Import("Spec.Smpp5")
	r.Import("Proofs.PduSpecProofs")
	r.Import("Proofs.PduConverseProofs")
	r.PerShard(60)
	r.Rule = "(1) 21 PDUs assigned by Go field name and compared octet for octet with frames laid out parameter by parameter from the cited SMPP v5 tables; " +
		"(2) generated values of all 33 types in the representable domain: Marshal's frame compared inside coqc with the specification encoder (Spec/Smpp5.v) applied to the same value; " +
		"(3) specification-order frames with the TLV section permuted and destination entries interleaved, decoded and compared; " +
		"(5) a minimal frame of each of the 33 SMPP v5 operations (own literal list) through ReadPDU; (4) values that cannot be expressed (NUL in any C-octet string, >255 destinations / records, oversize TLV / UDH element / UDH+message / message): Marshal must refuse; " +
		"non-trivial = distinct (type, value) with a body"
	ts := pduTypes()
	// (1) goldens by name
	for gi, g := range goldens() {
		if !strings.HasPrefix(g.cls, "layout/") {
			// the same golden on a destination that already holds octets: the octets appended are the frame of the cited table
			for _, t := range ts {
				if t.T == reflect.TypeOf(g.p).Elem() {
					layoutIntoHeld(r, t, clonePDU(g.p), g.want, gi)
				}
			}
		}
		r.SetReplay(replayValue(g.p))
		_, err, w, panicked, pmsg := marshalRec(g.p)
		r.Count("golden/"+g.name, true, "golden")
		in := fmt.Sprintf("golden %s %s", g.name, coqValue(g.p))
		switch {
		case panicked:
			r.Fail(g.cls, "Marshal panicked", in, pmsg, hex.EncodeToString(g.want))
		case err != nil || len(w.calls) != 1:
			r.Fail(g.cls, "Marshal refused a representable value", in, fmt.Sprint(err), hex.EncodeToString(g.want))
		case !bytes.Equal(w.calls[0], g.want):
			r.Fail(g.cls, "octets differ from the SMPP v5 layout of this operation", in, hex.EncodeToString(w.calls[0]), hex.EncodeToString(g.want))
		}
		// and the other way round: the specification's frame decodes to the value (D5: the extra octet is ignored) —
		// also right after a long frame whose decoding stops early (an error response with a body, section 3.2: the body may be ignored)
		if len(g.want)%3 == 0 {
			long := rawFrame(0x80000004, 0x58, 99, r.Rng.Bytes(5000))
			_ = readOnce(&chunkReader{data: long, sched: []int{len(long)}})
		}
		o := readOnce(&chunkReader{data: g.want, sched: []int{len(g.want)}})
		if o.Kind != "ok" {
			r.Fail(g.cls+"/decode", "ReadPDU rejects a frame laid out from the specification", in, o.Kind, "decodes")
		} else if !strings.HasPrefix(g.cls, "layout/") && canonNoLenID(o.PDU) != canonNoLenID(g.p) {
			r.Fail(g.cls+"/decode", "a frame laid out from the specification decodes to other values", in, canonNoLenID(o.PDU), canonNoLenID(g.p))
		}
	}
	r.Sample(map[string]interface{}{"golden": "submit_sm(table 4-14)", "frame": hex.EncodeToString(goldens()[0].want)})
	// (2) generated values against the Coq specification encoder
	n := r.N(12, 300)
	for _, t := range ts {
		hasSkipped := false
		for j := 0; j < t.T.NumField(); j++ {
			if classify(t.T.Field(j).Type) == "FSkipped" {
				hasSkipped = true
			}
		}
		for i := 0; i < n; i++ {
			p := genPDU(r.Rng, t, modeDomain)
			if hasSkipped {
				continue // the specification has a parameter the code does not write (D5, covered by the golden above)
			}
			orig := clonePDU(p)
			term := coqValue(orig)
			_, err, w, panicked, _ := marshalRec(p)
			if err != nil || panicked || len(w.calls) != 1 || len(w.calls[0]) > 20000 {
				continue
			}
			frame := w.calls[0]
			seq := uint32(reflect.ValueOf(orig).Elem().Field(0).Interface().(pdu.Header).Sequence)
			layoutIntoHeld(r, t, orig, frame, i) // the frame is compared with the specification encoder in the kernel case below
			r.Count(t.Name+term, reflect.ValueOf(p).Elem().NumField() > 1, "spec-encode/"+t.Name)
			r.Case(fmt.Sprintf("spec layout = Marshal %s %.200s", t.Name, term),
				fmt.Sprintf("match lay_params (erase %s) (to_spec %s %s) with Some body => beq_bytes (Spec.Smpp5.spec_frame %d 0 %d body) %s | None => false end",
					layoutRef(t.ID), layoutRef(t.ID), term, t.ID, seq, coqHex(frame)))
		}
	}
	// (2b) loaded field contents (harness/pdu_corpus.go) against the specification encoder: a sample of the corpus in the kernel,
	// all of it against the harness's reference encoder
	for k, it := range corpusPDUs(ts, 1, 0) {
		hasSkipped := false
		for j := 0; j < it.t.T.NumField(); j++ {
			if classify(it.t.T.Field(j).Type) == "FSkipped" {
				hasSkipped = true
			}
		}
		if hasSkipped {
			continue
		}
		orig := clonePDU(it.p)
		want, okRef := refEncode(orig, it.t.ID)
		r.SetReplay(replayValue(orig))
		_, err, w, panicked, pmsg := marshalRec(it.p)
		r.Count(it.what, true, "loaded-content")
		in := "marshal (loaded content " + it.what + ") " + coqValue(orig)
		switch {
		case panicked:
			r.Fail("misstatement/panic", "Marshal panicked", in, pmsg, "a frame")
		case !okRef:
		case err != nil || len(w.calls) != 1:
			r.Fail("layout/loaded-content/"+it.t.Name, "Marshal refused a value the specification layout can express", in, fmt.Sprint(err), hex.EncodeToString(want))
		case !bytes.Equal(w.calls[0], want):
			r.Fail("layout/loaded-content/"+it.t.Name, "octets differ from the SMPP v5 layout of this value", in, hex.EncodeToString(w.calls[0]), hex.EncodeToString(want))
		default:
			if k%7 == 0 {
				layoutIntoHeld(r, it.t, orig, want, k/7)
			}
		}
		if k%300 == int(r.Seed%300) && err == nil && !panicked && len(w.calls) == 1 {
			seq := uint32(reflect.ValueOf(orig).Elem().Field(0).Interface().(pdu.Header).Sequence)
			term := coqValue(orig)
			r.Case("spec layout = Marshal (loaded content) "+it.what,
				fmt.Sprintf("match lay_params (erase %s) (to_spec %s %s) with Some body => beq_bytes (Spec.Smpp5.spec_frame %d 0 %d body) %s | None => false end",
					layoutRef(it.t.ID), layoutRef(it.t.ID), term, it.t.ID, seq, coqHex(w.calls[0])))
		}
	}
	// (3) TLVs in any order / destinations interleaved
	nd := r.N(300, 5000)
	for i := 0; i < nd; i++ {
		t := ts[r.Rng.Intn(len(ts))]
		p := genPDU(r.Rng, t, modeDomain)
		v := reflect.ValueOf(p).Elem()
		ti := -1
		for j := 0; j < v.NumField(); j++ {
			if _, ok := v.Field(j).Interface().(pdu.Tags); ok {
				ti = j
			}
		}
		if ti < 0 {
			continue
		}
		tg := pdu.Tags{}
		var keys []uint16
		for len(keys) < 2+r.Rng.Intn(6) {
			k := uint16(r.Rng.U64())
			if _, dup := tg[k]; !dup {
				keys = append(keys, k)
				tg[k] = r.Rng.Bytes(1 + r.Rng.Intn(9))
			}
		}
		v.Field(ti).Set(reflect.Zero(v.Field(ti).Type()))
		_, err, w, panicked, _ := marshalRec(p)
		if err != nil || panicked || len(w.calls) != 1 {
			continue
		}
		if i%9 == 4 {
			// a message_payload-sized value (section 4.8.4.36: up to 64 KiB): the TLV reader must not depend on its buffer size
			big := uint16(0x0424)
			if _, dup := tg[big]; !dup {
				keys = append(keys, big)
			}
			tg[big] = r.Rng.Bytes(r.Rng.Pick([]int{4090, 4096, 4097, 5000, 20000, 60000}))
		}
		sb := &specBuf{b: append([]byte(nil), w.calls[0]...)}
		for _, k := range permKeys16(r.Rng, keys) {
			sb.tlv(k, tg[k])
		}
		frame := sb.b
		binary.BigEndian.PutUint32(frame, uint32(len(frame)))
		v.Field(ti).Set(reflect.ValueOf(tg))
		r.SetReplay(replayStream(frame, []int{len(frame)}))
		o := readOnce(&chunkReader{data: frame, sched: []int{len(frame)}})
		r.Count(fmt.Sprintf("%x", frame), true, "tlv-order/"+t.Name)
		in := fmt.Sprintf("readpdu %x", frame)
		if o.Kind != "ok" || canonNoLenID(o.PDU) != canonNoLenID(p) {
			got := o.Kind
			if o.Kind == "ok" {
				got = canonNoLenID(o.PDU)
			}
			r.Fail("decode/tlv-order/"+t.Name, "a specification frame with its TLVs in this order decodes to other values", in, got, canonNoLenID(p))
		}
		if i%4 == 0 && o.Kind == "ok" && len(frame) < 3000 {
			id := uint32(reflect.ValueOf(o.PDU).Elem().Field(0).Interface().(pdu.Header).CommandID)
			r.Case("unmarshal (TLVs permuted) "+shortHex(frame),
				fmt.Sprintf("beq_ofvals (unmarshal %s %s) (Ok %s)", layoutRef(id), coqHex(frame), coqValue(o.PDU)))
		}
	}
	for i := 0; i < r.N(200, 3000); i++ {
		// submit_multi with SME addresses and distribution lists interleaved
		type dst struct {
			a  *pdu.Address
			dl string
		}
		var ds []dst
		for k := 0; k < 1+r.Rng.Intn(8); k++ {
			if r.Rng.Bool() {
				a := genAddr(r.Rng, modeDomain)
				ds = append(ds, dst{a: &a})
			} else {
				ds = append(ds, dst{dl: genCStr(r.Rng, modeDomain, 12)})
			}
		}
		sb := (&specBuf{}).cstr("").addr(1, 1, "7").i1(byte(len(ds)))
		var want pdu.DestinationAddresses
		for _, d := range ds {
			if d.a != nil {
				sb.i1(1).addr(d.a.TON, d.a.NPI, d.a.No)
				want.Addresses = append(want.Addresses, *d.a)
			} else {
				sb.i1(2).cstr(d.dl)
				want.DistributionList = append(want.DistributionList, d.dl)
			}
		}
		sb.i1(0).i1(0).i1(0).cstr("").cstr("").i1(0).i1(0).i1(0).i1(0).i1(1).raw([]byte{0x41})
		frame := specFrame(0x21, 9, sb.b)
		r.SetReplay(replayStream(frame, []int{len(frame)}))
		o := readOnce(&chunkReader{data: frame, sched: []int{len(frame)}})
		r.Count(fmt.Sprintf("%x", frame), true, "dest-order")
		in := fmt.Sprintf("readpdu %x", frame)
		if o.Kind != "ok" {
			r.Fail("decode/dest-order", "ReadPDU rejects a submit_multi whose destination entries are interleaved", in, o.Kind, "decodes")
			continue
		}
		got := o.PDU.(*pdu.SubmitMulti).DestAddrList
		if fmt.Sprint(got.Addresses) != fmt.Sprint(want.Addresses) || fmt.Sprint(got.DistributionList) != fmt.Sprint(want.DistributionList) {
			r.Fail("decode/dest-order", "interleaved destination entries decode to other values", in, fmt.Sprint(got), fmt.Sprint(want))
		}
		if i%5 == 0 {
			r.Case("unmarshal (dests interleaved) "+shortHex(frame),
				fmt.Sprintf("beq_ofvals (unmarshal %s %s) (Ok %s)", layoutRef(0x21), coqHex(frame), coqValue(o.PDU)))
		}
	}
	// (3b) specification frames Marshal never produces: sm_length 141..255, TLVs with a zero-length value, duplicated TLVs
	for i := 0; i < r.N(60, 1000); i++ {
		id := uint32(r.Rng.Pick([]int{4, 5, 0x21}))
		udhi := r.Rng.Intn(2) == 0
		if i < 6 { // always: each of the three operations the UDH indicator applies to, with the indicator set
			id, udhi = []uint32{4, 5, 0x21}[i%3], true
		}
		var udh []byte
		want := pdu.ShortMessage{DefaultMessageID: r.Rng.Byte(), DataCoding: coding.DataCoding(r.Rng.Pick([]int{0, 4, 8, 0xF5}))}
		if udhi {
			want.UDHeader = pdu.UserDataHeader{}
			var ies []byte
			nel := 1 + r.Rng.Intn(3)
			if i < 6 {
				nel = 2
			}
			for k, idn := 0, 0; k < nel; k++ {
				idn += 1 + r.Rng.Intn(40)
				v := r.Rng.Bytes(r.Rng.Pick([]int{0, 1, 3, 4, 30}))
				want.UDHeader[byte(idn)] = v
				ies = append(append(ies, byte(idn), byte(len(v))), v...)
			}
			udh = append([]byte{byte(len(ies))}, ies...)
		}
		ml := r.Rng.Pick([]int{141, 142, 200, 254, 255, 140, 0})
		if ml+len(udh) > 255 {
			ml = 255 - len(udh)
		}
		want.Message = r.Rng.Bytes(ml)
		esm := byte(0)
		if udhi {
			esm = 0x40
		}
		sb := (&specBuf{}).cstr("").addr(1, 1, "7")
		if id == 0x21 {
			sb.i1(1).i1(1).addr(1, 1, "8") // number_of_dests 1, dest_flag 1 (SME address)
		} else {
			sb.addr(1, 1, "8")
		}
		sb.i1(esm).i1(0).i1(0).cstr("").cstr("").i1(0).i1(0).
			i1(byte(want.DataCoding)).i1(want.DefaultMessageID).i1(byte(len(udh) + ml)).raw(udh).raw(want.Message)
		wantTags := pdu.Tags{}
		var tlvTerms []string // the TLVs in transmission order, as specification-level values
		for k := 0; k < r.Rng.Intn(5); k++ {
			tag := genTag(r.Rng)
			v := r.Rng.Bytes(r.Rng.Pick([]int{0, 0, 1, 2, 9}))
			sb.tlv(tag, v)
			wantTags[tag] = v // a repeated tag: the last value counts
			tlvTerms = append(tlvTerms, fmt.Sprintf("(%d, %s)", tag, coqHex(v)))
		}
		frame := specFrame(id, uint32(1+i), sb.b)
		r.SetReplay(replayStream(frame, []int{len(frame)}))
		o := readOnce(&chunkReader{data: frame, sched: []int{len(frame)}})
		r.Count(fmt.Sprintf("%x", frame), true, "spec-only-frames")
		in := fmt.Sprintf("readpdu %x", frame)
		if o.Kind != "ok" {
			r.Fail("decode/spec-only", "ReadPDU rejects a specification frame (sm_length up to 255, zero-length TLVs)", in, fmt.Sprintf("%s err=%v", o.Kind, o.Err), "decodes")
			continue
		}
		v := reflect.ValueOf(o.PDU).Elem()
		var gotMsg pdu.ShortMessage
		var gotTags pdu.Tags
		for j := 0; j < v.NumField(); j++ { // by type, not by Go field name
			switch x := v.Field(j).Interface().(type) {
			case pdu.ShortMessage:
				gotMsg = x
			case pdu.Tags:
				gotTags = x
			}
		}
		if coqField(reflect.ValueOf(gotMsg)) != coqField(reflect.ValueOf(want)) || coqKVs16(gotTags) != coqKVs16(wantTags) {
			cls := "decode/spec-only"
			if udhi && gotMsg.UDHeader == nil {
				cls = fmt.Sprintf("decode/udhi-not-applied/%#x", id)
			}
			r.Fail(cls, "a specification frame decodes to other values (with the UDH indicator set the user data header must be parsed out of short_message)", in,
				coqField(reflect.ValueOf(gotMsg))+" "+coqKVs16(gotTags), coqField(reflect.ValueOf(want))+" "+coqKVs16(wantTags))
		}
		if i%2 == 0 {
			r.Case("unmarshal (sm_length up to 255, zero-length TLVs) "+shortHex(frame),
				fmt.Sprintf("beq_ofvals (unmarshal %s %s) (Ok %s)", layoutRef(id), coqHex(frame), coqValue(o.PDU)))
		} else {
			// the whole-PDU converse (C02_spec_converse): the specification encoder applied to these specification-level values
			// gives this frame, and [of_x_fields] — what the theorem says the decoder returns — is what ReadPDU returned
			udhTerm := "None"
			if udhi {
				udhTerm = "(Some " + coqKVs8(want.UDHeader) + ")"
			}
			dst := "XInt 1; XInt 1; XStr (hx \"38\")"
			if id == 0x21 {
				dst = "XDests [DSme {| s_ton := 1; s_npi := 1; s_addr := (hx \"38\") |}]"
			}
			xs := fmt.Sprintf("[XStr []; XInt 1; XInt 1; XStr (hx \"37\"); "+dst+"; XInt %d; XInt 0; XInt 0; XStr []; XStr []; XInt 0; XInt 0; XInt %d; XInt %d; XShort %s %s; XTlvs %s]",
				esm, byte(want.DataCoding), want.DefaultMessageID, udhTerm, coqHex(want.Message), coqList(tlvTerms))
			r.Case("specification converse (of_x_fields) "+shortHex(frame),
				fmt.Sprintf("match of_x_fields %s (tl (l_fields %s)) %s false, lay_params (erase %s) (map flat %s) with Some vs, Some body => "+
					"beq_bytes (Spec.Smpp5.spec_frame %d 0 %d body) %s && beq_fvals (VHeader {| h_len := %d; h_id := %d; h_status := 0; h_seq := %d%%Z |} :: vs) %s | _, _ => false end",
					layoutRef(id), layoutRef(id), xs, layoutRef(id), xs, id, 1+i, coqHex(frame), len(frame), id, 1+i, coqValue(o.PDU)))
		}
	}
	// (5) registry completeness: a minimal frame (every mandatory parameter empty / zero) of each of the 33 operations,
	// from a list written from SMPP v5 section 4.7.5 and the syntax tables — not from pdu.VerifTypes
	specOps := map[uint32]bool{}
	for _, op := range smpp5Operations {
		specOps[op.id] = true
		frame := specFrame(op.id, 77, make([]byte, op.params))
		r.SetReplay(replayStream(frame, []int{len(frame)}))
		o := readOnce(&chunkReader{data: frame, sched: []int{len(frame)}})
		r.Count("registry/"+op.name, true, "registry")
		in := fmt.Sprintf("readpdu %x (minimal %s)", frame, op.name)
		switch {
		case o.Kind != "ok":
			r.Fail("registry/"+op.name, "ReadPDU does not accept a minimal frame of an SMPP v5 operation", in, fmt.Sprintf("%s err=%v", o.Kind, o.Err), "a PDU of that operation")
		case uint32(reflect.ValueOf(o.PDU).Elem().Field(0).Interface().(pdu.Header).CommandID) != op.id || o.Consumed != len(frame):
			r.Fail("registry/"+op.name, "a minimal frame of an SMPP v5 operation decodes to another command_id / length", in,
				fmt.Sprintf("%T consumed=%d", o.PDU, o.Consumed), fmt.Sprintf("command_id %#x consumed=%d", op.id, len(frame)))
		default:
			r.Case("registry: minimal "+op.name, fmt.Sprintf("beq_read (run_read %s []) %s", coqHex(frame), o.term()))
		}
	}
	for _, t := range ts {
		if !specOps[t.ID] {
			frame := specFrame(t.ID, 77, nil)
			r.SetReplay(replayStream(frame, []int{len(frame)}))
			r.Fail(fmt.Sprintf("registry/unspecified-id/%#x", t.ID), "a command_id that SMPP v5 does not define is registered", fmt.Sprintf("readpdu %x", frame),
				t.Name, "only the 33 operations of section 4.7.5")
		}
	}
	// (4) inexpressible values must be refused
	type bad struct {
		what string
		p    interface{}
	}
	long := func(n int) []byte { return bytes.Repeat([]byte{0x55}, n) }
	manyA := make([]pdu.Address, 256)
	manyR := make(pdu.UnsuccessfulRecords, 256)
	bads := []bad{
		{"nul-in-string", &pdu.SubmitSM{Header: pdu.Header{Sequence: 1}, ServiceType: "a\x00b"}},
		{"nul-in-string", &pdu.BindTransmitter{Header: pdu.Header{Sequence: 1}, SystemID: "x", Password: "\x00"}},
		{"nul-in-address", &pdu.SubmitSM{Header: pdu.Header{Sequence: 1}, DestAddr: pdu.Address{No: "12\x0034"}}},
		{"nul-in-address", &pdu.SubmitMulti{Header: pdu.Header{Sequence: 1}, DestAddrList: pdu.DestinationAddresses{Addresses: []pdu.Address{{No: "1\x00"}}}}},
		{"nul-in-dl-name", &pdu.SubmitMulti{Header: pdu.Header{Sequence: 1}, DestAddrList: pdu.DestinationAddresses{DistributionList: []string{"ok", "a\x00"}}}},
		{"nul-in-unsuccess-address", &pdu.SubmitMultiResp{Header: pdu.Header{Sequence: 1}, UnsuccessfulSMEs: pdu.UnsuccessfulRecords{{DestAddr: pdu.Address{No: "\x001"}}}}},
		{"too-many-destinations", &pdu.SubmitMulti{Header: pdu.Header{Sequence: 1}, DestAddrList: pdu.DestinationAddresses{Addresses: manyA}}},
		{"too-many-records", &pdu.SubmitMultiResp{Header: pdu.Header{Sequence: 1}, UnsuccessfulSMEs: manyR}},
		{"tlv-65535", &pdu.DeliverSMResp{Header: pdu.Header{Sequence: 1}, Tags: pdu.Tags{5: long(65535)}}},
		{"tlv-65536", &pdu.DeliverSMResp{Header: pdu.Header{Sequence: 1}, Tags: pdu.Tags{5: long(65536)}}},
		{"udh-element-256", &pdu.SubmitSM{Header: pdu.Header{Sequence: 1}, ESMClass: pdu.ESMClass{UDHIndicator: true}, Message: pdu.ShortMessage{UDHeader: pdu.UserDataHeader{1: long(256)}}}},
		{"udh+message-256", &pdu.SubmitSM{Header: pdu.Header{Sequence: 1}, ESMClass: pdu.ESMClass{UDHIndicator: true},
			Message: pdu.ShortMessage{UDHeader: pdu.UserDataHeader{1: long(120), 2: long(100)}, Message: long(32)}}},
		{"udh+message-wrap-to-small", &pdu.SubmitSM{Header: pdu.Header{Sequence: 1}, ESMClass: pdu.ESMClass{UDHIndicator: true},
			Message: pdu.ShortMessage{UDHeader: pdu.UserDataHeader{1: long(126), 2: long(125)}, Message: long(5)}}},
		{"esm_class-mode-4", &pdu.SubmitSM{Header: pdu.Header{Sequence: 1}, ESMClass: pdu.ESMClass{MessageMode: 4}}},
		{"esm_class-type-0x1f", &pdu.DeliverSM{Header: pdu.Header{Sequence: 1}, ESMClass: pdu.ESMClass{MessageMode: 1, MessageType: 0x1F}}},
		{"esm_class-mode-0xff", &pdu.DataSM{Header: pdu.Header{Sequence: 1}, ESMClass: pdu.ESMClass{MessageMode: 0xFF, UDHIndicator: true}}},
		{"registered_delivery-receipt-7", &pdu.SubmitSM{Header: pdu.Header{Sequence: 1}, RegisteredDelivery: pdu.RegisteredDelivery{MCDeliveryReceipt: 7}}},
		{"registered_delivery-ack-4", &pdu.SubmitMulti{Header: pdu.Header{Sequence: 1}, RegisteredDelivery: pdu.RegisteredDelivery{SMEOriginatedAcknowledgment: 4}}},
		{"registered_delivery-reserved-9", &pdu.ReplaceSM{Header: pdu.Header{Sequence: 1}, RegisteredDelivery: pdu.RegisteredDelivery{MCDeliveryReceipt: 1, Reserved: 9}}},
		{"message-141", &pdu.SubmitSM{Header: pdu.Header{Sequence: 1}, Message: pdu.ShortMessage{Message: long(141)}}},
	}
	// boundary combinations, with the expected verdict computed from the field widths of the specification
	type maybe struct {
		what       string
		p          interface{}
		expectable bool // true = the value fits its fields
	}
	var maybes []maybe
	for i := 0; i < r.N(120, 2000); i++ {
		u := pdu.UserDataHeader{}
		total := 1
		for k := 0; k < 1+r.Rng.Intn(5); k++ {
			id := byte(k*7 + r.Rng.Intn(7))
			sz := r.Rng.Pick([]int{0, 1, 5, 40, 100, 126, 200, 250, 255})
			u[id] = long(sz)
			total += 2 + sz
		}
		ml := r.Rng.Pick([]int{0, 1, 5, 30, 100, 140})
		maybes = append(maybes, maybe{fmt.Sprintf("udh(%d)+message(%d)", total, ml),
			&pdu.SubmitSM{Header: pdu.Header{Sequence: 1}, ESMClass: pdu.ESMClass{UDHIndicator: true},
				Message: pdu.ShortMessage{UDHeader: u, Message: long(ml)}}, total+ml <= 255})
	}
	for _, c := range [][2]int{{200, 56}, {200, 55}, {255, 1}, {1, 255}, {255, 0}, {0, 255}, {255, 255}, {128, 128}, {127, 128}, {256, 0}, {0, 256}, {300, 212}} {
		d := pdu.DestinationAddresses{Addresses: make([]pdu.Address, c[0]), DistributionList: make([]string, c[1])}
		maybes = append(maybes, maybe{fmt.Sprintf("destinations(%d+%d)", c[0], c[1]),
			&pdu.SubmitMulti{Header: pdu.Header{Sequence: 1}, DestAddrList: d}, c[0]+c[1] <= 255})
	}
	for _, c := range []int{0, 1, 254, 255, 256, 257, 511, 512} {
		maybes = append(maybes, maybe{fmt.Sprintf("records(%d)", c),
			&pdu.SubmitMultiResp{Header: pdu.Header{Sequence: 1}, UnsuccessfulSMEs: make(pdu.UnsuccessfulRecords, c)}, c <= 255})
	}
	for _, c := range []int{1, 65534, 65535, 65536, 65537, 131071} {
		maybes = append(maybes, maybe{fmt.Sprintf("tlv(%d)", c),
			&pdu.DeliverSMResp{Header: pdu.Header{Sequence: 1}, Tags: pdu.Tags{5: long(c)}}, c <= 65535})
	}
	for _, m := range maybes {
		r.SetReplay(replayValue(m.p))
		_, err, w, panicked, pmsg := marshalRec(m.p)
		r.Count("maybe/"+m.what, true, "field-width boundary")
		in := fmt.Sprintf("marshal %T %s", m.p, m.what)
		switch {
		case panicked:
			r.Fail("misstatement/panic", "Marshal panicked", in, pmsg, "a frame or an error")
		case err == nil && !m.expectable:
			r.Fail("misstatement/"+strings.SplitN(m.what, "(", 2)[0], "Marshal emitted a frame for a value its field cannot express (the frame means something else)", in,
				"frame "+shortHex(w.calls[0]), "an error")
		case err == nil:
			// the frame must state the value: decode and compare
			o := readOnce(&chunkReader{data: w.calls[0], sched: []int{len(w.calls[0])}})
			if len(w.calls[0]) <= 65536 && (o.Kind != "ok" || canonNoLenID(o.PDU) != canonNoLenID(m.p)) {
				r.Fail("misstatement/"+strings.SplitN(m.what, "(", 2)[0]+"/decodes-differently", "the emitted frame does not state the value", in, o.Kind, "decodes to the value")
			}
		}
	}
	for _, b := range bads {
		term := coqValue(b.p)
		r.SetReplay(replayValue(b.p))
		_, err, w, panicked, pmsg := marshalRec(b.p)
		r.Count("bad/"+b.what+term, true, "inexpressible/"+b.what)
		in := fmt.Sprintf("marshal %T %.400s", b.p, term)
		if panicked {
			r.Fail("misstatement/"+b.what, "Marshal panicked on a value its field cannot express", in, pmsg, "an error")
		} else if err == nil {
			got := ""
			if len(w.calls) > 0 {
				got = shortHex(w.calls[0])
			}
			r.Fail("misstatement/"+b.what, "Marshal emitted a frame for a value its field cannot express (the frame means something else)", in, "frame "+got, "an error")
		}
		id := uint32(0)
		for _, t := range ts {
			if t.T == reflect.TypeOf(b.p).Elem() {
				id = t.ID
			}
		}
		if len(term) < 4000 {
			want := "(Err EOther)"
			if err == nil && !panicked && len(w.calls) == 1 {
				want = "(Ok " + coqHex(w.calls[0]) + ")"
			}
			r.Case("marshal refuses "+b.what, fmt.Sprintf("beq_obytes (marshal %s %s) %s", layoutRef(id), term, want))
		}
	}
}
