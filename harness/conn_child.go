package main

// The forced schedules run in a child process: a fatal error of the Go runtime
// inside the library ("concurrent map writes", a deadlock) cannot be recovered
// and must be an observation, not the end of the check.

import (
	"bytes"
	"encoding/json"
	"fmt"
	"os"
	"os/exec"
	"path/filepath"
	"regexp"
	"strings"
	"time"
)

type childRun struct {
	Evaluations int
	Distinct    []string
	Hist        map[string]int
	Samples     []interface{}
	Rule        string
	Failures    []Failure
	FailSeen    map[string]int
	Notes       []string
	Imports     []string
	CaseExprs   []string
	CaseDescs   []string
	PerShard    int
}

var connProgressFile string

// connProgress records what the child is doing (read by the parent when the child dies).
func connProgress(s string) {
	if connProgressFile != "" {
		_ = os.WriteFile(connProgressFile, []byte(s), 0o644)
	}
}

func connInChild(r *Run, work func(r *Run)) {
	dump := filepath.Join(r.Dir, "child_run.json")
	prog := filepath.Join(r.Dir, "child_progress.txt")
	if os.Getenv("VERIF_CONN_CHILD") == "1" {
		connProgressFile = prog
		work(r)
		c := childRun{Evaluations: r.Evaluations, Hist: r.Hist, Samples: r.Samples, Rule: r.Rule, Failures: r.Failures,
			FailSeen: r.failSeen, Notes: r.Notes, Imports: r.imports, CaseExprs: r.caseExprs, CaseDescs: r.caseDescs, PerShard: r.perShard}
		for k := range r.distinct {
			c.Distinct = append(c.Distinct, k)
		}
		data, _ := json.Marshal(c)
		_ = os.WriteFile(dump, data, 0o644)
		return
	}
	_ = os.Remove(dump)
	_ = os.Remove(prog)
	cmd := exec.Command(os.Args[0], os.Args[1:]...)
	cmd.Env = append(os.Environ(), "VERIF_CONN_CHILD=1")
	var stderr bytes.Buffer
	cmd.Stderr = &stderr
	cmd.Stdout = &stderr
	done := make(chan error, 1)
	if err := cmd.Start(); err != nil {
		fmt.Fprintln(os.Stderr, "cannot start child:", err)
		os.Exit(2)
	}
	go func() { done <- cmd.Wait() }()
	limit := 25 * time.Minute
	if r.Quick {
		limit = 4 * time.Minute
	}
	var err error
	select {
	case err = <-done:
	case <-time.After(limit):
		_ = cmd.Process.Kill()
		err = fmt.Errorf("child exceeded %s", limit)
	}
	if data, e := os.ReadFile(dump); e == nil && err == nil {
		var c childRun
		if json.Unmarshal(data, &c) == nil {
			r.Evaluations, r.Hist, r.Samples, r.Rule, r.Failures, r.failSeen, r.Notes = c.Evaluations, c.Hist, c.Samples, c.Rule, c.Failures, c.FailSeen, c.Notes
			r.imports, r.caseExprs, r.caseDescs, r.perShard = c.Imports, c.CaseExprs, c.CaseDescs, c.PerShard
			if r.Hist == nil {
				r.Hist = map[string]int{}
			}
			if r.failSeen == nil {
				r.failSeen = map[string]int{}
			}
			for _, k := range c.Distinct {
				r.distinct[k] = struct{}{}
			}
			return
		}
	}
	// the child died: a runtime fatal error (or a tool problem) — report it with what it was doing
	out := stderr.String()
	last, _ := os.ReadFile(prog)
	class := "runtime-fatal/other"
	what := "the process running the library died"
	if m := regexp.MustCompile(`fatal error: (concurrent map[^\n]*)`).FindStringSubmatch(out); m != nil {
		class = "runtime-fatal/concurrent-map-access"
		what = "the Go runtime aborted the process: " + m[1]
	} else if strings.Contains(out, "all goroutines are asleep") {
		class = "runtime-fatal/deadlock"
	}
	inLib := strings.Contains(out, "go-smpp.(*Conn)")
	if !inLib && class == "runtime-fatal/other" {
		fmt.Fprintln(os.Stderr, "child failed without a library frame:", err, "\n", tail(out, 3000))
		os.Exit(2)
	}
	r.Evaluations++
	r.Rule = "forced schedules of the connection engine (child process died; see failing input)"
	r.Fail(class, what, "sched "+string(last), tail(head(out, 6000), 2500), "no runtime fatal error")
}

func head(s string, n int) string {
	if len(s) > n {
		return s[:n]
	}
	return s
}

func tail(s string, n int) string {
	if len(s) > n {
		return s[len(s)-n:]
	}
	return s
}
