package main

import (
	"bytes"
	"encoding/hex"
	"encoding/json"
	"fmt"
	"os"
	"path/filepath"
	"sort"
	"strings"
)

// ---------------------------------------------------------------- PRNG
// splitmix64: every random choice of a run derives from one state.
type Rng struct{ s uint64 }

func (r *Rng) U64() uint64 {
	r.s += 0x9E3779B97F4A7C15
	z := r.s
	z = (z ^ (z >> 30)) * 0xBF58476D1CE4E5B9
	z = (z ^ (z >> 27)) * 0x94D049BB133111EB
	return z ^ (z >> 31)
}
func (r *Rng) Intn(n int) int {
	if n <= 0 {
		return 0
	}
	return int(r.U64() % uint64(n))
}
func (r *Rng) Bool() bool        { return r.U64()&1 == 1 }
func (r *Rng) Byte() byte        { return byte(r.U64()) }
func (r *Rng) Pick(xs []int) int { return xs[r.Intn(len(xs))] }
func (r *Rng) Bytes(n int) []byte {
	b := make([]byte, n)
	for i := range b {
		b[i] = r.Byte()
	}
	return b
}

// ---------------------------------------------------------------- Coq emission
type CoqWriter struct{ bytes.Buffer }

func NewCoqWriter() *CoqWriter { return &CoqWriter{} }
func (w *CoqWriter) P(format string, a ...interface{}) {
	fmt.Fprintf(&w.Buffer, format, a...)
	w.WriteByte('\n')
}
func (w *CoqWriter) WriteIfChanged(path string) error {
	old, err := os.ReadFile(path)
	if err == nil && bytes.Equal(old, w.Bytes()) {
		return nil
	}
	if err := os.MkdirAll(filepath.Dir(path), 0o755); err != nil {
		return err
	}
	tmp := path + ".tmp"
	if err := os.WriteFile(tmp, w.Bytes(), 0o644); err != nil {
		return err
	}
	return os.Rename(tmp, path)
}

func coqBool(b bool) string {
	if b {
		return "true"
	}
	return "false"
}

// coqHex prints an octet string as a Gallina term.  Long strings are split so
// that no string literal is deeper than 1024 constructors.
func coqHex(b []byte) string {
	const chunk = 512
	if len(b) <= chunk {
		return `(hx "` + hex.EncodeToString(b) + `")`
	}
	var parts []string
	for i := 0; i < len(b); i += chunk {
		j := i + chunk
		if j > len(b) {
			j = len(b)
		}
		parts = append(parts, `hx "`+hex.EncodeToString(b[i:j])+`"`)
	}
	return "(hxs [" + strings.Join(parts, "; ") + "])"
}
func coqN(n uint64) string { return fmt.Sprintf("%d", n) }
func coqZ(n int64) string {
	if n < 0 {
		return fmt.Sprintf("(%d)%%Z", n)
	}
	return fmt.Sprintf("%d%%Z", n)
}
func coqList(items []string) string { return "[" + strings.Join(items, "; ") + "]" }
func coqNList(xs []uint64) string {
	s := make([]string, len(xs))
	for i, x := range xs {
		s[i] = coqN(x)
	}
	return coqList(s)
}
func coqRunes(rs []rune) string {
	s := make([]string, len(rs))
	for i, x := range rs {
		s[i] = coqN(uint64(x))
	}
	return coqList(s)
}

// ---------------------------------------------------------------- a correspondence / direct-test run
type Failure struct {
	Class    string      `json:"class"`            // narrow identity used by KNOWN_FINDINGS matching
	What     string      `json:"what"`             // one line
	Input    string      `json:"input"`            // replayable input (op line)
	Observed string      `json:"observed"`         // what the implementation did
	Required string      `json:"required"`         // what the property demands
	Replay   interface{} `json:"replay,omitempty"` // machine-readable form of the input for `./check <id> --replay`
}

type Run struct {
	PID, Tier string
	Seed      uint64
	Dir       string
	Rng       *Rng
	Quick     bool

	Evaluations int
	distinct    map[string]struct{}
	Hist        map[string]int
	Samples     []interface{}
	Rule        string
	Failures    []Failure
	failSeen    map[string]int
	Notes       []string

	replay interface{} // replay object of the case being evaluated (SetReplay)

	imports   []string
	caseExprs []string // boolean Gallina expressions
	caseDescs []string
	perShard  int
	advExprs  []string // advisory model cases (Advisory): evaluated like cases, a mismatch is a note in the evidence
	advDescs  []string
}

func NewRun(pid, tier string, seed uint64, dir string) *Run {
	_ = os.MkdirAll(dir, 0o755)
	old, _ := filepath.Glob(filepath.Join(dir, "cases_*"))
	for _, f := range old {
		_ = os.Remove(f)
	}
	return &Run{PID: pid, Tier: tier, Seed: seed, Dir: dir, Rng: &Rng{s: seed*0x2545F4914F6CDD1D + 0x1234567},
		Quick: tier != "thorough", distinct: map[string]struct{}{}, Hist: map[string]int{},
		failSeen: map[string]int{}, perShard: 400}
}

// N returns q for the quick tier and t for thorough.
func (r *Run) N(q, t int) int {
	if r.Quick {
		return q
	}
	return t
}

func (r *Run) Import(mod string) {
	for _, m := range r.imports {
		if m == mod {
			return
		}
	}
	r.imports = append(r.imports, mod)
}

// PerShard sets how many model cases go into one coqc invocation (default 400;
// lower it when single cases are large terms).
func (r *Run) PerShard(n int) {
	if n > 0 {
		r.perShard = n
	}
}

// Count records one evaluated case; key identifies it for distinctness, nontrivial
// says whether it counts by the property's rule; bucket feeds the input histogram.
func (r *Run) Count(key string, nontrivial bool, bucket string) {
	r.Evaluations++
	if nontrivial {
		if len(key) > 200 {
			key = fmt.Sprintf("%d:%x", len(key), fnv64(key))
		}
		r.distinct[key] = struct{}{}
	}
	if bucket != "" {
		r.Hist[bucket]++
	}
}

func fnv64(s string) uint64 {
	h := uint64(14695981039346656037)
	for i := 0; i < len(s); i++ {
		h ^= uint64(s[i])
		h *= 1099511628211
	}
	return h
}

func (r *Run) Sample(v interface{}) {
	if len(r.Samples) < 12 {
		r.Samples = append(r.Samples, v)
	}
}

// SetReplay declares the machine-readable form of the input now being evaluated; the next
// Fail calls attach it to their record.
func (r *Run) SetReplay(v interface{}) { r.replay = v }

// Fail records a direct property failure on the implementation.  At most
// three per class are kept (the first ones generated are the smallest, the
// corpus and boundary cases run first).
func (r *Run) Fail(class, what, input, observed, required string) {
	r.failSeen[class]++
	if r.failSeen[class] > 3 {
		return
	}
	r.Failures = append(r.Failures, Failure{class, what, input, observed, required, r.replay})
}

// Case adds one model-correspondence case: expr is a closed boolean Gallina
// term that is true iff the model reproduces what the implementation did.
func (r *Run) Case(desc, expr string) {
	r.caseDescs = append(r.caseDescs, desc)
	r.caseExprs = append(r.caseExprs, expr)
}

// Advisory adds a model case OUTSIDE what the property states (e.g. the decoded value of a hostile input,
// where the property only demands an error or a value).  It is evaluated in the kernel like a Case; a
// mismatch is reported as a note in the evidence ("the model no longer describes the code there"), never as
// a violation, so that a change which keeps the property true keeps the check quiet.
func (r *Run) Advisory(desc, expr string) {
	r.advDescs = append(r.advDescs, desc)
	r.advExprs = append(r.advExprs, expr)
}

func (r *Run) Finish() error {
	type shard struct {
		File  string   `json:"file"`
		Descs []string `json:"descs"`
	}
	var shards []shard
	var advShards []shard
	for start, k := 0, 0; start < len(r.advExprs); k++ {
		end, size := start, 0
		for end < len(r.advExprs) && end-start < r.perShard && (end == start || size+len(r.advExprs[end]) <= 160<<10) {
			size += len(r.advExprs[end])
			end++
		}
		w := NewCoqWriter()
		for _, m := range r.imports {
			w.P("From V Require Import %s.", m)
		}
		w.P("Open Scope N_scope.")
		for i := start; i < end; i++ {
			w.P("Definition c%d : bool := Eval vm_compute in (%s).", i-start, r.advExprs[i])
		}
		w.P("Definition cases : list (N * bool) := [")
		for i := start; i < end; i++ {
			sep := ";"
			if i == end-1 {
				sep = ""
			}
			w.P(" (%d, c%d)%s", i-start, i-start, sep)
		}
		w.P("].")
		w.P("Definition M := Eval vm_compute in mismatches cases.")
		w.P("Print M.")
		name := fmt.Sprintf("cases_adv_%d.v", k)
		if err := os.WriteFile(filepath.Join(r.Dir, name), w.Bytes(), 0o644); err != nil {
			return err
		}
		advShards = append(advShards, shard{name, r.advDescs[start:end]})
		start = end
	}
	// a shard ends after perShard cases or ~maxBytes of term text, whichever comes first
	const maxBytes = 160 << 10
	for start, k := 0, 0; start < len(r.caseExprs); k++ {
		end, size := start, 0
		for end < len(r.caseExprs) && end-start < r.perShard && (end == start || size+len(r.caseExprs[end]) <= maxBytes) {
			size += len(r.caseExprs[end])
			end++
		}
		w := NewCoqWriter()
		for _, m := range r.imports {
			w.P("From V Require Import %s.", m)
		}
		w.P("Open Scope N_scope.")
		for i := start; i < end; i++ {
			w.P("Definition c%d : bool := Eval vm_compute in (%s).", i-start, r.caseExprs[i])
		}
		w.P("Definition cases : list (N * bool) := [")
		for i := start; i < end; i++ {
			sep := ";"
			if i == end-1 {
				sep = ""
			}
			w.P(" (%d, c%d)%s", i-start, i-start, sep)
		}
		w.P("].")
		w.P("Definition M := Eval vm_compute in mismatches cases.")
		w.P("Print M.")
		name := fmt.Sprintf("cases_%d.v", k)
		if err := os.WriteFile(filepath.Join(r.Dir, name), w.Bytes(), 0o644); err != nil {
			return err
		}
		shards = append(shards, shard{name, r.caseDescs[start:end]})
		start = end
	}
	keys := make([]string, 0, len(r.Hist))
	for k := range r.Hist {
		keys = append(keys, k)
	}
	sort.Strings(keys)
	out := map[string]interface{}{
		"property_id":         r.PID,
		"tier":                r.Tier,
		"seed":                r.Seed,
		"evaluations":         r.Evaluations,
		"distinct_nontrivial": len(r.distinct),
		"rule":                r.Rule,
		"samples":             r.Samples,
		"histogram":           r.Hist,
		"failures":            r.Failures,
		"failure_counts":      r.failSeen,
		"shards":              shards,
		"n_cases":             len(r.caseExprs),
		"advisory_shards":     advShards,
		"n_advisory":          len(r.advExprs),
		"notes":               r.Notes,
	}
	data, err := json.MarshalIndent(out, "", " ")
	if err != nil {
		return err
	}
	return os.WriteFile(filepath.Join(r.Dir, "result.json"), data, 0o644)
}

// guard runs f and reports whether it panicked (with the panic text).
func guard(f func()) (panicked bool, msg string) {
	defer func() {
		if e := recover(); e != nil {
			panicked = true
			msg = fmt.Sprint(e)
		}
	}()
	f()
	return
}
