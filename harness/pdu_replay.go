package main

import (
	"encoding/hex"
	"encoding/json"
	"fmt"
	"reflect"
	"strings"

	"github.com/M2MGateway/go-smpp/pdu"
)

// Replay objects of the pdu engine:
//
//	{"op":"value","type":"SubmitSM","json":<encoding/json of the struct>,"status_case":bool}   Marshal (+ ReadPDU) of a value
//	{"op":"stream","hex":"...","sched":[...]}                                                     successive ReadPDU calls
//	{"op":"reencode","hex":"..."}                                                                 ReadPDU, Marshal, ReadPDU, Marshal
func replayValue(p interface{}) map[string]interface{} {
	b, _ := json.Marshal(p)
	return map[string]interface{}{"op": "value", "type": reflect.TypeOf(p).Elem().Name(), "json": json.RawMessage(b)}
}
func replayStream(data []byte, sched []int) map[string]interface{} {
	return map[string]interface{}{"op": "stream", "hex": hex.EncodeToString(data), "sched": sched}
}
func replayReencode(data []byte) map[string]interface{} {
	return map[string]interface{}{"op": "reencode", "hex": hex.EncodeToString(data)}
}

func init() {
	for _, pid := range []string{"C01", "C02", "C03", "C04", "C12", "C13", "C11"} {
		replayTable[pid] = replayPDU
	}
}

func replayPDU(arg string) string {
	var obj struct {
		Failing struct {
			Replay map[string]json.RawMessage `json:"replay"`
		} `json:"failing_input"`
	}
	if err := json.Unmarshal([]byte(arg), &obj); err != nil || obj.Failing.Replay == nil {
		return "no machine-readable replay object in this file"
	}
	rp := obj.Failing.Replay
	var op string
	_ = json.Unmarshal(rp["op"], &op)
	var out []string
	switch op {
	case "value":
		var tn string
		_ = json.Unmarshal(rp["type"], &tn)
		for _, t := range pduTypes() {
			if t.Name != tn {
				continue
			}
			p := reflect.New(t.T).Interface()
			if err := json.Unmarshal(rp["json"], p); err != nil {
				return "cannot rebuild the value: " + err.Error()
			}
			out = append(out, "value: "+coqValue(p))
			for _, key := range []string{"failed_call_before", "failed_call_between"} {
				if rp[key] == nil {
					continue
				}
				var hx struct {
					Kind, What, Type string
					JSON             json.RawMessage `json:"json"`
					Room             int
				}
				_ = json.Unmarshal(rp[key], &hx)
				for _, u := range pduTypes() {
					if u.Name != hx.Type {
						continue
					}
					bad := reflect.New(u.T).Interface()
					_ = json.Unmarshal(hx.JSON, bad)
					x := poison{kind: hx.Kind, what: hx.What, p: bad, room: hx.Room}
					if key == "failed_call_between" {
						q := reflect.New(t.T).Interface()
						_ = json.Unmarshal(rp["json"], q)
						_, e0, w0, _, _ := marshalRec(q)
						if e0 == nil && len(w0.calls) > 0 {
							out = append(out, "first Marshal of the value: "+hex.EncodeToString(w0.calls[0]))
						}
					}
					failed, pk, pm := x.run()
					out = append(out, fmt.Sprintf("then a Marshal that must fail (%s): failed=%v panicked=%v %s; then the value is marshalled:", x, failed, pk, pm))
				}
			}
			n, err, w, panicked, pmsg := marshalRec(p)
			out = append(out, fmt.Sprintf("Marshal: n=%d err=%v panicked=%v %s writes=%d", n, err, panicked, pmsg, len(w.calls)))
			if rp["dest"] != nil {
				var kind, heldHex string
				var room int
				_ = json.Unmarshal(rp["dest"], &kind)
				_ = json.Unmarshal(rp["held"], &heldHex)
				_ = json.Unmarshal(rp["room"], &room)
				held, _ := hex.DecodeString(heldHex)
				q := reflect.New(t.T).Interface()
				_ = json.Unmarshal(rp["json"], q)
				if kind == "twice" {
					_, _, _, _, _ = marshalRec(q)
					n2, err2, w2, panicked2, pmsg2 := marshalRec(q)
					out = append(out, fmt.Sprintf("second Marshal of the same pointer: n=%d err=%v panicked=%v %s writes=%d", n2, err2, panicked2, pmsg2, len(w2.calls)))
					if len(w2.calls) > 0 {
						out = append(out, "second frame: "+hex.EncodeToString(w2.calls[0]))
					}
				} else {
					n2, err2, got, panicked2, pmsg2 := marshalInto(q, kind, held, room)
					out = append(out, fmt.Sprintf("Marshal into %s holding %s (room %d): n=%d err=%v panicked=%v %s", kind, heldHex, room, n2, err2, panicked2, pmsg2))
					out = append(out, "destination afterwards: "+hex.EncodeToString(got))
				}
			}
			if err == nil && !panicked && len(w.calls) > 0 {
				out = append(out, "frame: "+hex.EncodeToString(w.calls[0]))
				o := readOnce(&chunkReader{data: w.calls[0], sched: []int{len(w.calls[0])}})
				out = append(out, fmt.Sprintf("ReadPDU: %s consumed=%d err=%v", o.Kind, o.Consumed, o.Err))
				if o.PDU != nil {
					out = append(out, "decoded: "+coqValue(o.PDU))
				}
			}
		}
	case "stream":
		var hx string
		var sched []int
		_ = json.Unmarshal(rp["hex"], &hx)
		_ = json.Unmarshal(rp["sched"], &sched)
		data, _ := hex.DecodeString(hx)
		var eofWithData bool
		var zeroEvery int
		if rp["eof_with_data"] != nil {
			_ = json.Unmarshal(rp["eof_with_data"], &eofWithData)
			_ = json.Unmarshal(rp["zero_every"], &zeroEvery)
			out = append(out, fmt.Sprintf("transport: last octets returned together with io.EOF=%v, a 0-octet read every %d reads", eofWithData, zeroEvery))
		}
		for i, o := range readAllAttr(data, sched, 64, eofWithData, zeroEvery) {
			line := fmt.Sprintf("call %d: %s consumed=%d err=%v %s", i, o.Kind, o.Consumed, o.Err, o.Msg)
			if o.PDU != nil {
				line += " value=" + coqValue(o.PDU)
			}
			out = append(out, line)
		}
	case "reencode":
		var hx string
		_ = json.Unmarshal(rp["hex"], &hx)
		data, _ := hex.DecodeString(hx)
		o := readOnce(&chunkReader{data: data, sched: []int{len(data)}})
		out = append(out, fmt.Sprintf("ReadPDU: %s err=%v", o.Kind, o.Err))
		if o.PDU != nil {
			out = append(out, "decoded: "+canonStable(o.PDU))
			_, err, w, panicked, _ := marshalRec(o.PDU)
			out = append(out, fmt.Sprintf("Marshal: err=%v panicked=%v", err, panicked))
			if err == nil && !panicked && len(w.calls) == 1 {
				out = append(out, "re-encoded: "+hex.EncodeToString(w.calls[0]))
				o2 := readOnce(&chunkReader{data: w.calls[0], sched: []int{len(w.calls[0])}})
				out = append(out, fmt.Sprintf("ReadPDU again: %s err=%v", o2.Kind, o2.Err))
				if o2.PDU != nil {
					out = append(out, "decoded again: "+canonStable(o2.PDU))
					_, err2, w2, _, _ := marshalRec(o2.PDU)
					if err2 == nil && len(w2.calls) == 1 {
						out = append(out, "encoded again: "+hex.EncodeToString(w2.calls[0]))
					}
				}
			}
		}
	default:
		return "unknown replay op " + op
	}
	return strings.Join(out, "\n")
}

var _ = pdu.Marshal
