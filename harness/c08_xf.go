package main

// C08, second part: the transform.Transformer contract of the two gsm7bit transformers and the
// other public entry points of the objects NewEncoder / NewDecoder return (String, Writer + Close,
// Reader, one object used again).  Every call that could fail to return runs under a watchdog.

import (
	"bytes"
	"errors"
	"fmt"
	"io"
	"strings"
	"sync/atomic"
	"time"

	"github.com/M2MGateway/go-smpp/coding/gsm7bit"
	"golang.org/x/text/encoding"
	"golang.org/x/text/transform"
)

// ---------------------------------------------------------------- watchdog
// g7Watch runs f on its own goroutine.  hung = f had not returned after the patience below; the
// goroutine cannot be stopped, so an entry point that hung once is not called again (g7Hung).
// The patience is long and is only ever spent on a call that does not return: a correct call
// takes microseconds, so a busy machine cannot turn it into a finding.
var g7Patience = 20 * time.Second
var g7Hung = map[string]bool{}
var g7HungCount int32

func g7Watch(entry string, f func()) (hung, panicked bool, msg string) {
	if g7Hung[entry] {
		return true, false, "skipped: this entry point did not return earlier in the run"
	}
	type res struct {
		p bool
		m string
	}
	done := make(chan res, 1)
	go func() {
		p, m := guard(f)
		done <- res{p, m}
	}()
	select {
	case x := <-done:
		return false, x.p, x.m
	case <-time.After(g7Patience):
		g7Hung[entry] = true
		atomic.AddInt32(&g7HungCount, 1)
		return true, false, fmt.Sprintf("no return after %v", g7Patience)
	}
}

// ---------------------------------------------------------------- one direct Transform call
// class: 0 nil, 1 another error, 2 panic, 3 ErrShortDst, 4 ErrShortSrc, 5 did not return
type g7Call struct {
	cls        int
	nDst, nSrc int
	dst        []byte // the whole destination after the call
	msg        string
}

func errClass(err error) int {
	switch {
	case err == nil:
		return 0
	case errors.Is(err, transform.ErrShortDst):
		return 3
	case errors.Is(err, transform.ErrShortSrc):
		return 4
	}
	return 1
}

// g7Xf calls t.Transform(dst, src, atEOF) with dst as given (it is modified in place).
func g7Xf(entry string, t transform.Transformer, reset bool, dst, src []byte, atEOF bool) g7Call {
	var c g7Call
	var err error
	hung, p, m := g7Watch(entry, func() {
		if reset {
			t.Reset()
		}
		c.nDst, c.nSrc, err = t.Transform(dst, src, atEOF)
	})
	c.dst = dst
	switch {
	case hung:
		return g7Call{cls: 5, msg: m}
	case p:
		return g7Call{cls: 2, msg: m, dst: dst}
	}
	c.cls = errClass(err)
	if err != nil {
		c.msg = err.Error()
	}
	return c
}

func mkDst(n int, fill int, rng *Rng) []byte {
	d := make([]byte, n)
	switch {
	case fill < 0:
		copy(d, rng.Bytes(n))
	default:
		for i := range d {
			d[i] = byte(fill)
		}
	}
	return d
}

func coqDst(n int, fill int, d0 []byte) string {
	if fill >= 0 {
		return fmt.Sprintf("(repeat %d %d%%nat)", fill, n)
	}
	return coqHex(d0)
}

// g7Drive does what transform.Writer / Reader do with a destination buffer of capacity c that they
// flush whenever something was claimed: call, take dst[:nDst], advance src by nSrc, repeat while
// ErrShortDst came WITH progress.  Returns what was delivered and the class of the last call.
func g7Drive(entry string, t transform.Transformer, src []byte, c int, fill int, rng *Rng) (out []byte, last g7Call, calls int, bad string) {
	t.Reset()
	limit := 4 + len(src)
	for calls = 1; calls <= limit; calls++ {
		dst := mkDst(c, fill, rng)
		last = g7Xf(entry, t, false, dst, src, true)
		if last.cls == 2 || last.cls == 5 {
			return
		}
		if last.nDst < 0 || last.nDst > len(dst) || last.nSrc < 0 || last.nSrc > len(src) {
			bad = fmt.Sprintf("nDst=%d nSrc=%d with len(dst)=%d len(src)=%d", last.nDst, last.nSrc, len(dst), len(src))
			return
		}
		out = append(out, dst[:last.nDst]...)
		src = src[last.nSrc:]
		if last.cls == 3 && (last.nDst > 0 || last.nSrc > 0) {
			continue
		}
		if last.cls == 0 && len(src) > 0 {
			bad = fmt.Sprintf("nil error with %d source octets not consumed (nSrc=%d)", len(src), last.nSrc)
		}
		return
	}
	bad = "no end"
	return
}

// ---------------------------------------------------------------- the other entry points
type g7Entry struct {
	cls int // 0 value, 1 error, 2 panic, 5 did not return
	out []byte
	msg string
}

func g7Run(entry string, f func() ([]byte, error)) g7Entry {
	var out []byte
	var err error
	hung, p, m := g7Watch(entry, func() { out, err = f() })
	switch {
	case hung:
		return g7Entry{5, nil, m}
	case p:
		return g7Entry{2, nil, m}
	case err != nil:
		return g7Entry{1, nil, err.Error()}
	}
	return g7Entry{0, out, ""}
}

// g7ChunkReader hands out src in pieces of the given sizes (cyclically), like a network reader would.
type g7ChunkReader struct {
	src   []byte
	sizes []int
	i     int
}

func (c *g7ChunkReader) Read(p []byte) (int, error) {
	if len(c.src) == 0 {
		return 0, io.EOF
	}
	n := c.sizes[c.i%len(c.sizes)]
	c.i++
	if n > len(c.src) {
		n = len(c.src)
	}
	if n > len(p) {
		n = len(p)
	}
	copy(p, c.src[:n])
	c.src = c.src[n:]
	return n, nil
}

func readAllSmall(r io.Reader, p int) ([]byte, error) {
	var out []byte
	buf := make([]byte, p)
	for i := 0; i < 1<<20; i++ {
		n, err := r.Read(buf)
		out = append(out, buf[:n]...)
		if err == io.EOF {
			return out, nil
		}
		if err != nil {
			return nil, err
		}
	}
	return nil, errors.New("reader never reported EOF")
}

func writeChunks(t transform.Transformer, src []byte, cuts []int) ([]byte, error) {
	var buf bytes.Buffer
	w := transform.NewWriter(&buf, t)
	prev := 0
	for _, c := range append(append([]int{}, cuts...), len(src)) {
		if c < prev || c > len(src) {
			continue
		}
		n, err := w.Write(src[prev:c])
		if err != nil {
			return nil, err
		}
		if n != c-prev {
			return nil, fmt.Errorf("short write: %d of %d octets, nil error", n, c-prev)
		}
		prev = c
	}
	if err := w.Close(); err != nil {
		return nil, err
	}
	return buf.Bytes(), nil
}

// the long-lived objects: used again and again over the whole run, never re-created
var g7SharedEnc *encoding.Encoder
var g7SharedDec *encoding.Decoder

func g7Shared() (*encoding.Encoder, *encoding.Decoder) {
	if g7SharedEnc == nil {
		g7SharedEnc = gsm7bit.Packed.NewEncoder()
		g7SharedDec = gsm7bit.Packed.NewDecoder()
	}
	return g7SharedEnc, g7SharedDec
}

// entries runs src through every entry point of one direction.  ref is what Bytes returned.
// limit: transform.Reader / Writer work with 4096-octet buffers; beyond that an error is a legitimate answer.
func (c *c08) entries(dir string, src []byte, ref g7Entry, in string, emit bool, judge func(name string, got g7Entry)) {
	r := c.r
	enc, dec := g7Shared()
	var t transform.Transformer
	var str func(string) (string, error)
	var byt func([]byte) ([]byte, error)
	if dir == "enc" {
		t, str, byt = gsm7bit.Packed.NewEncoder(), gsm7bit.Packed.NewEncoder().String, enc.Bytes
	} else {
		t, str, byt = gsm7bit.Packed.NewDecoder(), gsm7bit.Packed.NewDecoder().String, dec.Bytes
	}
	n := len(src)
	cut1 := 0
	if n > 0 {
		cut1 = r.Rng.Intn(n + 1)
	}
	cut2 := cut1
	if n > cut1 {
		cut2 = cut1 + r.Rng.Intn(n-cut1+1)
	}
	every := make([]int, 0, n)
	if n <= 64 {
		for i := 1; i < n; i++ {
			every = append(every, i)
		}
	} else {
		every = []int{1, 2, n - 1}
	}
	type ep struct {
		name string
		f    func() ([]byte, error)
	}
	eps := []ep{
		{"String", func() ([]byte, error) { s, err := str(string(src)); return []byte(s), err }},
		{"Bytes-on-a-long-lived-object", func() ([]byte, error) { return byt(append([]byte{}, src...)) }},
		{"Writer-one-Write", func() ([]byte, error) { return writeChunks(t, src, nil) }},
		{"Writer-two-or-three-Writes", func() ([]byte, error) { return writeChunks(t, src, []int{cut1, cut2}) }},
		{"Writer-octet-by-octet", func() ([]byte, error) { return writeChunks(t, src, every) }},
		{"Reader", func() ([]byte, error) {
			return readAllSmall(transform.NewReader(&g7ChunkReader{src: append([]byte{}, src...), sizes: []int{4096}}, t), 512)
		}},
		{"Reader-small-reads", func() ([]byte, error) {
			return readAllSmall(transform.NewReader(&g7ChunkReader{src: append([]byte{}, src...), sizes: []int{1 + r.Rng.Intn(5), 1, 7}}, t), 1+r.Rng.Intn(9))
		}},
	}
	for _, e := range eps {
		name := dir + "/" + e.name
		got := g7Run(name, e.f)
		r.Count("entry/"+name+"/"+string(src), n > 0, "entry point "+name)
		judge(e.name, got)
		if emit {
			pred := "enc_entry_ok"
			if dir == "dec" {
				pred = "dec_entry_ok"
			}
			// beyond the x/text buffers an error is a legitimate answer: not a model case
			if got.cls == 1 && ref.cls == 0 && (n >= 4000 || len(ref.out) >= 4000) {
				continue
			}
			// every entry point is compared with Bytes above (and Bytes with the model in text_case / dec_obs_ok);
			// two of the seven, in rotation, also become model cases of their own
			if e.name == "Writer-two-or-three-Writes" {
				// the chunks as written: the model's caller (feed) is run on the same chunking
				pred := "enc_feed_ok"
				if dir == "dec" {
					pred = "dec_feed_ok"
				}
				c.kase(fmt.Sprintf("%s %s cuts %d %d", name, in, cut1, cut2), fmt.Sprintf("%s [%s; %s; %s] %d %s", pred, coqHex(src[:cut1]), coqHex(src[cut1:cut2]), coqHex(src[cut2:]), got.cls, coqHex(got.out)))
				continue
			}
			c.nEntry++
			if got.cls == ref.cls && bytes.Equal(got.out, ref.out) && c.nEntry%7 != 0 && (c.nEntry+3)%7 != 0 {
				continue
			}
			c.kase(fmt.Sprintf("%s %s", name, in), fmt.Sprintf("%s %s %d %s", pred, coqHex(src), got.cls, coqHex(got.out)))
		}
	}
}

// xfEnc: direct calls of the encoder's Transform over destination sizes and prior destination contents.
func (c *c08) xfEnc(s string, e g7Enc, in string, level int) {
	r := c.r
	src := []byte(s)
	need := len(e.out)
	var caps []int
	if e.cls != 0 {
		caps = []int{0, len(src), len(src) + 3}
	} else if need <= 10 || level > 2 {
		for cp := 0; cp <= need+2; cp++ {
			caps = append(caps, cp)
		}
		caps = append(caps, need+slackGo-1, need+slackGo, need+slackGo+5)
	} else if need > 64 {
		// the model packs in quadratic time: a long text gets the three sizes that matter
		caps = []int{need - 1, need, need + slackGo}
	} else {
		caps = []int{0, 1, need - 1, need, need + 1, need + slackGo, len(src), need + 1 + r.Rng.Intn(40)}
	}
	seen := map[int]bool{}
	for _, cp := range caps {
		if cp < 0 || seen[cp] {
			continue
		}
		seen[cp] = true
		fills := []int{0xFF, -1}
		if need > 64 {
			fills = []int{[]int{0xFF, -1}[len(seen)%2]}
		} else if cp == need || level > 2 {
			fills = []int{0x00, 0xFF, -1}
		}
		for _, fill := range fills {
			d0 := mkDst(cp, fill, r.Rng)
			dst := append([]byte{}, d0...)
			// no Reset on purpose: the same transformer object serves the whole run
			call := g7Xf("enc/Transform", gsm7bit.Packed.NewEncoder().Transformer, false, dst, src, true)
			r.Count(fmt.Sprintf("xf/%s/%d/%d", s, cp, fill), len(src) > 0, "encoder Transform, destination "+capBucket(cp, need)+fillBucket(fill))
			where := in + fmt.Sprintf(" len(dst)=%d dst pre-filled %s", cp, fillName(fill, d0))
			c.judgeCall("encode", call, where, len(src), cp, need, e.cls == 0, e.out, true)
			// both fills are judged above; as a model case: one fill per size (all at the exact fit and for the corpus)
			asCase := level > 2 || cp == need || fill == fills[cp%len(fills)]
			if asCase && call.cls != 5 && (call.cls != 3 || (call.nDst == 0 && call.nSrc == 0)) {
				out := []byte{}
				if call.cls == 0 && call.nDst >= 0 && call.nDst <= len(dst) {
					out = dst[:call.nDst]
				}
				c.kase(fmt.Sprintf("enc Transform cap=%d fill=%d %s", cp, fill, in),
					fmt.Sprintf("enc_call_ok %s %s true %d %d%%nat %d%%nat %s", coqDst(cp, fill, d0), coqHex(src), call.cls, nat(call.nDst), nat(call.nSrc), coqHex(out)))
			}
		}
	}
	// a caller with a small buffer that it flushes (what Reader / Writer do), and atEOF=false
	if e.cls == 0 && need > 0 {
		dcaps := []int{need, need + 1, need + slackGo}
		if need > 7 {
			// a destination that holds one or two whole groups of eight septets: a transformer that makes partial
			// progress delivers the text in pieces, one that does not says ErrShortDst and claims nothing
			dcaps = append(dcaps, 7, 13, 14, need-1)
		}
		for _, cp := range dcaps {
			out, last, calls, bad := g7Drive("enc/Transform", gsm7bit.Packed.NewEncoder().Transformer, src, cp, 0xA5, r.Rng)
			where := in + fmt.Sprintf(" driven with len(dst)=%d", cp)
			switch {
			case last.cls == 2 || last.cls == 5:
			case bad != "":
				r.Fail("xf/encode/inconsistent-counts", "encoder Transform reports counts a caller cannot use", where, bad, "0 <= nDst <= len(dst), 0 <= nSrc <= len(src), nil only when everything is consumed")
			case last.cls == 0 && !bytes.Equal(out, e.out):
				r.Fail("xf/encode/driven-octets-differ-from-Bytes", "a caller that flushes its buffer gets other octets than Bytes", where, fmt.Sprintf("%x after %d calls", out, calls), fmt.Sprintf("%x", e.out))
			case last.cls == 3 && cp < need && (last.nDst > 0 || last.nSrc > 0):
				r.Fail("xf/encode/driven-no-end", "a caller that flushes its buffer never gets to the end of the text", where, fmt.Sprintf("still ErrShortDst after %d calls, %x so far", calls, out), fmt.Sprintf("%x", e.out))
			case last.cls != 0 && cp >= need+slackGo:
				r.Fail("xf/encode/no-octets-although-room", "encoder Transform delivers nothing although the destination has room", where, fmt.Sprintf("class=%d %s", last.cls, last.msg), fmt.Sprintf("%x", e.out))
			}
		}
	}
	if len(src) > 0 {
		cp := need + 2
		d0 := mkDst(cp, 0xFF, r.Rng)
		dst := append([]byte{}, d0...)
		call := g7Xf("enc/Transform", gsm7bit.Packed.NewEncoder().Transformer, false, dst, src, false)
		where := in + fmt.Sprintf(" len(dst)=%d atEOF=false", cp)
		c.judgeNotAtEOF("encode", call, where, dst)
		if call.cls == 4 || call.cls == 1 || call.cls == 2 {
			c.kase("enc Transform atEOF=false "+in, fmt.Sprintf("enc_call_ok %s %s false %d %d%%nat %d%%nat %s", coqDst(cp, 0xFF, d0), coqHex(src), call.cls, nat(call.nDst), nat(call.nSrc), coqHex(nil)))
		}
	}
}

const slackGo = 8 // = slack in Model/Gsm7.v

func nat(n int) int {
	if n < 0 {
		return 0
	}
	return n
}

func fillBucket(fill int) string {
	switch {
	case fill < 0:
		return ", random content"
	case fill == 0:
		return ", zeroed"
	}
	return fmt.Sprintf(", 0x%02X", fill)
}

func fillName(fill int, d0 []byte) string {
	if fill >= 0 {
		return fmt.Sprintf("with 0x%02X", fill)
	}
	if len(d0) > 40 {
		return fmt.Sprintf("with %x...", d0[:40])
	}
	return fmt.Sprintf("with %x", d0)
}

// judgeCall: what the x/text contract and C08 together demand of one Transform(dst, src, true).
func (c *c08) judgeCall(dir string, call g7Call, where string, srcLen, cp, need int, accepted bool, want []byte, exact bool) {
	r := c.r
	if call.cls == 0 && accepted && exact && call.nDst >= 0 && call.nDst <= cp && !bytes.Equal(call.dst[:call.nDst], want) {
		r.Fail("xf/"+dir+"/octets-depend-on-destination", "dst[:nDst] is not what Bytes returns: the result depends on the size or the prior content of the destination", where,
			fmt.Sprintf("%x", call.dst[:call.nDst]), fmt.Sprintf("%x", want))
	}
	switch {
	case call.cls == 5:
		r.Fail("xf/"+dir+"/Transform-never-returns", "Transform did not return", where, call.msg, "a value or an error")
	case call.cls == 2:
		r.Fail("xf/"+dir+"/panic", "Transform panicked", where, call.msg, "octets, ErrShortDst or an error")
	case call.cls == 4:
		r.Fail("xf/"+dir+"/ErrShortSrc-at-EOF", "Transform asks for more source although atEOF is true", where, call.msg, "octets, ErrShortDst or an error")
	case call.nDst < 0 || call.nDst > cp || call.nSrc < 0 || call.nSrc > srcLen:
		r.Fail("xf/"+dir+"/counts-out-of-range", "nDst / nSrc outside the slices", where, fmt.Sprintf("nDst=%d nSrc=%d", call.nDst, call.nSrc), "0 <= nDst <= len(dst), 0 <= nSrc <= len(src)")
	case call.cls == 0 && !accepted && srcLen > 0:
		r.Fail("xf/"+dir+"/value-where-Bytes-fails", "Transform succeeds on input Bytes refuses", where, fmt.Sprintf("nDst=%d %x", call.nDst, call.dst[:call.nDst]), "error")
	case call.cls == 0 && call.nSrc != srcLen:
		r.Fail("xf/"+dir+"/nSrc-is-not-len-src", "nil error but not every source octet reported consumed (transform.String loops, Reader and Writer report an inconsistent byte count)",
			where, fmt.Sprintf("nSrc=%d nDst=%d", call.nSrc, call.nDst), fmt.Sprintf("nSrc=%d", srcLen))
	case call.cls == 1 && accepted:
		r.Fail("xf/"+dir+"/error-where-Bytes-succeeds", "Transform fails on input Bytes accepts", where, call.msg, fmt.Sprintf("%x", want))
	case call.cls == 3 && cp >= need+slackGo && accepted && call.nDst == 0 && call.nSrc == 0:
		r.Fail("xf/"+dir+"/ErrShortDst-although-room", "ErrShortDst without progress although the destination is much larger than the output", where, fmt.Sprintf("len(dst)=%d output=%d", cp, need), "the output")
	}
}

// with atEOF=false the transformer may ask for more (ErrShortSrc) or consume a prefix; it must not panic,
// hang, or claim counts outside the slices.  What it delivers is judged through String / Reader / Writer.
func (c *c08) judgeNotAtEOF(dir string, call g7Call, where string, dst []byte) {
	r := c.r
	switch {
	case call.cls == 5:
		r.Fail("xf/"+dir+"/Transform-never-returns", "Transform did not return", where, call.msg, "a value or an error")
	case call.cls == 2:
		r.Fail("xf/"+dir+"/panic", "Transform panicked", where, call.msg, "no panic")
	case call.nDst < 0 || call.nDst > len(dst) || call.nSrc < 0:
		r.Fail("xf/"+dir+"/counts-out-of-range", "nDst / nSrc outside the slices", where, fmt.Sprintf("nDst=%d nSrc=%d", call.nDst, call.nSrc), "within the slices")
	}
}

// xfDec: the same for the decoder, on octets src whose Bytes result is d (cls, UTF-8).
func (c *c08) xfDec(src []byte, dcls int, text []byte, in string, level int) {
	r := c.r
	need := len(text)
	var caps []int
	if dcls != 0 {
		caps = []int{0, len(src) + 2}
	} else if need <= 8 || level > 2 {
		for cp := 0; cp <= need+2; cp++ {
			caps = append(caps, cp)
		}
		caps = append(caps, need+slackGo)
	} else if need > 64 {
		caps = []int{need, need + 1, need + slackGo}
	} else {
		caps = []int{0, need - 1, need, need + 1, need + slackGo, need + 2 + r.Rng.Intn(30)}
	}
	seen := map[int]bool{}
	for _, cp := range caps {
		if cp < 0 || seen[cp] {
			continue
		}
		seen[cp] = true
		fill := []int{0xFF, -1, 0x0D}[r.Rng.Intn(3)]
		d0 := mkDst(cp, fill, r.Rng)
		dst := append([]byte{}, d0...)
		call := g7Xf("dec/Transform", gsm7bit.Packed.NewDecoder().Transformer, false, dst, src, true)
		r.Count(fmt.Sprintf("xfd/%x/%d/%d", src, cp, fill), len(src) > 0, "decoder Transform, destination "+capBucket(cp, need)+fillBucket(fill))
		where := in + fmt.Sprintf(" len(dst)=%d dst pre-filled %s", cp, fillName(fill, d0))
		// exact comparison with Bytes only outside the ambiguous reading (Bytes itself is judged elsewhere)
		c.judgeCall("decode", call, where, len(src), cp, need, dcls == 0, text, true)
		if call.cls != 5 && (call.cls != 3 || (call.nDst == 0 && call.nSrc == 0)) {
			out := []byte{}
			if call.cls == 0 && call.nDst >= 0 && call.nDst <= len(dst) {
				out = dst[:call.nDst]
			}
			c.kase(fmt.Sprintf("dec Transform cap=%d fill=%d %s", cp, fill, in),
				fmt.Sprintf("dec_call_ok %s %s true %d %d%%nat %d%%nat %s", coqDst(cp, fill, d0), coqHex(src), call.cls, nat(call.nDst), nat(call.nSrc), coqHex(out)))
		}
	}
	if len(src) > 0 {
		cp := need + 3
		d0 := mkDst(cp, 0xFF, r.Rng)
		dst := append([]byte{}, d0...)
		call := g7Xf("dec/Transform", gsm7bit.Packed.NewDecoder().Transformer, false, dst, src, false)
		c.judgeNotAtEOF("decode", call, in+fmt.Sprintf(" len(dst)=%d atEOF=false", cp), dst)
		if call.cls == 4 || call.cls == 1 || call.cls == 2 {
			c.kase("dec Transform atEOF=false "+in, fmt.Sprintf("dec_call_ok %s %s false %d %d%%nat %d%%nat %s", coqDst(cp, 0xFF, d0), coqHex(src), call.cls, nat(call.nDst), nat(call.nSrc), coqHex(nil)))
		}
	}
}

// kase emits a model case unless the current input is muted (very long inputs: the model packs in
// quadratic time, the direct tests above are what looks at them)
func (c *c08) kase(desc, expr string) {
	if !c.mute {
		c.r.Case(desc, expr)
	}
}

// histories: state across calls.  One transformer object (never re-created, Reset only now and then)
// receives runs of calls whose sources have the SAME length in octets but differ, with destinations that
// are too small, exact, pre-filled, and with atEOF=false in between: every call must answer as a function
// of its own arguments (judged against the independent reference packing, and as a model case each).
func (c *c08) histories() {
	r := c.r
	pools := [][]string{
		{"abc", "xyz", "a\rb", "[[[", "]~^", "ab`", "a£", "€", "@@@", "\r\r\r"},
		{"abcdefgh", "12345678", "[[[[[[[[", "abcdefg\r", "€€ab", "aaaaaaa`", "@@@@@@@@", "1234567\r"},
		{"abcdefg", "1234567", "[{|}~^]", "abcde\r\r", "€€@", "abcdef\u007f"},
	}
	enc := gsm7bit.Packed.NewEncoder().Transformer
	dec := gsm7bit.Packed.NewDecoder().Transformer
	nh := r.N(60, 300)
	for h := 0; h < nh; h++ {
		pool := pools[h%len(pools)]
		var trail []string
		for step := 0; step < 6; step++ {
			s := pool[r.Rng.Intn(len(pool))]
			src := []byte(s)
			want, accepted := stdTextSeptets([]rune(s))
			var ref []byte
			if accepted {
				f := want
				if len(want)%8 == 7 {
					f = append(append([]byte{}, want...), 0x0D)
				}
				ref = refPack(f)
			}
			need := len(ref)
			cp := []int{0, need - 1, need, need, need + 3, len(src)}[r.Rng.Intn(6)]
			if cp < 0 {
				cp = 0
			}
			atEOF := r.Rng.Intn(8) != 0
			fill := []int{0xFF, -1, 0x00}[r.Rng.Intn(3)]
			d0 := mkDst(cp, fill, r.Rng)
			dst := append([]byte{}, d0...)
			call := g7Xf("enc/Transform", enc, r.Rng.Intn(5) == 0, dst, src, atEOF)
			trail = append(trail, fmt.Sprintf("Transform(len(dst)=%d %s, %q, atEOF=%v)->class %d nDst=%d nSrc=%d", cp, fillName(fill, d0), s, atEOF, call.cls, call.nDst, call.nSrc))
			where := "history on one encoder object: " + strings.Join(trail, "; ")
			r.Count(fmt.Sprintf("hist/%d/%d", h, step), true, "history step on one encoder object")
			amb := accepted && len(want) > 0 && len(want)%8 == 0 && s[len(s)-1] == '\r'
			if atEOF {
				c.judgeCall("encode", call, where, len(src), cp, need, accepted, ref, !amb)
				if accepted && call.cls == 3 && cp >= need+2 {
					r.Fail("xf/encode/call-depends-on-earlier-calls", "ErrShortDst although the destination has room: the answer depends on an earlier call", where, fmt.Sprintf("len(dst)=%d need=%d", cp, need), "the octets")
				}
			} else {
				c.judgeNotAtEOF("encode", call, where, dst)
			}
			if call.cls != 5 && (call.cls != 3 || (call.nDst == 0 && call.nSrc == 0)) && (atEOF || call.cls == 4 || call.cls == 1 || call.cls == 2) {
				out := []byte{}
				if call.cls == 0 && call.nDst >= 0 && call.nDst <= len(dst) {
					out = dst[:call.nDst]
				}
				c.kase(fmt.Sprintf("history %d step %d: enc Transform %q cap=%d", h, step, s, cp),
					fmt.Sprintf("enc_call_ok %s %s %s %d %d%%nat %d%%nat %s", coqDst(cp, fill, d0), coqHex(src), coqBool(atEOF), call.cls, nat(call.nDst), nat(call.nSrc), coqHex(out)))
			}
			// the decoder object in the same history, on what the reference says the octets are
			if accepted && need > 0 && step%2 == 1 {
				text := []byte(s)
				if amb {
					text = text[:len(text)-1]
				}
				dcp := []int{0, len(text) - 1, len(text), len(text) + 1, len(text) + 4}[r.Rng.Intn(5)]
				if dcp < 0 {
					dcp = 0
				}
				dd0 := mkDst(dcp, fill, r.Rng)
				ddst := append([]byte{}, dd0...)
				dcall := g7Xf("dec/Transform", dec, false, ddst, ref, true)
				trail = append(trail, fmt.Sprintf("decoder Transform(len(dst)=%d, %x)->class %d nDst=%d nSrc=%d", dcp, ref, dcall.cls, dcall.nDst, dcall.nSrc))
				c.judgeCall("decode", dcall, "history on one decoder object: "+strings.Join(trail, "; "), len(ref), dcp, len(text), true, text, !hasD16s(s))
				if dcall.cls != 5 && (dcall.cls != 3 || (dcall.nDst == 0 && dcall.nSrc == 0)) {
					out := []byte{}
					if dcall.cls == 0 && dcall.nDst >= 0 && dcall.nDst <= len(ddst) {
						out = ddst[:dcall.nDst]
					}
					c.kase(fmt.Sprintf("history %d step %d: dec Transform %x cap=%d", h, step, ref, dcp),
						fmt.Sprintf("dec_call_ok %s %s true %d %d%%nat %d%%nat %s", coqDst(dcp, fill, dd0), coqHex(ref), dcall.cls, nat(dcall.nDst), nat(dcall.nSrc), coqHex(out)))
				}
			}
		}
	}
}

func hasD16s(s string) bool {
	for _, x := range s {
		if isD16(x) {
			return true
		}
	}
	return false
}
