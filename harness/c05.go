package main

// C05 — Submit returns exactly its own response under every schedule.

import (
	"bytes"
	"encoding/hex"
	"fmt"
	"reflect"
	"time"

	"github.com/M2MGateway/go-smpp/pdu"
)

func init() { corrTable["C05"] = func(r *Run) { connInChild(r, corrC05) } }

func corrC05(r *Run) {
	r.Import("Model.ConnRun")
	r.PerShard(16)
	r.Rule = "forced schedules: 1..8 (thorough: ..24) goroutines calling Submit with request PDUs of all 15 request types and distinct positive sequence numbers; " +
		"random walks over {issue a call (its frame reaches the transport, the Write is held), let a Write return, make the response to a written request readable, " +
		"make an unsolicited PDU readable, (a third of the walks) end a call's own context - also one whose response is already filed while its Write is open: either outcome of that select is accepted}: " +
		"responses in any order, before or after the Write returns; sequence numbers consecutive, at the ends of the int32 range, or all equal modulo 2^8 / 2^16; inbound frames singly or coalesced and cut regardless of frame boundaries; fast or slow consumer of PDU(); " +
		"reuse histories: calls that left through their own context with the response already filed, each followed by further Submits on the same connection; " +
		"first the minimised pre-repair witness (response dispatched while the Write is still open); " +
		"Resp(): every request type x boundary and random int32 sequence numbers; " +
		"non-trivial = schedules in which at least one response was dispatched before the request's Write returned; distinct by event list"
	ts := pduTypes()
	c05Witness(r)
	n := r.N(300, 1400)
	maxCallers := r.N(8, 24)
	for i := 0; i < n; i++ {
		i := i
		confirmed(r, func() { c05Scenario(r, ts, i, maxCallers) })
	}
	// state a Conn carries from one Submit to the next: calls that left through their own context
	// with the response already filed, followed by further calls on the same connection
	for i, nr := 0, r.N(40, 200); i < nr; i++ {
		i := i
		confirmed(r, func() { c05Reuse(r, ts, i) })
	}
	// requests behind calls whose PDU Marshal refuses half-way: the octets the peer receives are checked frame by frame
	for i, nr := 0, r.N(36, 150); i < nr; i++ {
		i := i
		confirmed(r, func() { c05AfterRefusal(r, ts, i) })
	}
	// a transport that honours the read deadlines Watch sets: inbound PDUs never further apart than ReadTimeout
	for i, nd := 0, r.N(24, 120); i < nd; i++ {
		i := i
		confirmed(r, func() { c05Deadlines(r, ts, i) })
	}
	for i, nd := 0, r.N(2, 6); i < nd; i++ {
		i := i
		confirmed(r, func() { c05DeadlinesReal(r, ts, i) })
	}
	c05Resp(r, ts)
}

// c05Deadlines: ReadTimeout T is configured and the transport honours read deadlines, against a clock only the controller
// advances (Transport.Virtual: no sleeping).  Requests are outstanding; the peer keeps sending — unsolicited PDUs and the
// responses — with gaps below T between consecutive inbound PDUs (0.45 T then 0.75 T first: more than T after Watch
// started, less than T after the previous PDU).  The hypotheses of C05 hold, so every Submit returns its own response
// and Watch keeps running.  At the end the peer falls silent for 1.5 T: now the deadline passes and the connection ends.
func c05Deadlines(r *Run, ts []pduType, idx int) {
	rng := r.Rng
	w := NewWorld(true)
	defer w.Shutdown()
	T := time.Duration(1+rng.Intn(900)) * time.Second
	w.T.Virtual = true
	w.C.ReadTimeout = T
	w.StartWatch()
	seq := int32(1 + rng.Intn(1<<20))
	fresh := func() int32 { seq += int32(1 + rng.Intn(3)); return seq }
	wantWire := map[int32][]byte{}
	var calls []*Call
	for g, n := 0, 1+rng.Intn(3); g < n; g++ {
		p, q := genSendable(rng, ts, true, 600), fresh()
		wantWire[q] = expectedFrame(p, q)
		c := w.Go(g, CallSpec{Kind: "submit", Seq: q, P: p})[0]
		if rng.Intn(3) != 0 {
			w.Release(c)
		}
		calls = append(calls, c)
	}
	advance := func(f float64) {
		w.T.Advance(time.Duration(f * float64(T)))
		w.sync() // (no event of the model: nothing is due)
	}
	var wantApp []Delivery
	gaps := []float64{0.45, 0.75}
	pendingAnswers := append([]*Call(nil), calls...)
	early := ""
	for step := 0; (step < len(gaps) || len(pendingAnswers) > 0) && w.Stuck == ""; step++ {
		gap := 0.2 + 0.75*float64(rng.Intn(1000))/1000
		if step < len(gaps) {
			gap = gaps[step]
		}
		advance(gap)
		if w.WatchReturned() && early == "" {
			early = fmt.Sprintf("after a silence of %.2f x ReadTimeout (step %d)", gap, step)
		}
		if len(pendingAnswers) > 0 && (step == 1 || (step > 1 && rng.Intn(3) != 0)) {
			c := pendingAnswers[0]
			pendingAnswers = pendingAnswers[1:]
			f := frameOf(respFor(c.P, c.Seq))
			w.Peer([][]byte{f}, [][]int{genCuts(rng, len(f))})
		} else {
			f := genUnsolicited(rng, ts, fresh())
			_, id, q := classifyFrame(f)
			wantApp = append(wantApp, Delivery{id, q})
			w.Peer([][]byte{f}, [][]int{genCuts(rng, len(f))})
		}
		if step > 40 {
			break
		}
	}
	for _, c := range calls {
		if w.Held(c) {
			w.Release(c)
		}
	}
	mid := "sched " + w.Script()
	if w.Stuck == "" {
		if early != "" || w.WatchReturned() || w.doneClosed() {
			r.Fail("deadline/connection-ended-although-the-peer-kept-sending", "with a transport that honours read deadlines the connection ended although consecutive inbound PDUs were never ReadTimeout apart", mid,
				fmt.Sprintf("Watch returned=%v Done()=%v %s; SetReadDeadline calls at (virtual) %v", w.WatchReturned(), w.doneClosed(), early, w.T.DeadlineSets), "Watch keeps reading: every ReadPDU has ReadTimeout from the moment it starts")
		}
		for _, c := range calls {
			want := fmt.Sprintf("ok:%#x:%d", idOfPDU(c.P)|0x80000000, c.Seq)
			if got := c.Class(); got != want {
				r.Fail("submit/deadline-honouring-transport", "a Submit answered within ReadTimeout of the previous inbound PDU did not return, without error, its own response", mid, got, want)
			}
		}
	}
	// silence: the deadline passes, the transport reports a timeout, the connection ends (C15's read timeout)
	w.T.Advance(T + T/2)
	w.force("PeerEnd")
	w.sync()
	input := "sched " + w.Script()
	r.Count(input, true, "deadline-honouring-transport/virtual-clock")
	if runStuck(r, w, input) {
		return
	}
	for _, p := range w.Panics() {
		r.Fail("panic", "a library goroutine panicked", input, p, "no panic")
	}
	if !w.WatchReturned() || !w.doneClosed() {
		r.Fail("deadline/silence-not-noticed", "after 1.5 x ReadTimeout of silence on a transport that honours read deadlines Watch is still reading", input,
			fmt.Sprintf("Watch returned=%v Done()=%v", w.WatchReturned(), w.doneClosed()), "the read times out, Watch returns, Done() closes")
	}
	c05Wire(r, input, w, wantWire)
	got := w.App()
	same := len(got) == len(wantApp)
	for i := 0; same && i < len(got); i++ {
		same = got[i] == wantApp[i]
	}
	if !same {
		r.Fail("submit/response-leaked", "PDU() did not yield exactly the unsolicited PDUs", input, fmtDeliveries(got), fmtDeliveries(wantApp))
	}
	r.Case(fmt.Sprintf("deadline#%d (admitted, within the hypotheses of C05) %.200s", idx, input), w.EnvExpr(connVariant))
}

// c05DeadlinesReal: the same with real time (the library computes its deadlines from time.Now()): ReadTimeout 400 ms, an
// unsolicited PDU 180 ms after Watch started, the response 460 ms after Watch started (280 ms after that PDU).  The
// controller measures what it actually did: a run in which the machine delayed it beyond the margins proves nothing
// and is repeated (three times at most, then dropped with a note).
func c05DeadlinesReal(r *Run, ts []pduType, idx int) {
	rng := r.Rng
	T := 400 * time.Millisecond
	if relaxed {
		T = 2 * time.Second
	}
	for attempt := 0; attempt < 3; attempt++ {
		w := NewWorld(true)
		w.C.ReadTimeout = T
		w.T.ArmDeadlines()
		t0 := time.Now()
		w.StartWatch()
		p, q := genSendable(rng, ts, true, 600), int32(1000+rng.Intn(1000))
		c := w.Go(0, CallSpec{Kind: "submit", Seq: q, P: p})[0]
		w.Release(c)
		u := genUnsolicited(rng, ts, q+1)
		_, uid, useq := classifyFrame(u)
		resp := frameOf(respFor(c.P, c.Seq))
		time.Sleep(time.Until(t0.Add(T * 45 / 100)))
		t1 := time.Now()
		w.Peer([][]byte{u}, nil)
		t1done := time.Now()
		time.Sleep(time.Until(t0.Add(T * 115 / 100)))
		t2 := time.Now()
		// the run says something only if the PDU really came within T/2 of the start and the response within 0.9 T of it
		valid := t1done.Sub(t0) < T/2 && t2.Sub(t1) < T*9/10 && w.Stuck == ""
		if valid {
			w.Peer([][]byte{resp}, nil)
		}
		input := "sched " + w.Script()
		if !valid {
			w.Shutdown()
			if attempt == 2 {
				r.Notes = append(r.Notes, fmt.Sprintf("real-time deadline scenario #%d dropped: the controller was delayed beyond the margins three times (PDU at %s, response due at %s, ReadTimeout %s)", idx, t1done.Sub(t0), t2.Sub(t0), T))
			}
			continue
		}
		r.Count(input, true, "deadline-honouring-transport/real-time")
		want := fmt.Sprintf("ok:%#x:%d", idOfPDU(c.P)|0x80000000, c.Seq)
		if got := c.Class(); got != want || w.WatchReturned() {
			r.Fail("submit/deadline-honouring-transport/real-time", "a Submit answered within ReadTimeout of the previous inbound PDU did not return, without error, its own response", input,
				fmt.Sprintf("%s, Watch returned=%v (ReadTimeout %s; PDU at %s, response at %s after Watch started)", got, w.WatchReturned(), T, t1.Sub(t0), t2.Sub(t0)), want+", Watch reading")
		}
		if app := w.App(); len(app) != 1 || app[0] != (Delivery{uid, useq}) {
			r.Fail("submit/response-leaked", "PDU() did not yield exactly the unsolicited PDU", input, fmtDeliveries(app), fmtDeliveries([]Delivery{{uid, useq}}))
		}
		r.Case(fmt.Sprintf("deadline-real#%d (admitted, within the hypotheses of C05) %.200s", idx, input), w.EnvExpr(connVariant))
		w.Shutdown()
		return
	}
}

// c05Wire: what the scripted peer received, Write by Write, against the frames worked out when the calls were drawn
// (want: sequence number -> Marshal encoding of that call's PDU): every Write carries exactly the frame of the call whose
// sequence number it shows, each once.
func c05Wire(r *Run, input string, w *World, want map[int32][]byte) {
	seen := map[int32]bool{}
	for _, wr := range w.T.Writes() {
		if wr.ByReader {
			continue
		}
		f, ok := want[wr.Seq]
		switch {
		case !ok || len(wr.Data) < 16:
			r.Fail("wire/c05/unexpected-frame", "the peer received octets that are not the frame of any request issued on this connection", input,
				fmt.Sprintf("Write #%d: %d octets %s", wr.Idx, len(wr.Data), hex.EncodeToString(wr.Data[:min(len(wr.Data), 48)])), "frames of the issued requests only")
			return
		case !bytes.Equal(wr.Data, f):
			r.Fail("wire/c05/foreign-octets", "the frame the peer received for a request is not the Marshal encoding of that request", input,
				fmt.Sprintf("Write #%d seq=%d: %d octets %s", wr.Idx, wr.Seq, len(wr.Data), hex.EncodeToString(wr.Data[:min(len(wr.Data), 48)])),
				fmt.Sprintf("%d octets %s", len(f), hex.EncodeToString(f[:min(len(f), 48)])))
			return
		case seen[wr.Seq]:
			r.Fail("wire/c05/duplicate-frame", "the peer received the frame of a request twice", input, fmt.Sprintf("seq=%d", wr.Seq), "once")
			return
		}
		seen[wr.Seq] = true
	}
}

// c05AfterRefusal: on one connection (and, the worlds following each other in one process, across connections) calls whose
// PDU pdu.Marshal refuses after it has begun to encode it (a NUL in a C-octet string, a short message over 140 octets,
// an esm_class / UDH element / destination list out of range; through Submit and through Send), each followed by good
// requests on the same goroutine and on another.  The refused call returns an error and contributes no octets; every later
// request is received by the peer as its own frame and returns its own response.
func c05AfterRefusal(r *Run, ts []pduType, idx int) {
	rng := r.Rng
	w := NewWorld(true)
	defer w.Shutdown()
	w.StartWatch()
	seq := int32(1 + rng.Intn(1<<20))
	fresh := func() int32 { seq += int32(1 + rng.Intn(3)); return seq }
	want := map[int32][]byte{}
	type plan struct {
		spec    CallSpec
		refused bool
	}
	// everything is drawn (and its frame worked out) before the first call runs
	var plans [][]plan
	for g, ng := 0, 1+rng.Intn(2); g < ng; g++ {
		var ps []plan
		for k, n := 0, 2+rng.Intn(4); k < n; k++ {
			if k%2 == 0 || rng.Intn(3) == 0 {
				stage := refusedStages[(idx+k+g)%len(refusedStages)]
				p := genRefused(rng, stage)
				kind := "submit"
				s := fresh()
				if rng.Bool() {
					kind = "send"
					pdu.WriteSequence(p, s)
				}
				if expectedFrame(p, s) != nil {
					continue // (this tree accepts it: not a refusal here)
				}
				ps = append(ps, plan{CallSpec{Kind: kind, Seq: s, P: p}, true})
			}
			good := genSendable(rng, ts, true, 800)
			s := fresh()
			want[s] = expectedFrame(good, s)
			ps = append(ps, plan{CallSpec{Kind: "submit", Seq: s, P: good}, false})
		}
		plans = append(plans, ps)
	}
	nRefused := 0
	var goods, bads []*Call
	for g, ps := range plans {
		var specs []CallSpec
		for _, p := range ps {
			specs = append(specs, p.spec)
		}
		cs := w.Go(g, specs...)
		// the goroutine runs its calls one after the other: refused ones return at once, a good one sits in its Write
		served := map[int]bool{}
		for progress := true; progress && w.Stuck == ""; {
			progress = false
			for i, c := range cs {
				if ps[i].refused || served[c.ID] || w.Returned(c) || !w.Written(c) {
					continue
				}
				served[c.ID] = true // answered and released once, whatever becomes of it
				f := frameOf(respFor(c.P, c.Seq))
				if rng.Bool() {
					w.Peer([][]byte{f}, nil)
					w.Release(c)
				} else {
					w.Release(c)
					w.Peer([][]byte{f}, nil)
				}
				progress = true
			}
		}
		for i, c := range cs {
			if ps[i].refused {
				nRefused++
				bads = append(bads, c)
			} else {
				goods = append(goods, c)
			}
		}
	}
	// in every second world the peer then uses the numbers of the refused Submits for PDUs of its own (request and response
	// types): nothing is outstanding under them, they reach PDU().  (Outside the hypotheses of C05 — the peer uses a number
	// whose request never reached it — so those worlds are compared with the model only.)
	var wantApp []Delivery
	if idx%2 == 1 && w.Stuck == "" {
		for _, c := range bads {
			if c.Kind == "submit" && w.Returned(c) {
				f := genUnsolicited(rng, ts, c.Seq)
				_, id, q := classifyFrame(f)
				wantApp = append(wantApp, Delivery{id, q})
				w.Peer([][]byte{f}, [][]int{genCuts(rng, len(f))})
			}
		}
	}
	input := "sched " + w.Script()
	r.Count(input, nRefused > 0, fmt.Sprintf("after-refusal/refused=%d", min(nRefused, 4)))
	if runStuck(r, w, input) {
		return
	}
	for _, p := range w.Panics() {
		r.Fail("panic", "a library goroutine panicked", input, p, "no panic")
	}
	c05Wire(r, input, w, want)
	for _, c := range bads {
		if got := c.Class(); got != "err" {
			r.Fail("submit/refusal-missing", "a call whose PDU cannot be marshalled did not return an error", input, fmt.Sprintf("%s %T: %s", c.Kind, c.P, got), "err")
		}
	}
	for _, c := range goods {
		wantC := fmt.Sprintf("ok:%#x:%d", idOfPDU(c.P)|0x80000000, c.Seq)
		if got := c.Class(); got != wantC {
			r.Fail("submit/after-a-refused-request", "a Submit issued after a call whose PDU was refused did not return, without error, the response carrying its own sequence number", input, got, wantC)
		}
	}
	app := w.App()
	same := len(app) == len(wantApp)
	for i := 0; same && i < len(app); i++ {
		same = app[i] == wantApp[i]
	}
	if !same {
		r.Fail("submit/number-of-a-refused-request", "PDU() did not yield exactly the PDUs the peer sent under the numbers of refused requests", input, fmtDeliveries(app), fmtDeliveries(wantApp))
	}
	if len(wantApp) > 0 {
		r.Case(fmt.Sprintf("refusal#%d (admitted) %.200s", idx, input), w.CaseExpr(connVariant))
	} else {
		r.Case(fmt.Sprintf("refusal#%d (admitted, within the hypotheses of C05) %.200s", idx, input), w.EnvExpr(connVariant))
	}
}

// D25: the response becomes readable while the transport still holds the
// request's Write call open; Watch dispatches it before Submit continues.
func c05Witness(r *Run) {
	w := NewWorld(true)
	defer w.Shutdown()
	w.StartWatch()
	c := w.Go(0, CallSpec{Kind: "submit", Seq: 7, P: &pdu.EnquireLink{}})[0]
	w.PeerPDU(&pdu.EnquireLinkResp{Header: pdu.Header{Sequence: 7}})
	w.Release(c)
	input := "sched " + w.Script()
	r.Count(input, true, "witness/D25")
	if runStuck(r, w, input) {
		return
	}
	if got, app := c.Class(), w.App(); got != fmt.Sprintf("ok:%#x:7", 0x80000015) || len(app) != 0 {
		r.Fail("submit/response-before-write-returns", "a response processed before the transport Write returned did not reach its Submit call", input,
			fmt.Sprintf("submit=%s PDU()=%s", got, fmtDeliveries(app)), "Submit returns the enquire_link_resp with sequence 7; PDU() yields nothing")
	}
	r.Case("witness-D25 "+input, w.CaseExpr(connVariant))
	r.Case("witness-D25-env hypotheses-of-C05 hold on witness D25", w.EnvExpr(connVariant))
}

func c05Scenario(r *Run, ts []pduType, idx, maxCallers int) {
	rng := r.Rng
	auto := rng.Intn(4) != 0
	w := NewWorld(auto)
	defer w.Shutdown()
	w.StartWatch()
	n := 1 + rng.Intn(maxCallers)
	if idx%7 == 0 {
		n = maxCallers
	}
	seq := int32(1 + rng.Intn(1<<20))
	if idx%11 == 0 {
		seq = 0x7FFFFFFF - int32(4*n) - 8 // top of the positive range
	}
	stride := int32(0) // 256 / 65536: all sequence numbers of this world are equal modulo 2^8 / 2^16
	switch idx % 9 {
	case 4:
		stride, seq = 256, int32(1+rng.Intn(1<<12))
	case 8:
		stride, seq = 65536, int32(1+rng.Intn(1<<12))
	}
	wrapped := int32(0)
	fresh := func() int32 {
		step := int32(1 + rng.Intn(3))
		if stride != 0 {
			step *= stride
		}
		if seq > 0x7FFFFFFF-step { // the positive range is used up (worlds that start at its top): go on with small numbers, still distinct
			wrapped++
			seq = 64 + wrapped
			return seq
		}
		seq += step
		return seq
	}
	cancels := idx%3 == 2 // walks in which callers' own contexts end
	type cs struct {
		c         *Call
		answered  bool
		early     bool
		cancelled bool
		either    bool   // its select finds both the response and its closed context: both outcomes are allowed
		wantID    uint32 // command_id of what the peer answered with
	}
	var calls []*cs
	var specs []CallSpec
	for i := 0; i < n; i++ {
		specs = append(specs, CallSpec{Kind: "submit", Seq: fresh(), P: genSendable(rng, ts, true, 1200)})
	}
	if idx%5 == 0 && n >= 2 { // smallest positive sequence number
		specs[0].Seq = 1
	}
	wantWire := map[int32][]byte{} // what the peer has to receive for each request, worked out before the first call runs
	for _, sp := range specs {
		wantWire[sp.Seq] = expectedFrame(sp.P, sp.Seq)
	}
	var wantApp []Delivery
	stalled := ""
	oddDone := false
	started := 0
	earlyAny := false
	for steps := 0; steps < 40*n+40 && w.Stuck == ""; steps++ {
		var held, answerable []*cs
		for _, x := range calls {
			if w.Held(x.c) {
				held = append(held, x)
			}
			if !x.answered && w.Written(x.c) { // the peer answers only what has reached the transport
				answerable = append(answerable, x)
			}
		}
		if started == n && len(held) == 0 && len(answerable) == 0 {
			break
		}
		if cancels && len(calls) > 0 && rng.Intn(7) == 0 {
			x := calls[rng.Intn(len(calls))]
			// (an answered call is cancelled only when its response has been dispatched for sure: not behind a delivery the slow consumer has not taken)
			if !x.cancelled && !w.Returned(x.c) && !(x.answered && w.watchSending()) {
				x.cancelled = true
				x.either = x.answered // answered and not returned: it is inside its Write with the response filed
				x.answered = true     // the peer does not answer it any more
				w.CancelCtx(x.c)
				continue
			}
		}
		if !auto && w.watchSending() && rng.Intn(3) != 0 {
			w.AppGrant()
			continue
		}
		switch k := rng.Intn(10); {
		case k < 3 && started < n:
			c := w.Go(started, specs[started])[0]
			calls = append(calls, &cs{c: c})
			started++
		case k < 6 && len(held) > 0:
			w.Release(held[rng.Intn(len(held))].c)
		case k < 9 && len(answerable) > 0:
			x := answerable[rng.Intn(len(answerable))]
			x.answered = true
			if w.Held(x.c) {
				x.early, earlyAny = true, true
			}
			x.wantID = idOfPDU(x.c.P) | 0x80000000
			var answer interface{}
			switch k2 := rng.Intn(12); {
			case k2 < 3: // the peer may refuse the request: still the response Submit has to return, without error
				answer = respStatus(x.c.P, x.c.Seq, uint32(1+rng.Intn(0x400)))
			case k2 < 5 || (idx == 0 && len(calls) == 1):
				// ... or answer with generic_nack carrying the request's sequence number (SMPP 4.1.1: "command_id invalid",
				// "PDU too long" ...): that is the PDU whose sequence number equals the request's
				x.wantID = idGenericNack
				answer = &pdu.GenericNACK{Header: pdu.Header{CommandStatus: pdu.CommandStatus(1 + rng.Intn(0xFF)), Sequence: x.c.Seq}}
			case k2 < 6:
				// ... or with a response PDU of another type
				other := &pdu.SubmitSMResp{Header: pdu.Header{Sequence: x.c.Seq}, MessageID: "x"}
				if x.wantID == idOfPDU(other) {
					answer = &pdu.DeliverSMResp{Header: pdu.Header{Sequence: x.c.Seq}}
				} else {
					answer = other
				}
				x.wantID = idOfPDU(answer)
			default:
				answer = respFor(x.c.P, x.c.Seq)
			}
			f := frameOf(answer)
			// the wire form may hold more than the decoder consumes: a refusal that still carries its body
			// (submit_sm_resp ESME_RTHROTTLED + empty message_id), octets behind the body; the responses behind it must still arrive
			switch k3 := rng.Intn(6); {
			case k3 == 0 || (idx%4 == 1 && len(calls) >= 2 && !oddDone):
				f, oddDone = oddFrame(rng, f, 1), true
			case k3 == 1:
				f = oddFrame(rng, f, 2)
			}
			if rng.Intn(4) == 0 {
				// the response shares its TCP segments with an unsolicited PDU behind it
				u := genUnsolicited(rng, ts, fresh())
				_, id, s := classifyFrame(u)
				wantApp = append(wantApp, Delivery{id, s})
				w.PeerStream([][]byte{f, u}, genCuts(rng, len(f)+len(u)))
			} else {
				w.Peer([][]byte{f}, [][]int{genCuts(rng, len(f))})
			}
		case k == 9:
			f := genUnsolicited(rng, ts, fresh())
			_, id, s := classifyFrame(f)
			wantApp = append(wantApp, Delivery{id, s})
			w.Peer([][]byte{f}, [][]int{genCuts(rng, len(f))})
			if auto && w.Stuck == "" && len(w.App()) != len(wantApp) && stalled == "" {
				stalled = fmt.Sprintf("after %s: PDU() yielded %d of %d unsolicited PDUs", w.Script(), len(w.App()), len(wantApp))
			}
		default:
			if started < n {
				c := w.Go(started, specs[started])[0]
				calls = append(calls, &cs{c: c})
				started++
			}
		}
	}
	for i := 0; !auto && i < 64 && w.Stuck == "" && w.watchSending(); i++ {
		w.AppGrant()
	}
	input := "sched " + w.Script()
	r.Count(input, earlyAny, fmt.Sprintf("callers=%d", n))
	if idx < 2 {
		r.Sample(map[string]interface{}{"callers": n, "responses_before_write_returned": earlyAny, "unsolicited": len(wantApp), "schedule": w.Script()[:min(len(w.Script()), 500)]})
	}
	if runStuck(r, w, input) {
		return
	}
	for _, p := range w.Panics() {
		r.Fail("panic", "a library goroutine panicked", input, p, "no panic")
	}
	for _, x := range calls {
		c := x.c
		want := fmt.Sprintf("ok:%#x:%d", x.wantID, c.Seq)
		if x.cancelled {
			// its own context ended: an error — or, when the response was already filed, that response
			if got := c.Class(); !(got == "err" || (x.either && got == want)) {
				r.Fail("submit/after-own-context", "a Submit whose own context ended returned neither an error nor its own response", input, got, "err"+map[bool]string{true: " or " + want, false: ""}[x.either])
			}
			continue
		}
		if got := c.Class(); got != want {
			cls := "submit/wrong-outcome"
			if x.early {
				cls = "submit/response-before-write-returns"
			}
			r.Fail(cls, "Submit did not return, without error, the response carrying its own sequence number", input, got, want)
		}
	}
	c05Wire(r, input, w, wantWire)
	if stalled != "" {
		r.Fail("dispatch/stalled-behind-a-waiter", "Watch stopped dispatching inbound PDUs while a Submit call was still inside its transport Write", input,
			tail(stalled, 300), "an unsolicited PDU is delivered to a receiving application regardless of the callers' progress")
	}
	got := w.App()
	same := len(got) == len(wantApp)
	for i := 0; same && i < len(got); i++ {
		same = got[i] == wantApp[i]
	}
	if !same {
		r.Fail("submit/response-leaked", "PDU() did not yield exactly the unsolicited PDUs (a response to an outstanding request leaked, or a PDU was lost)", input,
			fmtDeliveries(got), fmtDeliveries(wantApp))
	}
	// one evaluation: a run of the model shows these observations AND lies within the hypotheses of C05
	r.Case(fmt.Sprintf("sched#%d (admitted, within the hypotheses of C05) %.200s", idx, input), w.EnvExpr(connVariant))
}

// c05Reuse: what a Conn carries from one Submit to the next.  Round: request A reaches the transport, its response is
// dispatched while A's Write is open, A's own context ends, the Write returns — A leaves with its response or through its
// context (the select decides; both allowed).  Then request B on the same connection: it must return its own response,
// and PDU() stays empty.  Several rounds per connection, B on the goroutine of A or on another, answered before or after its Write returns.
func c05Reuse(r *Run, ts []pduType, idx int) {
	rng := r.Rng
	w := NewWorld(true)
	defer w.Shutdown()
	w.StartWatch()
	seq := int32(1 + rng.Intn(1<<20))
	fresh := func() int32 { seq += int32(1 + rng.Intn(3)); return seq }
	type exp struct {
		c      *Call
		want   string
		either bool
	}
	var exps []exp
	answer := func(c *Call) {
		f := frameOf(respFor(c.P, c.Seq))
		w.Peer([][]byte{f}, [][]int{genCuts(rng, len(f))})
	}
	wantOf := func(c *Call) string { return fmt.Sprintf("ok:%#x:%d", idOfPDU(c.P)|0x80000000, c.Seq) }
	wantWire := map[int32][]byte{}
	submit := func(g int) *Call {
		p, q := genSendable(rng, ts, true, 600), fresh()
		wantWire[q] = expectedFrame(p, q)
		return w.Go(g, CallSpec{Kind: "submit", Seq: q, P: p})[0]
	}
	g := 0
	leftByCtx := 0
	for round, rounds := 0, 2+rng.Intn(4); round < rounds && w.Stuck == ""; round++ {
		a := submit(g)
		switch rng.Intn(4) {
		case 0: // A gives up unanswered, inside its Write
			w.CancelCtx(a)
			w.Release(a)
			exps = append(exps, exp{a, "err", false})
		case 1: // A gives up unanswered, waiting
			w.Release(a)
			w.CancelCtx(a)
			exps = append(exps, exp{a, "err", false})
		default: // response filed while the Write is open, then the context ends, then the Write returns
			answer(a)
			w.CancelCtx(a)
			w.Release(a)
			exps = append(exps, exp{a, wantOf(a), true})
		}
		if w.Returned(a) && a.Err != nil {
			leftByCtx++
		}
		if rng.Bool() {
			g++ // B on another goroutine
		}
		for k, nb := 0, 1+rng.Intn(2); k < nb && w.Stuck == ""; k++ {
			b := submit(g)
			if rng.Bool() {
				answer(b)
				w.Release(b)
			} else {
				w.Release(b)
				answer(b)
			}
			exps = append(exps, exp{b, wantOf(b), false})
		}
		g++
	}
	input := "sched " + w.Script()
	r.Count(input, leftByCtx > 0, fmt.Sprintf("reuse/left-by-own-context=%d", min(leftByCtx, 3)))
	if runStuck(r, w, input) {
		return
	}
	for _, p := range w.Panics() {
		r.Fail("panic", "a library goroutine panicked", input, p, "no panic")
	}
	for _, e := range exps {
		got := e.c.Class()
		switch {
		case e.either && (got == "err" || got == e.want):
		case !e.either && got == e.want:
		case e.either || e.want == "err":
			r.Fail("submit/after-own-context", "a Submit whose own context ended returned neither an error nor its own response", input, got, "err or "+e.want)
		default:
			r.Fail("submit/after-an-abandoned-request", "a Submit issued after another call had left through its own context did not return, without error, the response carrying its own sequence number", input, got, e.want)
		}
	}
	c05Wire(r, input, w, wantWire)
	if app := w.App(); len(app) != 0 {
		r.Fail("submit/response-leaked", "PDU() yielded a response to an outstanding request", input, fmtDeliveries(app), "[]")
	}
	r.Case(fmt.Sprintf("reuse#%d (admitted, within the hypotheses of C05) %.200s", idx, input), w.EnvExpr(connVariant))
}

// Resp(): sequence number copied, command_id = request id with the top bit set.
func c05Resp(r *Run, ts []pduType) {
	seqs := []int32{0, 1, -1, 2, 0x7FFFFFFF, -0x80000000, 0x1234567}
	for i := 0; i < 12; i++ {
		seqs = append(seqs, int32(r.Rng.U64()))
	}
	nreq := 0
	for _, t := range ts {
		p := reflect.New(t.T).Interface()
		rq, ok := p.(pdu.Responsable)
		if !ok {
			continue
		}
		nreq++
		for _, s := range seqs {
			q := genPDU(r.Rng, t, modeDomain)
			pdu.WriteSequence(q, s)
			var resp interface{}
			panicked, msg := guard(func() { resp = q.(pdu.Responsable).Resp() })
			r.Count(fmt.Sprintf("resp/%s/%d", t.Name, s), true, "Resp()")
			in := fmt.Sprintf("resp %s seq=%d", t.Name, s)
			if panicked {
				r.Fail("resp/panic/"+t.Name, "Resp() panicked", in, msg, "a response PDU")
				continue
			}
			gotID, gotSeq := idOfPDU(resp), pdu.ReadSequence(resp)
			if gotID != t.ID|0x80000000 || gotSeq != s {
				r.Fail("resp/pairing/"+t.Name, "Resp() does not carry the request's sequence number and the paired response command_id", in,
					fmt.Sprintf("id=%#x seq=%d", gotID, gotSeq), fmt.Sprintf("id=%#x seq=%d", t.ID|0x80000000, s))
			}
			// the frame of the response says the same (command_id comes from the type's tag at Marshal time)
			if s > 0 {
				if f := frameOf(resp); len(f) >= 16 {
					if k, id, sq := classifyFrame(f); k == "fatal" || id != t.ID|0x80000000 || sq != s {
						r.Fail("resp/frame/"+t.Name, "the marshalled response does not carry the paired id and the sequence number", in,
							fmt.Sprintf("%s id=%#x seq=%d", k, id, sq), fmt.Sprintf("id=%#x seq=%d", t.ID|0x80000000, s))
					}
				}
			}
			r.Case("resp_id "+in, fmt.Sprintf("beq_opt N.eqb (resp_id %d) (Some %d)", t.ID, gotID))
		}
		_ = rq
	}
	if nreq != 15 {
		r.Notes = append(r.Notes, fmt.Sprintf("registry has %d request types implementing Responsable (property text says 15)", nreq))
	}
}
