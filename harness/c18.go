package main

import (
	"bufio"
	"bytes"
	"encoding/hex"
	"fmt"
	"io"
	"strings"
	"time"

	"github.com/M2MGateway/go-smpp/sms"
)

func init() { corrTable["C18"] = corrC18 }

// corpus: the repository's own samples, the pre-fix D18 witnesses, and hand-made edge cases
var c18Corpus = []string{
	// TestMarshal samples
	"0001000B915121551532F400000CC8F79D9C07E54F61363B04",
	"0001010B915121551532F40010104190991D9EA341EDF27C1E3E9743",
	"0011000B916407281553F80000AA0AE8329BFD4697D9EC37",
	"0041000B915121551532F400042E0B05040B84C0020003F001010A060403B081EA02066A008509036D6F62696C65746964696E67732E636F6D2F0001",
	"07911326040000F0040B911346610089F60000208062917314080CC8F71D14969741F977FD07",
	"07917283010010F5040BC87238880900F10000993092516195800AE8329BFD4697D9EC37",
	"07919762020033F1040B919762995696F0000041606291401561046379180E",
	"089158921000100930040ED0D376584E7DBBCB000871601002744523664F6066AB6642672A75338ACB4F8696FB8F4999C1670D52D9002E002059826B3275338ACB6B64670D52D9002C8ACB6309002A003100310031002A00320031002A00310023625351FA002E0020670D52D98CBB003A0020002400310035002E00300030002F6708",
	// D18: filler nibble inside the time stamp / inside an hh:mm:ss validity period / absolute VP
	"07911326040000F0040B911346610089F60000FF8062917314080CC8F71D14969741F977FD07",
	"07911326040000F0040B911346610089F600002080F2917314080CC8F71D14969741F977FD07",
	"07911326040000F0040B911346610089F6000020806291731408",
	"07911326040000F0040B911346610089F60000208062F1",
	"0009000B916407281553F8000003F0FFFF000000000AE8329BFD4697D9EC37",
	"0009000B916407281553F800000312F4",
	"0019000B916407281553F80000208062F17314080AE8329BFD4697D9EC37",
	// the smallest inputs
	"", "00", "0000", "000000", "000080", "000100", "000200", "000300", "01", "0191", "01910000", "01910080", "01910100", "01910180", "01910200",
	"FF", "0500",
	// address length 255 (wraps to 0 octets), length 0
	"000100FF9100000000", "00010000000000", "0191040000000000000000000000",
	// alphanumeric address with ESC at the end / invalid escape / CR
	"0001000ED09B000000000000000000", "0001000ED01B1B1B1B1B1B1B000000", "00010004D09B0D000000",
	"00010010D00D0D0D0D0D0D0D0D00000000", "0001000ED00D0D0D0D0D0D1A00000000",
	// UDL beyond the data, UDL with nothing behind it
	"0001000B915121551532F40000FF41", "0001000B915121551532F4000005",
	// status report, command, reports
	"0191020B0B915121551532F4208062917314082080629173140800",
	"000210000000010B915121551532F403010203",
	"0000070000024142", "000087", "019101070000024142", "01910187",
}

// c18Pinned: the first eight corpus entries are the samples of the repository's TestMarshal (decoded and
// re-encoded there); their values are pinned by the unedited test-suite
const c18Pinned = 8

func corrC18(r *Run) {
	r.Import("Model.TpduRun")
	r.Import("Proofs.TpduMarshalEffect")
	r.Rule = "inputs: corpus (repository samples, pre-fix witnesses, edge cases), then well-formed TPDUs of all six types and both report " +
		"flavours, each also with one field replaced by arbitrary octets (filler / non-decimal nibbles, length lies, resized, truncated, " +
		"each time-stamp component 00 / 0F / F0 / FF in turn) and cut at every position, inputs of more than 4096 octets, then random octet strings; " +
		"ORDERED HISTORIES: every ordered pair (both ways, plus random longer sequences) of a corpus holding a well-formed and a malformed instance of each of the " +
		"eight structures / both report flavours / both directions / every validity-period format / numeric and alphanumeric addresses is decoded and re-marshalled in " +
		"one FRESH child process per first element, each observation compared with the same input decoded first in a fresh process; " +
		"every input is decoded through bytes.NewReader AND through four readers that hand out the same octets in pieces (one octet per Read, " +
		"half reads, io.EOF together with the last data, a random chunk schedule); non-trivial = distinct inputs longer than 2 octets; " +
		"STRICT model cases (decoded value + re-encoded octets must equal the model's): the repository's samples and the well-formed SMS-DELIVER / " +
		"SMS-SUBMIT TPDUs, i.e. where C19 or the repository's tests fix the values; every other (hostile) input is a direct test of what C18 states " +
		"(no panic, one of the eight structures or an error, Marshal of the result returns, the same result through every reader) and an ADVISORY " +
		"model case: a disagreement there is a note in the evidence, not a violation, so that hardening the decoder keeps this check quiet"
	r.PerShard(250)
	seen := map[string]bool{}
	nSample := 0
	tryS := func(in []byte, bucket, label string, strict bool) {
		key := hex.EncodeToString(in)
		if seen[key] {
			return
		}
		seen[key] = true
		o := smsRun(in)
		r.Count(key, len(in) > 2, bucket)
		r.Count("", false, [...]string{"outcome: value", "outcome: error", "outcome: panic"}[o.Class])
		r.Evaluations-- // the outcome histogram line is not a second evaluation
		input := "smsdec " + key
		switch {
		case o.Class == 2:
			r.Fail("unmarshal-panic/"+label, "sms.Unmarshal panicked", input, "panic: "+o.PanicMsg, "an error or one of the eight TPDU structures")
		case o.Class == 0 && !o.ValidType:
			r.Fail("unmarshal-foreign-type/"+label, "sms.Unmarshal returned nil error and a value that is none of the eight TPDU structures",
				input, fmt.Sprintf("%T", o.Packet), "an error or one of the eight TPDU structures")
		case o.Class == 0 && o.EncClass == 2:
			r.Fail("marshal-panic/"+o.Name+"/"+label, "sms.Marshal panicked on a structure sms.Unmarshal returned",
				input, fmt.Sprintf("decoded %s %+v; panic: %s", o.Name, o.Packet, o.EncPanic), "Marshal returns normally")
		}
		smsMarshalTwice(r, o, label, input, false)
		smsReaderIndependence(r, in, o, label, input)
		// model cases
		emit := r.Advisory
		if !strict && r.Quick && bucket != "corpus" && !strings.HasSuffix(label, "/well-formed") && fnv64(key)%3 != 0 {
			// quick tier: every hostile input is a direct test, one in three is also an advisory model case
			emit = func(string, string) {}
			r.Hist["model case: none (direct test only)"]++
			r.Hist["model case: advisory"]--
		}
		if strict {
			emit = r.Case
			r.Hist["model case: strict"]++
		} else {
			r.Hist["model case: advisory"]++
		}
		desc := label + " " + key
		if len(desc) > 300 {
			desc = desc[:300] + "..."
		}
		switch {
		case o.Class == 0 && o.ValidType && o.EncClass == 0:
			if o.TermAfter != o.Term && o.TermAfter != "" {
				// Marshal changed its argument (SubmitFlags.ValidityPeriodFormat of a report): the model of that effect, advisory
				r.Advisory("after-marshal "+desc, fmt.Sprintf("sms_arg_after_is %s \"%s\" %s", coqHex(in), o.Name, o.TermAfter))
				r.Hist["marshal changed its argument (hostile / report input)"]++
			}
			emit(desc, fmt.Sprintf("sms_dec_is %s \"%s\" %s && sms_enc_is %s %s",
				coqHex(in), o.Name, o.Term, coqHex(in), coqHex(o.Out)))
			if nSample < 6 && len(in) > 8 {
				nSample++
				r.Sample(map[string]interface{}{"input": key, "how": label, "decoded": o.Name, "re-encoded": hex.EncodeToString(o.Out)})
			}
		case o.Class == 0 && o.ValidType:
			emit(desc, fmt.Sprintf("sms_dec_is %s \"%s\" %s && (sms_enc_class %s =? %d)",
				coqHex(in), o.Name, o.Term, coqHex(in), o.EncClass))
		default:
			emit(desc, fmt.Sprintf("sms_class %s =? %d", coqHex(in), o.Class))
			if o.Class == 1 && nSample < 9 && len(in) > 8 {
				nSample++
				r.Sample(map[string]interface{}{"input": key, "how": label, "outcome": "error"})
			}
		}
	}
	try := func(in []byte, bucket, label string) { tryS(in, bucket, label, false) }
	for i, in := range smsHexList(c18Corpus) {
		tryS(in, "corpus", "corpus", i < c18Pinned)
	}
	c18FieldDecoders(r)
	c18ReaderScripts(r)
	c18ReaderDecoder(r)
	// ordered histories in fresh processes: the result must not depend on what was decoded before
	smsHistories(r, smsHistoryCorpus(r.Rng), r.N(3, 40))
	// every first octet x failure bit x SC present, with a short tail
	for sc := 0; sc < 2; sc++ {
		for fo := 0; fo < 256; fo += 1 {
			if r.Quick && fo%4 > 2 && fo > 16 {
				continue
			}
			var in []byte
			if sc == 1 {
				in = append(in, 2, 0x91, 0x21)
			} else {
				in = append(in, 0)
			}
			in = append(in, byte(fo))
			in = append(in, r.Rng.Bytes(2+r.Rng.Intn(12))...)
			try(in, "first-octet sweep", "first-octet")
		}
	}
	// structured TPDUs
	nBase := r.N(12, 60)
	nMut := r.N(14, 40)
	for _, kind := range smsKinds {
		for b := 0; b < nBase; b++ {
			base := smsBase(r.Rng, kind, b)
			whole := base.Bytes()
			tryS(whole, "well-formed "+kind, kind+"/well-formed", kind == "deliver" || kind == "submit")
			if b < 1 {
				// more than one bufio buffer of input: the TPDU followed by 4096..9000 further octets
				long := append(append([]byte{}, whole...), r.Rng.Bytes(4096+r.Rng.Intn(600))...)
				try(long, "more than 4096 octets: "+kind, kind+"/long-input")
			}
			// every time-stamp component in turn as 00, 0F (non-decimal units), F0 (filler), FF
			for si, sg := range base {
				if sg.Name != "SCTS" && sg.Name != "DT" && !(sg.Name == "VP" && len(sg.B) == 7) {
					continue
				}
				for c := 0; c < len(sg.B); c++ {
					for _, v := range []byte{0x00, 0x0F, 0xF0, 0xFF} {
						if b >= 2 && r.Quick && r.Rng.Intn(4) != 0 || b >= 10 && r.Rng.Intn(6) != 0 {
							continue
						}
						m := base.Clone()
						m[si].B[c] = v
						try(m.Bytes(), "time-stamp component replaced: "+kind, fmt.Sprintf("%s/%s/component-%d=%02X", kind, sg.Name, c, v))
					}
				}
			}
			// cut at every position (quick: every position of the first two bases, then a stride)
			step := 1
			if b >= 2 && r.Quick {
				step = 5
			}
			for cut := 0; cut < len(whole); cut += step {
				try(whole[:cut], "cut "+kind, kind+"/cut")
			}
			for m := 0; m < nMut; m++ {
				mut, how := smsMutate(r.Rng, base)
				mb := mut.Bytes()
				try(mb, "one field replaced: "+kind, kind+"/"+how)
				if m%4 == 0 && len(mb) > 0 {
					try(mb[:r.Rng.Intn(len(mb))], "one field replaced + cut: "+kind, kind+"/"+how+"+cut")
				}
			}
		}
	}
	// random octet strings, SC length biased small so that the type peek succeeds
	nRand := r.N(1100, 12000)
	for i := 0; i < nRand; i++ {
		n := r.Rng.Intn(48)
		in := r.Rng.Bytes(n)
		if n > 0 && r.Rng.Intn(4) != 0 {
			in[0] = byte(r.Rng.Intn(4))
		}
		if n > 2 && r.Rng.Intn(3) == 0 {
			in[0] = 0
			in[1] = byte(r.Rng.Intn(256))
		}
		try(in, "random octets", "random")
	}
}

// c18FieldDecoders (audit C18-D3): the exported field codecs the anchors name, called DIRECTLY - ReadFrom of Time,
// Address, SCAddress, Duration, EnhancedDuration on arbitrary octets through a plain bytes.Reader and through chunked
// readers that are NOT a bufio.Reader (Address / SCAddress / EnhancedDuration wrap their argument in a bufio.Reader of
// their own, Time / Duration read it directly), then WriteTo / MarshalBinary of the value decoded.  Direct tests: no
// panic on either side (the same code sms.Unmarshal / sms.Marshal run, reached without them), the same decoded value
// through every reader.  Model: decode-then-encode of each field type as an ADVISORY case (fld_is).  Hand-built values
// no decoder produces (Address{TON: 1, No: "abc"}, negative / huge durations, the zero time) are outside C18: a panic
// of an encoder on one of them is a note in the evidence.
func c18FieldDecoders(r *Run) {
	r.Import("Model.TpduFieldRun")
	type dec struct {
		name string
		kind int
		run  func(rd io.Reader) (val string, enc func() []byte, err error)
	}
	wt := func(w io.WriterTo) func() []byte {
		return func() []byte { var b bytes.Buffer; _, _ = w.WriteTo(&b); return b.Bytes() }
	}
	decs := []dec{
		{"Address", 0, func(rd io.Reader) (string, func() []byte, error) {
			var x sms.Address
			_, err := x.ReadFrom(rd)
			return fmt.Sprintf("%+v", x), func() []byte { _, _ = x.MarshalBinary(); return wt(&x)() }, err
		}},
		{"SCAddress", 1, func(rd io.Reader) (string, func() []byte, error) {
			var x sms.SCAddress
			_, err := x.ReadFrom(rd)
			return fmt.Sprintf("%+v", x), wt(x), err
		}},
		{"Time", 2, func(rd io.Reader) (string, func() []byte, error) {
			var x sms.Time
			_, err := x.ReadFrom(rd)
			return smsTimeFields(x.Time), wt(&x), err
		}},
		{"Duration", 3, func(rd io.Reader) (string, func() []byte, error) {
			var x sms.Duration
			_, err := x.ReadFrom(rd)
			return fmt.Sprint(x.Duration), wt(&x), err
		}},
		{"EnhancedDuration", 4, func(rd io.Reader) (string, func() []byte, error) {
			var x sms.EnhancedDuration
			_, err := x.ReadFrom(rd)
			return fmt.Sprintf("%v %d", x.Duration, x.Indicator), wt(&x), err
		}},
	}
	plain := smsReaderKind{"bytes.Reader", func(_ *Rng, in []byte) io.Reader { return bytes.NewReader(in) }}
	n := r.N(150, 1500)
	for _, d := range decs {
		for i := 0; i < n; i++ {
			in := r.Rng.Bytes(r.Rng.Intn(12))
			if len(in) > 0 && r.Rng.Bool() {
				in[r.Rng.Intn(len(in))] |= byte(r.Rng.Pick([]int{0xF0, 0x0F, 0xFF}))
			}
			if len(in) > 1 && d.name == "EnhancedDuration" {
				in[0] = in[0]&0xF8 | byte(r.Rng.Intn(4))
			}
			if len(in) > 1 && (d.name == "Address" || d.name == "SCAddress") && r.Rng.Bool() {
				in[0] = byte(r.Rng.Intn(2 * len(in)))
			}
			input := "fielddec " + d.name + " " + hex.EncodeToString(in)
			r.Count("fielddec/"+d.name+"/"+hex.EncodeToString(in), len(in) > 0, "field codec called directly: "+d.name)
			var first string
			for ki, k := range append([]smsReaderKind{plain}, smsReaderKinds...) {
				var val string
				var enc func() []byte
				var err error
				var out []byte
				if p, msg := guard(func() { val, enc, err = d.run(k.New(r.Rng, in)) }); p {
					r.Fail("field-decoder-panic/"+d.name, "sms."+d.name+".ReadFrom panicked on arbitrary octets", input+" via "+k.Name, "panic: "+msg, "a value or an error")
					break
				}
				cls := 1
				if err == nil {
					cls = 0
					if p, msg := guard(func() { out = enc() }); p {
						r.Fail("field-encoder-panic/"+d.name, "WriteTo / MarshalBinary of the value sms."+d.name+".ReadFrom returned panicked", input+" via "+k.Name,
							"decoded "+val+"; panic: "+msg, "returns normally")
						break
					}
				}
				obs := fmt.Sprintf("%d %s %x", cls, val, out)
				if cls == 1 {
					obs = "error"
				}
				if ki == 0 {
					first = obs
					r.Advisory(input, fmt.Sprintf("fld_is %d %s %d %s", d.kind, coqHex(in), cls, coqHex(out)))
				} else if obs != first {
					r.Fail("field-decoder-reader/"+d.name+"/"+k.Name, "sms."+d.name+".ReadFrom gives another result when the same octets arrive in smaller pieces", input+" via "+k.Name, obs, first)
				}
			}
		}
	}
	// hand-built values: outside C18, reported as a note
	bad := 0
	badWhat := map[string]int{}
	for i := 0; i < r.N(200, 2000); i++ {
		for wi, w := range []func(){
			func() {
				x := sms.Address{TON: r.Rng.Byte(), NPI: r.Rng.Byte(), No: string(r.Rng.Bytes(r.Rng.Intn(24)))}
				_, _ = x.MarshalBinary()
				_, _ = x.WriteTo(io.Discard)
			},
			func() {
				x := sms.SCAddress{TON: r.Rng.Byte(), NPI: r.Rng.Byte(), No: string(r.Rng.Bytes(r.Rng.Intn(24)))}
				_, _ = x.WriteTo(io.Discard)
			},
			func() { x := sms.Duration{Duration: time.Duration(int64(r.Rng.U64()))}; _, _ = x.WriteTo(io.Discard) },
			func() {
				x := sms.EnhancedDuration{Duration: time.Duration(int64(r.Rng.U64())), Indicator: r.Rng.Byte()}
				_, _ = x.WriteTo(io.Discard)
			},
			func() {
				x := sms.Time{Time: time.Unix(int64(r.Rng.U64()>>20)-1<<42, 0).In(time.FixedZone("", r.Rng.Intn(200000)-100000))}
				_, _ = x.WriteTo(io.Discard)
			},
		} {
			if p, msg := guard(w); p {
				bad++
				badWhat[fmt.Sprintf("%s: %s", [...]string{"Address", "SCAddress", "Duration", "EnhancedDuration", "Time"}[wi], msg)]++
			}
		}
	}
	r.Hist["field encoders on hand-built values (outside C18)"] += r.N(200, 2000) * 5
	if bad > 0 {
		r.Notes = append(r.Notes, fmt.Sprintf("ADVISORY: %d panics of field encoders (WriteTo / MarshalBinary) on hand-built values no decoder produces - outside C18: %v", bad, badWhat))
	}
}

// c18ReaderScripts ties the bufio model of Model/TpduReader.v (about which C18_reader_primitives_independent / C18_reader_independence speak) to
// the real bufio.Reader: a random script of the four primitives the decoder uses (ReadByte, readFull = io.ReadFull with
// io.ErrUnexpectedEOF read as nil, Peek, Discard) runs on bufio.NewReader over a reader with a random chunk schedule;
// the model must give the same observations on the chunked reader AND on the plain list.  Go library behaviour only:
// independent of the repository's code, so these are ordinary (strict) cases.
func c18ReaderScripts(r *Run) {
	r.Import("Model.TpduReader")
	n := r.N(120, 1200)
	for i := 0; i < n; i++ {
		data := r.Rng.Bytes(r.Rng.Intn(40))
		sched := randSched(r.Rng, len(data)/(1+r.Rng.Intn(3)))
		eofd := r.Rng.Bool()
		br := bufio.NewReader(&schedReader{data: append([]byte{}, data...), sched: append([]int{}, sched...), eofWithData: eofd})
		var ops, obs []string
		for k := 0; k < 2+r.Rng.Intn(7); k++ {
			var got []byte
			var err error
			arg := r.Rng.Intn(9)
			switch r.Rng.Intn(4) {
			case 0:
				var b byte
				b, err = br.ReadByte()
				got = []byte{b}
				ops = append(ops, "RByte")
			case 1:
				got = make([]byte, arg)
				if _, err = io.ReadFull(br, got); err == io.ErrUnexpectedEOF {
					err = nil
				}
				ops = append(ops, fmt.Sprintf("RFull %d", arg))
			case 2:
				got, err = br.Peek(arg)
				ops = append(ops, fmt.Sprintf("RPeek %d", arg))
			default:
				_, err = br.Discard(arg)
				ops = append(ops, fmt.Sprintf("RDiscard %d", arg))
			}
			if err != nil {
				obs = append(obs, "None")
				break
			}
			obs = append(obs, "(Some "+coqHex(got)+")")
		}
		sc := make([]string, len(sched))
		for j, x := range sched {
			sc[j] = fmt.Sprintf("%d%%nat", x)
		}
		r.Count(fmt.Sprintf("readerscript/%d", i), true, "bufio script on a chunked reader")
		r.Case(fmt.Sprintf("bufio script %x %v %v: %s", data, sched, eofd, strings.Join(ops, "; ")),
			fmt.Sprintf("script_is %s %s %s %s %s", coqHex(data), coqList(sc), coqBool(eofd), coqList(ops), coqList(obs)))
	}
}

// c18ReaderDecoder ties the WHOLE decoder written over the bufio model (Model/TpduReader.v unmarshal_reader, about which
// C18_reader_independence speaks) to sms.Unmarshal behind a chunking reader: each corpus entry is decoded through
// bufio-over-schedReader with one octet per Read (io.EOF afterwards) and with a random schedule (io.EOF with or after the
// last piece); the model evaluated ON THE SAME SCHEDULE must give the same structure and observables, or the same class.
// Strict for the repository's pinned samples, advisory for everything else (hostile inputs, cuts of the samples).
func c18ReaderDecoder(r *Run) {
	r.Import("Model.TpduReaderRun")
	corpus := smsHexList(c18Corpus)
	one := func(in []byte, sched []int, eofd bool, strict bool, label string) {
		smsReaderCase(r, in, sched, eofd, strict, label, "smsdec "+hex.EncodeToString(in))
	}
	for i, in := range corpus {
		strict := i < c18Pinned
		one(in, nil, false, strict, "corpus")
		one(in, randSched(r.Rng, len(in)), r.Rng.Bool(), strict, "corpus")
		if strict && len(in) > 3 {
			cut := in[:1+r.Rng.Intn(len(in)-1)]
			one(cut, randSched(r.Rng, len(cut)), r.Rng.Bool(), false, "corpus-cut")
		}
	}
}
