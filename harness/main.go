// Command harness ties the Coq models under /verif/coq to the go-smpp
// implementation in /repo (module replace).  Sub-commands:
//
//	harness gen <table> <out.v>          regenerate a Gen/*.v table from the running code
//	harness corr <PID> <tier> <seed> <outdir>
//	                                     run the direct property tests of PID on the
//	                                     implementation, write result.json and the
//	                                     cases_*.v files the Coq model is evaluated on
//	harness replay <PID> <file>          re-run one recorded input
package main

import (
	"fmt"
	"os"
	"strconv"
)

type corrFn func(r *Run)

var corrTable = map[string]corrFn{}
var genTable = map[string]func(w *CoqWriter){}
var replayTable = map[string]func(arg string) string{}

func main() {
	if len(os.Args) < 2 {
		fmt.Fprintln(os.Stderr, "usage: harness gen|corr|replay ...")
		os.Exit(2)
	}
	switch os.Args[1] {
	case "gen":
		fn, ok := genTable[os.Args[2]]
		if !ok {
			fmt.Fprintln(os.Stderr, "unknown table", os.Args[2])
			os.Exit(2)
		}
		w := NewCoqWriter()
		fn(w)
		if err := w.WriteIfChanged(os.Args[3]); err != nil {
			fmt.Fprintln(os.Stderr, err)
			os.Exit(2)
		}
	case "corr":
		pid, tier := os.Args[2], os.Args[3]
		seed, _ := strconv.ParseUint(os.Args[4], 10, 64)
		fn, ok := corrTable[pid]
		if !ok {
			fmt.Fprintln(os.Stderr, "unknown property", pid)
			os.Exit(2)
		}
		r := NewRun(pid, tier, seed, os.Args[5])
		fn(r)
		if err := r.Finish(); err != nil {
			fmt.Fprintln(os.Stderr, err)
			os.Exit(2)
		}
	case "replay":
		fn, ok := replayTable[os.Args[2]]
		if !ok {
			fmt.Fprintln(os.Stderr, "no replay for", os.Args[2])
			os.Exit(2)
		}
		data, err := os.ReadFile(os.Args[3])
		if err != nil {
			fmt.Fprintln(os.Stderr, err)
			os.Exit(2)
		}
		fmt.Println(fn(string(data)))
	default:
		os.Exit(2)
	}
}
