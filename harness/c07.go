package main

import (
	"fmt"
	"sort"
	"strings"
	"unicode/utf8"

	"github.com/M2MGateway/go-smpp/coding"
	"github.com/M2MGateway/go-smpp/pdu"
)

func init() { corrTable["C07"] = corrC07 }

// headerProbe: Len() of the concatenation header and the single information element Set() writes.
func headerProbe(ref uint16, total, seq byte) (hlen int, id byte, data []byte) {
	h := pdu.ConcatenatedHeader{Reference: ref, TotalParts: total, Sequence: seq}
	udh := pdu.UserDataHeader{}
	h.Set(udh)
	for k, v := range udh {
		id, data = k, v
	}
	return h.Len(), id, data
}

// ---------------------------------------------------------------- codings under test
type c07Coding struct {
	name  string
	c     coding.DataCoding
	wmodel, emodel string // Gallina: width function and encoder of the length-only model instance
	cs             string // Gallina: the coding (Model/Charset.v) for the payload-level instance compose_cs
	gsm   bool
	// fixedUnit > 0: every character of the repertoire used for "fixed-width" texts takes this many bits
	stateful bool
	pools    map[int][]rune // by octets of the one-character encoding (GSM: by septets)
	specials []rune         // accepted characters by UTF-8 form: U+FFFD (= utf8.RuneError) first, then a 4-, 3-, 2-octet sequence
	deep     bool                // the model looks characters up in tables of thousands of rows: long random texts are slow in coqc
	aliases  []coding.DataCoding // message-waiting / message-class values whose encoder behaves like this coding's
}

func c07Codings() []*c07Coding {
	l := []*c07Coding{
		{name: "gsm7", c: coding.GSM7BitCoding, gsm: true},
		{name: "ascii", cs: "CAscii", c: coding.ASCIICoding, wmodel: "w_1byte", emodel: "(enc_len_stateless wd_ascii)"},
		{name: "latin1", cs: "CLatin1", c: coding.Latin1Coding, wmodel: "w_1byte", emodel: "(enc_len_stateless wd_latin1)"},
		{name: "cyrillic", cs: "CCyrillic", c: coding.CyrillicCoding, wmodel: "w_1byte", emodel: "(enc_len_stateless wd_cyrillic)"},
		{name: "hebrew", cs: "CHebrew", c: coding.HebrewCoding, wmodel: "w_1byte", emodel: "(enc_len_stateless wd_hebrew)"},
		{name: "shiftjis", deep: true, cs: "CSjis", c: coding.ShiftJISCoding, wmodel: "w_multibyte", emodel: "(enc_len_stateless wd_shiftjis)"},
		{name: "eucjp", deep: true, cs: "CEucjp", c: coding.EUCJPCoding, wmodel: "(w_measured wd_eucjp)", emodel: "(enc_len_stateless wd_eucjp)"},
		{name: "euckr", deep: true, cs: "CEuckr", c: coding.EUCKRCoding, wmodel: "w_multibyte", emodel: "(enc_len_stateless wd_euckr)"},
		{name: "ucs2", cs: "CUcs2", c: coding.UCS2Coding, wmodel: "w_utf16", emodel: "(enc_len_stateless wd_ucs2)"},
		{name: "iso2022jp", deep: true, cs: "CIso2022jp", c: coding.ISO2022JPCoding, wmodel: "w_multibyte", emodel: "(enc_len_2022 wd_iso2022jp JAscii)", stateful: true},
	}
	cands := [][2]rune{{0x20, 0x7E}, {0xA0, 0xFF}, {0x391, 0x3A9}, {0x410, 0x44F}, {0x5D0, 0x5EA}, {0x2010, 0x2030}, {0x3041, 0x3093},
		{0x30A1, 0x30F6}, {0x4E00, 0x4FFF}, {0x5000, 0x5200}, {0x9000, 0x9100}, {0xAC00, 0xAD00}, {0xFF61, 0xFF9F}, {0x1F300, 0x1F340}, {0x20000, 0x20010}}
	for _, cd := range l {
		cd.aliases = aliasValues(cd.c)
		cd.pools = map[int][]rune{}
		for _, rg := range cands {
			for r := rg[0]; r <= rg[1]; r++ {
				if cd.gsm {
					if s, ok := stdSeptets[r]; ok && !isD16(r) {
						cd.pools[len(s)] = append(cd.pools[len(s)], r)
					}
					continue
				}
				out, cls := wdEncode(cd.c, string(r))
				if cls == 0 && len(out) > 0 {
					cd.pools[len(out)] = append(cd.pools[len(out)], r)
				}
			}
		}
	}
	// characters whose UTF-8 form matters to a splitter that walks bytes: U+FFFD is what utf8.DecodeRune
	// returns for malformed input, so a byte-walking splitter may mistake the genuine character for an error
	for _, cd := range l {
		accepts := func(x rune) bool {
			if cd.gsm {
				_, ok := stdSeptets[x]
				return ok && !isD16(x)
			}
			out, cls := wdEncode(cd.c, string(x))
			return cls == 0 && len(out) > 0
		}
		if accepts(0xFFFD) {
			cd.specials = append(cd.specials, 0xFFFD)
		}
		extra := []rune{0x1F600, 0x20000, 0x10FFFF, 0xFFFC, 0xFFFE, 0xFFFF, 0xFEFF, 0x20AC, 0x2116, 0x2017, 0x200E, 0x3042, 0x30A2, 0x4E00, 0xAC00, 0xFF71, 0x7FF, 0x800, 0x3A9, 0x401, 0x5D0, 0xE9, 0xA7, 0x80}
		for _, want := range []int{4, 3, 2} {
			n := 0
			for _, x := range extra {
				if utf8.RuneLen(x) == want && accepts(x) && n < 2 {
					cd.specials = append(cd.specials, x)
					n++
				}
			}
		}
	}
	return l
}

func (cd *c07Coding) sizes() []int {
	var ks []int
	for k := range cd.pools {
		ks = append(ks, k)
	}
	sort.Ints(ks)
	return ks
}

// coqText prints a rune list run-length compressed: (rep 200 97 ++ [8364; 97] ++ ...)
func coqText(rs []rune) string {
	if len(rs) == 0 {
		return "[]"
	}
	var parts []string
	var lit []rune
	flush := func() {
		if len(lit) > 0 {
			parts = append(parts, coqRunes(lit))
			lit = nil
		}
	}
	for i := 0; i < len(rs); {
		j := i
		for j < len(rs) && rs[j] == rs[i] {
			j++
		}
		if j-i >= 8 {
			flush()
			parts = append(parts, fmt.Sprintf("rep %d %d", j-i, rs[i]))
		} else {
			lit = append(lit, rs[i:j]...)
		}
		i = j
	}
	flush()
	if len(parts) == 1 {
		return "(" + parts[0] + ")"
	}
	return "(" + strings.Join(parts, " ++ ") + ")"
}

func coqUDH(u pdu.UserDataHeader) string {
	var ks []int
	for k := range u {
		ks = append(ks, int(k))
	}
	sort.Ints(ks)
	var es []string
	for _, k := range ks {
		es = append(es, fmt.Sprintf("(%d, %s)", k, coqBytesN(u[byte(k)])))
	}
	return coqList(es)
}

func describeText(rs []rune) string {
	s := string(rs)
	if len(rs) > 24 {
		s = string(rs[:12]) + "..." + string(rs[len(rs)-8:])
	}
	// where the text departs from its first character (the positions the generators vary)
	var marks []string
	for i, x := range rs {
		if x != rs[0] && len(marks) < 4 && (i == 0 || rs[i-1] != x || len(rs) <= 24) {
			marks = append(marks, fmt.Sprintf("[%d]=U+%04X", i, x))
		}
	}
	if len(rs) > 24 && len(marks) > 0 {
		return fmt.Sprintf("%d runes %q %s", len(rs), s, strings.Join(marks, " "))
	}
	return fmt.Sprintf("%d runes %q", len(rs), s)
}

// ---------------------------------------------------------------- reassembly
// gsmJoin: do the decoded pieces reproduce text, where a piece may have lost (or gained) one
// trailing CR if, counting the segment's own CR, its septet count is a multiple of 8 (C08)?
// rooms[i] > 0 additionally demands that segment i (a non-last part of a fixed-width text) is
// maximal: one more septet would not fit rooms[i] octets.  Returns whether a consistent reading exists.
func gsmJoin(text []rune, pieces [][]rune, rooms []int) bool {
	full := func(i int, seg []rune) bool {
		if rooms == nil || i >= len(rooms) || rooms[i] <= 0 {
			return true
		}
		s, ok := stdTextSeptets(seg)
		return ok && (7*(len(s)+1)+7)/8 > rooms[i]
	}
	var rec func(pos, i int) bool
	rec = func(pos, i int) bool {
		if i == len(pieces) {
			return pos == len(text)
		}
		d := pieces[i]
		// the piece GAINED a CR: the segment had 8k septets and ended in CR, the encoder sent the second CR
		if n := len(d); n >= 2 && d[n-1] == '\r' && d[n-2] == '\r' && pos+n-1 <= len(text) && eqRunes(text[pos:pos+n-1], d[:n-1]) {
			if s, ok := stdTextSeptets(d[:n-1]); ok && len(s)%8 == 0 && full(i, d[:n-1]) && rec(pos+n-1, i+1) {
				return true
			}
		}
		if pos+len(d) > len(text) || !eqRunes(text[pos:pos+len(d)], d) {
			return false
		}
		if full(i, d) && rec(pos+len(d), i+1) {
			return true
		}
		// the piece LOST a CR
		if pos+len(d) < len(text) && text[pos+len(d)] == '\r' {
			seg := append(append([]rune{}, d...), '\r')
			if s, ok := stdTextSeptets(seg); ok && len(s)%8 == 0 && full(i, seg) {
				return rec(pos+len(d)+1, i+1)
			}
		}
		return false
	}
	return rec(0, 0)
}

type c07 struct {
	r      *Run
	seen   map[string]bool
	nalias int
	ncase  int
}

// compose runs one (coding, text, reference) through ComposeMultipartShortMessage.
func (c *c07) compose(cd *c07Coding, rs []rune, ref uint16, bucket string) {
	c.composeDC(cd, cd.c, rs, ref, bucket)
}

// composeAlias: the same through one of the message-waiting / message-class data_coding values that carry this coding
// (every clause of the property holds for "every data coding that has an encoder", not only the ten table constants)
func (c *c07) composeAlias(cd *c07Coding, rs []rune, ref uint16, bucket string) {
	if len(cd.aliases) == 0 {
		return
	}
	dc := cd.aliases[c.nalias%len(cd.aliases)]
	c.nalias += 7 // walks through all values of the groups (their sizes are coprime to 7)
	c.composeDC(cd, dc, rs, ref, bucket+" (data_coding of a message-waiting / message-class group)")
}

func (c *c07) composeDC(cd *c07Coding, dc coding.DataCoding, rs []rune, ref uint16, bucket string) {
	r := c.r
	text := string(rs)
	key := fmt.Sprintf("%s/%d/%d/%s", cd.name, byte(dc), ref, text)
	if c.seen[key] {
		return
	}
	c.seen[key] = true
	in := fmt.Sprintf("compose coding=%s ref=%d text=%s", cd.name, ref, describeText(rs))
	if dc != cd.c {
		in = fmt.Sprintf("compose coding=%s data_coding=%d ref=%d text=%s", cd.name, byte(dc), ref, describeText(rs))
	}
	var parts []pdu.ShortMessage
	var err error
	panicked, msg := guard(func() { parts, err = pdu.ComposeMultipartShortMessage(text, dc, ref) })
	r.Count(key, len(rs) > 0, cd.name+": "+bucket)
	cls := 0
	if panicked {
		cls = 2
		r.Fail("compose/panic", "ComposeMultipartShortMessage panicked", in, msg, "parts or an error")
	} else if err != nil {
		cls = 1
	}
	// what the encoder says about the whole text (fresh encoder): encodable at all?
	whole, wcls := wdEncode(dc, text)
	if cls == 0 {
		n := len(parts)
		r.Hist[fmt.Sprintf("parts: %s", partsBucket(n))]++
		if n > 254 {
			r.Fail("count/more-than-254-parts", "more than 254 parts returned", in, fmt.Sprintf("%d parts", n), "an error")
		}
		var pieces [][]rune
		joined := []rune{}
		decodeOK := true
		for i, p := range parts {
			if p.DataCoding != dc {
				// the receiver decodes by the data coding the part carries: it must denote the same coding (same encoder class)
				pb, pok := encBaseOf(p.DataCoding)
				if db, dok := encBaseOf(dc); !pok || !dok || pb != db {
					r.Fail("label/part-carries-another-data-coding", "a part carries a data coding that does not denote the coding it was encoded with", in,
						fmt.Sprintf("part %d/%d: data_coding %d", i+1, n, byte(p.DataCoding)), fmt.Sprintf("data_coding %d or one that denotes the same coding", byte(dc)))
				}
			}
			sz := p.UDHeader.Len() + len(p.Message)
			if sz > 140 {
				r.Fail("size/"+cd.name+"-part-exceeds-140", "user-data header plus payload exceed 140 octets", in,
					fmt.Sprintf("part %d/%d: header %d + payload %d octets", i+1, n, p.UDHeader.Len(), len(p.Message)), "at most 140")
			}
			if n == 1 {
				if len(p.UDHeader) != 0 {
					r.Fail("label/single-part-with-header", "a single part carries a user-data header", in, fmt.Sprintf("%v", p.UDHeader), "no header")
				}
			} else {
				h := p.UDHeader.ConcatenatedHeader()
				if len(p.UDHeader) != 1 || h == nil || h.Reference != ref || int(h.TotalParts) != n || int(h.Sequence) != i+1 {
					cl := "label/wrong-concatenation-element"
					if h != nil && h.Reference != ref {
						cl = "label/wrong-reference"
					}
					r.Fail(cl, "part does not carry exactly one concatenation element (ref, N, i)", in,
						fmt.Sprintf("part %d/%d: header %v -> %+v", i+1, n, p.UDHeader, h), fmt.Sprintf("ref=%d total=%d seq=%d", ref, n, i+1))
				}
			}
			var dec []byte
			var derr error
			dp, _ := guard(func() { dec, derr = dc.Encoding().NewDecoder().Bytes(p.Message) })
			if dp || derr != nil {
				decodeOK = false
				r.Fail("lossless/"+cd.name+"-payload-does-not-decode", "a payload does not decode with the same coding", in,
					fmt.Sprintf("part %d/%d payload %x", i+1, n, p.Message), "decodes")
				continue
			}
			pieces = append(pieces, []rune(string(dec)))
			joined = append(joined, []rune(string(dec))...)
		}
		if decodeOK {
			ok := eqRunes(joined, rs)
			if !ok && cd.gsm {
				ok = gsmJoin(rs, pieces, nil)
			}
			if !ok {
				r.Fail("lossless/"+cd.name+"-text-changed", "decoded payloads joined in order differ from the text", in,
					fmt.Sprintf("joined %s", describeText(joined)), "the text")
			}
		}
		// maximality for fixed-width texts: no part but the last could hold one more character
		if unit := c.fixedUnit(cd, rs); unit > 0 && n > 1 && decodeOK {
			if cd.gsm {
				rooms := make([]int, n)
				for i := 0; i < n-1; i++ {
					rooms[i] = 140 - parts[i].UDHeader.Len()
				}
				if gsmJoin(rs, pieces, nil) && !gsmJoin(rs, pieces, rooms) {
					r.Fail("maximal/"+cd.name+"-part-has-room", "a part other than the last could have held one more character", in,
						fmt.Sprintf("%d parts, header %d octets, payloads %d.. octets, reference %d", n, parts[0].UDHeader.Len(), len(parts[0].Message), ref), "full")
				}
			} else {
				for i := 0; i < n-1; i++ {
					p := parts[i]
					if len(p.Message)+unit/8 <= 140-p.UDHeader.Len() {
						r.Fail("maximal/"+cd.name+"-part-has-room", "a part other than the last could have held one more character", in,
							fmt.Sprintf("part %d/%d: header %d + payload %d octets, reference %d", i+1, n, p.UDHeader.Len(), len(p.Message), ref), "full")
						break
					}
				}
			}
		}
	} else if cls == 1 {
		r.Hist["outcome: error"]++
		// an error is what the property asks for when the text is not encodable or needs more than 254 parts;
		// ISO-2022-JP may also be refused by the size check.  Anything else is reported.
		if wcls == 0 && !cd.stateful {
			minParts := (len(whole) + 133) / 134
			if cd.gsm {
				minParts = (len(whole) + 132) / 133
			}
			if minParts <= 200 {
// A refusal does not contradict C07 (the property is conditional on success), so it is
				// not a failure; it is counted and noted: a width regression that the size check turns into
				// refusals shows up here and as the broken width_sound obligation in Coq.
				r.Hist["refused although encodable within 254 parts: "+cd.name]++
				if len(r.Notes) < 5 {
					r.Notes = append(r.Notes, fmt.Sprintf("refused although encodable within 254 parts (%s): %s -> %v", cd.name, in, err))
				}
			}
		}
	}
	if cls == 1 {
		// what comes back TOGETHER with the error (named results): nothing is required by the property (it is conditional on
		// success); recorded, and in the multi-part path checked to be a well-formed beginning of the message - a caller that
		// ignores the error then sends an incomplete message, not a malformed one
		multi := false
		guard(func() { multi = dc.Splitter().Len(text) > 140 })
		r.Hist[fmt.Sprintf("error returned together with %s", map[bool]string{true: "parts (multi-part path)", false: "one part (single-part path)"}[multi && len(parts) > 0 || !multi && len(parts) == 1])]++
		if multi && len(parts) > 0 {
			var joined []rune
			bad := ""
			for i, p := range parts {
				h := p.UDHeader.ConcatenatedHeader()
				if p.UDHeader.Len()+len(p.Message) > 140 || len(p.UDHeader) != 1 || h == nil || h.Reference != ref || int(h.Sequence) != i+1 {
					bad = fmt.Sprintf("part %d: header %v, %d + %d octets", i+1, p.UDHeader, p.UDHeader.Len(), len(p.Message))
					break
				}
				d, _, _ := implDecode(dc, p.Message)
				joined = append(joined, []rune(d)...)
			}
			if bad == "" && !cd.gsm && (len(joined) > len(rs) || !eqRunes(joined, rs[:len(joined)])) {
				bad = "the parts do not decode to a beginning of the text: " + describeText(joined)
			}
			if bad != "" {
				r.Fail("error/"+cd.name+"-parts-returned-with-the-error-are-malformed", "parts returned together with an error are not a well-formed beginning of the message", in, bad, "no parts, or the first parts of the message")
			}
			var ro []string
			for _, p := range parts {
				ro = append(ro, fmt.Sprintf("(%s, %s)", coqUDH(p.UDHeader), coqHex(p.Message)))
			}
			switch {
			case cd.gsm:
				r.Case(in+" (returned with the error)", fmt.Sprintf("returned_obs_ok beq_bytes (compose_returned_multi bytes (@List.length N) w_7bit Gsm7.encode %d %s) %s", ref, coqText(rs), coqList(ro)))
			case dc == cd.c:
				r.Case(in+" (returned with the error)", fmt.Sprintf("returned_obs_ok beq_bytes (compose_returned_multi bytes (@List.length N) (w_of %s) (Charset.encode %s) %d %s) %s", cd.cs, cd.cs, ref, coqText(rs), coqList(ro)))
			}
		}
	}
	if cls != 1 && wcls == 0 {
		// a text needing more than 254 parts must be refused: lower bound on the parts from the encoded size
		if (len(whole)+139)/140 > 254 {
			r.Fail("count/text-needing-more-than-254-parts-accepted", "a text that cannot fit 254 parts was not refused", in,
				fmt.Sprintf("%d parts for %d octets", len(parts), len(whole)), "an error")
		}
	}
	// model case
	var obs, obsLen []string
	for _, p := range parts {
		obs = append(obs, fmt.Sprintf("(%s, %s)", coqUDH(p.UDHeader), coqHex(p.Message)))
		obsLen = append(obsLen, fmt.Sprintf("(%s, %d%%nat)", coqUDH(p.UDHeader), len(p.Message)))
	}
	if cls != 0 {
		obs, obsLen = nil, nil
	}
	switch {
	case cd.gsm:
		r.Case(in, fmt.Sprintf("parts_obs_ok beq_bytes (compose_gsm7 %d %s) %d %s", ref, coqText(rs), cls, coqList(obs)))
	case dc != cd.c:
		// a message-waiting / message-class value: the model resolves it through the regenerated dc_table
		r.Case(in, fmt.Sprintf("parts_obs_ok beq_bytes (compose_dc %d %d %s) %d %s", byte(dc), ref, coqText(rs), cls, coqList(obs)))
	case len(rs) > 5000:
		// hundreds of parts of one repeated character: the lengths say it all (and keep the quick tier quick)
		r.Case(in+" (lengths)", fmt.Sprintf("parts_obs_ok Nat.eqb (compose_len %s %s %d %s) %d %s", cd.wmodel, cd.emodel, ref, coqText(rs), cls, coqList(obsLen)))
	default:
		// payload level: header entries and the payload OCTETS of every part
		r.Case(in, fmt.Sprintf("parts_obs_ok beq_bytes (compose_cs %s %d %s) %d %s", cd.cs, ref, coqText(rs), cls, coqList(obs)))
		if c.ncase++; (c.ncase%4 == 0 && !(cd.deep && len(rs) > 150 && r.Quick)) || cd.stateful {
			// the length-only instance the size theorems (C07_no_size_refusal) speak about
			r.Case(in+" (lengths)", fmt.Sprintf("parts_obs_ok Nat.eqb (compose_len %s %s %d %s) %d %s", cd.wmodel, cd.emodel, ref, coqText(rs), cls, coqList(obsLen)))
		}
	}
	if cls == 0 && len(parts) > 0 {
		// the header accessors on the first and the last part
		for _, i := range []int{0, len(parts) - 1} {
			p := parts[i]
			ch := "None"
			if h := p.UDHeader.ConcatenatedHeader(); h != nil {
				ch = fmt.Sprintf("(Some (%d, %d, %d))", h.Reference, h.TotalParts, h.Sequence)
			}
			r.Case(in+fmt.Sprintf(" header of part %d", i+1), fmt.Sprintf("udh_obs_ok %s %d %s", coqUDH(p.UDHeader), p.UDHeader.Len(), ch))
			if len(parts) == 1 {
				break
			}
		}
	}
	if len(r.Samples) < 8 && cls == 0 && len(parts) > 1 && len(parts) < 5 {
		var ps []string
		for _, p := range parts {
			ps = append(ps, fmt.Sprintf("udh=%v payload=%d", p.UDHeader, len(p.Message)))
		}
		r.Sample(map[string]interface{}{"coding": cd.name, "ref": ref, "text": describeText(rs), "parts": ps})
	}
}

func partsBucket(n int) string {
	switch {
	case n == 1:
		return "1"
	case n == 2:
		return "2"
	case n <= 10:
		return "3..10"
	case n <= 253:
		return "11..253"
	case n == 254:
		return "254"
	}
	return "> 254"
}

// fixedUnit: bits per character if every character of the text has the same width and the coding is a
// fixed-width alphabet for it (GSM default table, single-octet charsets, UCS-2 BMP), else 0.
func (c *c07) fixedUnit(cd *c07Coding, rs []rune) int {
	switch cd.name {
	case "gsm7":
		for _, x := range rs {
			if s, ok := stdSeptets[x]; !ok || len(s) != 1 {
				return 0
			}
		}
		return 7
	case "ascii", "latin1", "cyrillic", "hebrew":
		return 8
	case "ucs2":
		for _, x := range rs {
			if x > 0xFFFF {
				return 0
			}
		}
		return 16
	}
	return 0
}

// split runs Splitter.Split directly with a small limit (many segments from short texts).
func (c *c07) split(cd *c07Coding, rs []rune, limit int) {
	r := c.r
	text := string(rs)
	key := fmt.Sprintf("split/%s/%d/%s", cd.name, limit, text)
	if c.seen[key] {
		return
	}
	c.seen[key] = true
	sp := cd.c.Splitter()
	for _, x := range rs {
		if sp(x) > 8*limit {
			return // the Go loop does not terminate on a character wider than the limit
		}
	}
	in := fmt.Sprintf("split coding=%s limit=%d text=%s", cd.name, limit, describeText(rs))
	var segs []string
	if p, msg := guard(func() { segs = sp.Split(text, limit) }); p {
		r.Fail("split/panic", "Splitter.Split panicked", in, msg, "segments")
		return
	}
	r.Count(key, len(rs) > 0, cd.name+": Split with a small limit")
	if strings.Join(segs, "") != text {
		r.Fail("split/"+cd.name+"-segments-do-not-join-to-text", "joined segments differ from the input", in, fmt.Sprintf("%q", segs), "the text")
	}
	for i, s := range segs {
		if s == "" {
			r.Fail("split/empty-segment", "empty segment", in, fmt.Sprintf("segment %d", i), "non-empty")
		}
		if sp.Len(s) > limit {
			r.Fail("split/"+cd.name+"-segment-over-limit", "a segment is longer than the limit", in, fmt.Sprintf("segment %d: %d octets", i, sp.Len(s)), fmt.Sprint(limit))
		}
		if i+1 < len(segs) {
			next := []rune(segs[i+1])
			bits := 0
			for _, x := range s {
				bits += sp(x)
			}
			if len(next) > 0 && bits+sp(next[0]) <= 8*limit {
				r.Fail("split/"+cd.name+"-segment-not-maximal", "a segment could have taken the next character", in, fmt.Sprintf("segment %d: %d bits + %d", i, bits, sp(next[0])), "greedy")
			}
		}
	}
	var ss []string
	for _, s := range segs {
		ss = append(ss, coqText([]rune(s)))
	}
	w := "w_7bit"
	if !cd.gsm {
		w = cd.wmodel
	}
	r.Case(in, fmt.Sprintf("segs_obs_ok (split %s %d%%nat %s) %s", w, limit, coqText(rs), coqList(ss)))
}

func corrC07(r *Run) {
	r.Import("Model.Base")
	r.Import("Model.Gsm7")
	r.Import("Model.Splitter")
	r.Import("Model.Compose")
	r.Import("Gen.Widths")
	r.Import("Model.IntervalMap")
	r.Import("Model.Charset")
	r.Import("Model.ComposeText")
	r.PerShard(120)
	r.Rule = "ComposeMultipartShortMessage on generated texts per repertoire (GSM 7-bit with extension characters, four single-octet charsets, " +
		"Shift-JIS, EUC-JP incl. 3-octet characters, ISO-2022-JP, EUC-KR, UCS-2 incl. supplementary planes): wide characters at every offset -3..+3 " +
		"around the part boundary, U+FFFD and other characters with 2/3/4-octet UTF-8 forms at every offset -3..+3 around every part boundary, lengths 0 .. beyond 254 parts, references {0,1,254,255,256,65535}+random; Splitter.Split with small limits. " +
		"non-trivial = distinct non-empty (coding, reference, text) / (coding, limit, text)"
	waitTables := tablePerturbTest(r, "widths")
	defer waitTables()
	codecHistoryTests(r, "C07", r.N(40, 600), r.N(6, 40))
	c := &c07{r: r, seen: map[string]bool{}}
	cds := c07Codings()
	refs := []uint16{0, 1, 254, 255, 256, 65535}
	pick := func(p []rune) rune { return p[r.Rng.Intn(len(p))] }
	rept := func(x rune, n int) []rune {
		out := make([]rune, n)
		for i := range out {
			out[i] = x
		}
		return out
	}
	for _, cd := range cds {
		ks := cd.sizes()
		narrow, wide := cd.pools[ks[0]], cd.pools[ks[len(ks)-1]]
		a, b := narrow[0], wide[0]
		if cd.gsm {
			a, b = 'a', 0x20AC
		}
		unitA := ks[0] // octets (septets for GSM) of a narrow character
		// characters of a narrow text that fill one part for 8- and 16-bit references
		per8, per16 := 134/unitA, 133/unitA
		if cd.gsm {
			per8, per16 = 153, 152
		}
		// ---- corpus: the witnesses of D11 / D12
		c.compose(cd, rept(a, per8*2), 255, "corpus")
		c.compose(cd, rept(b, 200), 1, "corpus")
		c.compose(cd, rept(b, 70), 1, "corpus")
		c.compose(cd, nil, 7, "empty text")
		if cd.gsm {
			// a full 152-septet part (16-bit reference) ending in CR: the C08-ambiguous case at the size limit
			for _, ref := range []uint16{256, 255} {
				t := append(rept('a', 151), '\r')
				t = append(t, rept('a', 160)...)
				c.compose(cd, t, ref, "corpus")
				t2 := append(rept('a', 150), 0x20AC) // extension character completing the part
				t2 = append(t2, rept('b', 160)...)
				c.compose(cd, t2, ref, "corpus")
			}
		}
		// ---- around the single-part limit
		for _, n := range []int{139, 140, 141} {
			k := n / unitA
			if cd.gsm {
				k = n * 8 / 7
			}
			for d := -1; d <= 1; d++ {
				if k+d >= 0 {
					c.compose(cd, rept(a, k+d), refs[r.Rng.Intn(len(refs))], "around the single-part limit")
				}
			}
		}
		// ---- the single-part shortcut with MIXED widths: narrow characters up to the limit and one wide character
		//      (69 BMP + 1 supplementary-plane character = 142 octets of UCS-2; 159 default + 1 extension character = 161 septets)
		for ri, ref := range []uint16{256, 255} {
			if r.Quick && ri > 0 {
				break
			}
			for d := -2; d <= 1; d++ {
				if r.Quick && d == -2 {
					continue
				}
				k := 140/unitA - ks[len(ks)-1]/unitA + d
				if cd.gsm {
					k = 160 - 2 + d
				}
				if k < 0 {
					continue
				}
				for pi, pos := range []int{0, k, k / 2} {
					if r.Quick && pi == 2 {
						break
					}
					t := append(append(rept(a, pos), b), rept(a, k-pos)...)
					c.compose(cd, t, ref, "mixed widths around the single-part limit")
				}
			}
		}
		// ---- the message-waiting / message-class data_coding values that carry this coding (GSM 7-bit: 0xD0-0xDF, 0xF0-0xF3,
		//      0xF8-0xFB; UCS-2: 0xE0-0xEF, 0xF4-0xF7, 0xFC-0xFF): the single-part limit, full parts (maximality), a wide
		//      character at the boundary, mixtures
		if len(cd.aliases) > 0 {
			for _, n := range []int{140, 141} {
				k := n / unitA
				if cd.gsm {
					k = n * 8 / 7
				}
				c.composeAlias(cd, rept(a, k), refs[r.Rng.Intn(len(refs))], "around the single-part limit")
				c.composeAlias(cd, rept(a, k+1), refs[r.Rng.Intn(len(refs))], "around the single-part limit")
			}
			for _, ref := range []uint16{255, 256, uint16(r.Rng.Intn(65536))} {
				per := per8
				if ref > 255 {
					per = per16
				}
				c.composeAlias(cd, rept(a, 2*per), ref, "two full parts")
				c.composeAlias(cd, rept(a, 2*per+1), ref, "two full parts and one character")
				for _, off := range []int{-1, 0} {
					t := append(rept(a, per+off), b)
					t = append(t, rept(a, per+5)...)
					c.composeAlias(cd, t, ref, "wide character at the part boundary")
				}
			}
			c.composeAlias(cd, nil, 7, "empty text")
			for i, na := 0, r.N(len(cd.aliases)/4+4, len(cd.aliases)+4); i < na; i++ { // every value of the groups at least once in the thorough tier
				n := 1 + r.Rng.Intn(3*per16)
				c.composeAlias(cd, rept(pick(narrow), n), uint16(r.Rng.Intn(65536)), "fixed-width text")
			}
		}
		// ---- a wide character at every offset -3..+3 around the first and second part boundary
		brefs := refs
		if r.Quick { // the two sides of the 8/16-bit switch always, one of the others in turn
			brefs = []uint16{255, 256, refs[r.Rng.Intn(len(refs))]}
		}
		for _, ref := range brefs {
			per := per8
			if ref > 255 {
				per = per16
			}
			for off := -3; off <= 3; off++ {
				for wi, wch := range []rune{b, wide[len(wide)/2]} {
					for ri, run := range []int{1, 3} {
						if r.Quick && wi != ri { // quick: (b,1) and (mid,3)
							continue
						}
						t := append(rept(a, per+off), rept(wch, run)...)
						t = append(t, rept(a, per+5)...)
						c.compose(cd, t, ref, "wide character at the part boundary")
					}
				}
				if !r.Quick || ref == 255 || ref == 256 {
					t := append(rept(a, 2*per+off), b)
					t = append(t, rept(a, 9)...)
					c.compose(cd, t, ref, "wide character at the second boundary")
				}
			}
		}
		// ---- characters by their UTF-8 form (U+FFFD, 4-, 3-, 2-octet sequences) at every offset -3..+3 around
		//      EVERY part boundary: nothing may be cut inside a multi-octet sequence, whatever the splitter walks
		nbound := r.N(2, 4)
		if cd.name == "ucs2" {
			nbound = r.N(3, 6)
		}
		for si, x := range cd.specials {
			if r.Quick && cd.name != "ucs2" && si > 0 && x != 0xFFFD {
				break
			}
			for _, ref := range []uint16{255, 256} {
				per := per8
				if ref > 255 {
					per = per16
				}
				for k := 1; k <= nbound; k++ {
					for off := -3; off <= 3; off++ {
						if r.Quick && x != 0xFFFD && (off < -1 || off > 1 || k > 2) {
							continue // quick tier: every offset and boundary for U+FFFD, the cut itself for the others
						}
						t := append(rept(a, k*per+off), x)
						t = append(t, rept(a, per/2+3)...)
						c.compose(cd, t, ref, "UTF-8 multi-octet character at offset -3..+3 of every part boundary")
					}
				}
			}
			// two of them next to each other and one at the very end of the text
			t := append(rept(a, per8-1), x, x)
			t = append(t, rept(a, per8-2)...)
			t = append(t, x)
			c.compose(cd, t, 255, "UTF-8 multi-octet character at offset -3..+3 of every part boundary")
			// Split itself, small limits: the character at every position
			for pos := 0; pos <= r.N(16, 40); pos++ {
				for _, limit := range []int{6, 7} {
					t := append(rept(a, pos), x)
					t = append(t, rept(a, 9)...)
					c.split(cd, t, limit)
				}
			}
		}
		// ---- all-wide, alternating, random mixtures
		nm := r.N(8, 60)
		for i := 0; i < nm; i++ {
			ln := 100 + r.Rng.Intn(500)
			if cd.deep && r.Quick {
				ln = 100 + r.Rng.Intn(200)
			}
			t := make([]rune, ln)
			mode := r.Rng.Intn(4)
			for j := range t {
				switch mode {
				case 0:
					t[j] = pick(wide)
				case 1: // alternation (worst case for ISO-2022-JP)
					if j%2 == 0 {
						t[j] = pick(narrow)
					} else {
						t[j] = pick(wide)
					}
				default:
					t[j] = pick(cd.pools[ks[r.Rng.Intn(len(ks))]])
				}
			}
			if cd.gsm && r.Rng.Intn(2) == 0 { // CR at the ends of 8k-septet segments
				for j := 7; j < ln; j += 8 {
					t[j] = '\r'
				}
			}
			ref := uint16(r.Rng.Intn(65536))
			if r.Rng.Intn(3) == 0 {
				ref = refs[r.Rng.Intn(len(refs))]
			}
			c.compose(cd, t, ref, "random mixture")
			if i%2 == 0 {
				c.composeAlias(cd, t, ref, "random mixture")
			}
			c.split(cd, t[:20+r.Rng.Intn(60)], 4+r.Rng.Intn(12))
		}
		// one character outside the repertoire
		if cd.name != "ucs2" {
			t := append(rept(a, 200), 0x1F600)
			c.compose(cd, t, 3, "foreign character")
			c.compose(cd, []rune{a, 0x1F600}, 3, "foreign character")
		}
		// ---- exactly 254 parts, one character more, and far beyond
		long := !r.Quick || cd.name == "gsm7" || cd.name == "latin1" || cd.name == "ucs2"
		for k, ref := range []uint16{256, 255} {
			if !long {
				break
			}
			per := per8
			if ref > 255 {
				per = per16
			}
			if r.Quick && k == 1 {
				c.compose(cd, rept(a, per*254+1), ref, "255 parts: must be refused")
				continue
			}
			c.compose(cd, rept(a, per*254), ref, "254 parts exactly")
			c.compose(cd, rept(a, per*254+1), ref, "255 parts: must be refused")
			if !r.Quick {
				c.compose(cd, rept(a, per*253+1), ref, "254 parts, last one short")
				c.compose(cd, rept(a, per*300), ref, "300 parts: must be refused")
			}
		}
	}
	// ---- data_coding values WITHOUT an encoder or splitter (reserved values, 8-bit data, 0xC0-0xCF): nothing is claimed
	//      about the result, but the call must come back (an error), not panic
	for _, b := range []int{2, 4, 9, 0x0F, 0xBF, 0xC0, 0xC8, 0xCF, 0x80} {
		dc := coding.DataCoding(b)
		if dc.Encoding() != nil && dc.Splitter() != nil {
			continue
		}
		for _, t := range []string{"", "a", strings.Repeat("a", 200)} {
			in := fmt.Sprintf("compose data_coding=%d (no encoder) ref=1 text=%s", b, describeText([]rune(t)))
			var parts []pdu.ShortMessage
			var err error
			panicked, msg := guard(func() { parts, err = pdu.ComposeMultipartShortMessage(t, dc, 1) })
			r.Count(in, true, "data_coding without an encoder")
			if panicked {
				r.Fail("compose/panic", "ComposeMultipartShortMessage panicked for a data coding without an encoder", in, msg, "an error")
			} else if err == nil && len(parts) > 0 && t != "" {
				r.Fail("compose/no-encoder-but-parts", "parts were returned for a data coding that has no encoder", in, fmt.Sprintf("%d parts", len(parts)), "an error")
			}
		}
	}
	r.Notes = append(r.Notes, fmt.Sprintf("model cases: %d", len(r.caseExprs)))
}
