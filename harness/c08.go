package main

import (
	"bytes"
	"errors"
	"fmt"
	"strings"
	"sync/atomic"
	"unicode"
	"unicode/utf8"

	"github.com/M2MGateway/go-smpp/coding"
	"github.com/M2MGateway/go-smpp/coding/gsm7bit"
	"golang.org/x/text/transform"
	"golang.org/x/text/unicode/norm"
)

func init() { corrTable["C08"] = corrC08 }

// ---------------------------------------------------------------- GSM 03.38 section 6.2.1, typed from the standard
// (independent of coding/gsm7bit/table.go and of coq/Spec/Gsm0338.v; slot 0x1B is the escape)
var stdDefault = [128]rune{
	'@', 0xA3, '$', 0xA5, 0xE8, 0xE9, 0xF9, 0xEC, 0xF2, 0xC7, '\n', 0xD8, 0xF8, '\r', 0xC5, 0xE5,
	0x394, '_', 0x3A6, 0x393, 0x39B, 0x3A9, 0x3A0, 0x3A8, 0x3A3, 0x398, 0x39E, -1, 0xC6, 0xE6, 0xDF, 0xC9,
	' ', '!', '"', '#', 0xA4, '%', '&', '\'', '(', ')', '*', '+', ',', '-', '.', '/',
	'0', '1', '2', '3', '4', '5', '6', '7', '8', '9', ':', ';', '<', '=', '>', '?',
	0xA1, 'A', 'B', 'C', 'D', 'E', 'F', 'G', 'H', 'I', 'J', 'K', 'L', 'M', 'N', 'O',
	'P', 'Q', 'R', 'S', 'T', 'U', 'V', 'W', 'X', 'Y', 'Z', 0xC4, 0xD6, 0xD1, 0xDC, 0xA7,
	0xBF, 'a', 'b', 'c', 'd', 'e', 'f', 'g', 'h', 'i', 'j', 'k', 'l', 'm', 'n', 'o',
	'p', 'q', 'r', 's', 't', 'u', 'v', 'w', 'x', 'y', 'z', 0xE4, 0xF6, 0xF1, 0xFC, 0xE0,
}
var stdExtension = map[byte]rune{0x0A: '\f', 0x14: '^', 0x28: '{', 0x29: '}', 0x2F: '\\', 0x3C: '[', 0x3D: '~', 0x3E: ']', 0x40: '|', 0x65: 0x20AC}

var stdSeptets = func() map[rune][]byte {
	m := map[rune][]byte{}
	for c, r := range stdDefault {
		if r >= 0 {
			m[r] = []byte{byte(c)}
		}
	}
	for c, r := range stdExtension {
		m[r] = []byte{0x1B, c}
	}
	return m
}()

// the repertoire in a fixed order (for random texts)
var stdRepertoire = func() []rune {
	var out []rune
	for _, r := range stdDefault {
		if r >= 0 {
			out = append(out, r)
		}
	}
	for c := 0; c < 128; c++ {
		if r, ok := stdExtension[byte(c)]; ok {
			out = append(out, r)
		}
	}
	return out
}()

// D16 (known finding): the library has U+00E7 at septet 0x09 where GSM 03.38 has U+00C7
const d16Class = "alphabet/septet-0x09-is-U+00E7-not-U+00C7"

func isD16(r rune) bool { return r == 0xC7 || r == 0xE7 }

// what the property requires of the encoder for text rs (nil, false = must be refused)
func stdTextSeptets(rs []rune) ([]byte, bool) {
	var out []byte
	for _, r := range rs {
		s, ok := stdSeptets[r]
		if !ok {
			return nil, false
		}
		out = append(out, s...)
	}
	return out, true
}

// ---------------------------------------------------------------- running the implementation
type g7Enc struct {
	cls int // 0 octets, 1 error, 2 panic
	out []byte
	msg string
}

func g7Encode(s string) g7Enc {
	var out []byte
	var err error
	if hung, p, msg := g7Watch("enc/Bytes", func() { out, err = gsm7bit.Packed.NewEncoder().Bytes([]byte(s)) }); hung {
		return g7Enc{5, nil, msg}
	} else if p {
		return g7Enc{2, nil, msg}
	} else if err != nil {
		return g7Enc{1, nil, err.Error()}
	}
	return g7Enc{0, out, ""}
}

// g7Transform calls Transform directly with a zeroed destination of the given capacity.
// class: 0 ok, 1 error, 2 panic, 3 transform.ErrShortDst
func g7Transform(t transform.Transformer, src []byte, capacity int) (cls int, out []byte, msg string) {
	dst := make([]byte, capacity)
	var nDst int
	var err error
	if p, m := guard(func() { t.Reset(); nDst, _, err = t.Transform(dst, src, true) }); p {
		return 2, nil, m
	}
	if errors.Is(err, transform.ErrShortDst) {
		return 3, nil, ""
	}
	if err != nil {
		return 1, nil, err.Error()
	}
	if nDst < 0 || nDst > len(dst) {
		return 2, nil, fmt.Sprintf("nDst=%d outside dst of %d", nDst, len(dst))
	}
	return 0, dst[:nDst], ""
}

func runesOf(s string) []rune { return []rune(s) }

func eqRunes(a, b []rune) bool {
	if len(a) != len(b) {
		return false
	}
	for i := range a {
		if a[i] != b[i] {
			return false
		}
	}
	return true
}

// a and b equal, or one is the other plus one trailing CR
func eqModCR(a, b []rune) bool {
	if eqRunes(a, b) {
		return true
	}
	if len(a) == len(b)+1 && a[len(a)-1] == '\r' && eqRunes(a[:len(b)], b) {
		return true
	}
	if len(b) == len(a)+1 && b[len(b)-1] == '\r' && eqRunes(b[:len(a)], a) {
		return true
	}
	return false
}

func shortText(rs []rune) string {
	s := fmt.Sprintf("%q", string(rs))
	if len(s) > 120 {
		s = s[:120] + "..."
	}
	return fmt.Sprintf("text %s runes=%v", s, coqRunes(rs))
}

// ---------------------------------------------------------------- C08
type c08 struct {
	r     *Run
	seen  map[string]bool
	nAmb  int
	nCase  int
	nEntry int
	d16    bool // the library showed exactly the known D16 behaviour at U+00C7 / U+00E7 / septet 9 (section 1)
	mute   bool // no model cases from the Transformer / entry point checks of the next input (direct tests only)
	xl    int  // for the next text: 0 no direct Transform calls, 2 a selection of destination sizes, 3 every size
	ent   bool // for the next text: also String / Writer / Reader / a long-lived object
}

// textX is text with the Transformer contract (xl) and the other entry points (ent) switched on.
func (c *c08) textX(rs []rune, bucket string, level, xl int, ent bool) {
	c.xl, c.ent = xl, ent
	c.text(rs, bucket, level)
	c.xl, c.ent = 0, false
}

// text runs one text through encoder, decoder and detector: direct property
// tests on the implementation, then the model cases.
func (c *c08) text(rs []rune, bucket string, level int) {
	emit := level > 0
	r := c.r
	s := string(rs)
	key := "t/" + s
	if c.seen[key] {
		return
	}
	c.seen[key] = true
	in := shortText(rs)
	want, accepted := stdTextSeptets(rs)
	hasD16 := false
	for _, x := range rs {
		if isD16(x) {
			hasD16 = true
		}
	}
	if hasD16 && c.d16 {
		// D16 is a known finding judged at the single character; inside longer texts the packing, round trip and
		// detector clauses are judged with the library's choice at that one slot (U+00E7 <-> 0x09, U+00C7 refused)
		want, accepted = nil, true
		for _, x := range rs {
			switch sp, ok := stdSeptets[x]; {
			case x == 0xE7:
				want = append(want, 9)
			case x == 0xC7 || !ok:
				accepted = false
			default:
				want = append(want, sp...)
			}
		}
		if !accepted {
			want = nil
		}
		hasD16 = false
	}
	n := len(want)
	endsCR := len(rs) > 0 && rs[len(rs)-1] == '\r'
	amb := accepted && n > 0 && n%8 == 0 && endsCR
	r.Count(key, len(rs) > 0 && accepted, bucket)
	if amb {
		c.nAmb++
		r.Hist["ambiguous (n%8==0, ends in CR)"]++
	}
	if accepted && n > 0 {
		r.Hist[fmt.Sprintf("n mod 8 = %d", n%8)]++
	}

	e := g7Encode(s)
	valid := coding.GSM7BitCoding.Validate(s)
	var dcls int
	var drs []rune

	if e.cls == 2 {
		r.Fail("encode/panic", "Encoder.Bytes panicked", in, e.msg, "a value or an error")
	}
	if e.cls == 5 {
		r.Fail("encode/never-returns", "Encoder.Bytes did not return", in, e.msg, "a value or an error")
		return
	}
	if hasD16 {
		// the text touches D16: judged by the dedicated single-character test only
	} else if accepted && e.cls == 1 {
		r.Fail("alphabet/refused-gsm-text", "encoder refuses a text made of GSM 03.38 characters", in, "error: "+e.msg, "accepted")
	} else if !accepted && e.cls == 0 {
		r.Fail("alphabet/accepted-foreign-text", "encoder accepts a text with a character outside GSM 03.38 (substitution)", in,
			fmt.Sprintf("octets %x", e.out), "error")
	}
	if !hasD16 && (e.cls == 0) != valid && e.cls != 2 {
		r.Fail("detector/disagrees-with-encoder", "GSM7BitCoding.Validate and the encoder disagree", in,
			fmt.Sprintf("Validate=%v encoder class=%d", valid, e.cls), "Validate true exactly when the encoder accepts")
	}
	if !hasD16 && e.cls != 2 {
		// the detector as callers use it: BestCoding / BestSafeCoding pick GSM 7-bit exactly when the encoder accepts
		best, safe := coding.BestCoding(s) == coding.GSM7BitCoding, coding.BestSafeCoding(s) == coding.GSM7BitCoding
		if best != (e.cls == 0) || safe != (e.cls == 0) {
			r.Fail("detector/BestCoding-disagrees-with-encoder", "BestCoding / BestSafeCoding classify the text as GSM 7-bit but the encoder refuses it, or the reverse", in,
				fmt.Sprintf("BestCoding is GSM7=%v BestSafeCoding is GSM7=%v encoder class=%d", best, safe, e.cls), "GSM 7-bit exactly when the encoder accepts")
		}
	}
	if e.cls == 0 && accepted && !hasD16 {
		// exact packing
		filled := want
		if n%8 == 7 {
			filled = append(append([]byte{}, want...), 0x0D)
		}
		ref := refPack(filled)
		ok := bytes.Equal(e.out, ref)
		if !ok && amb {
			ok = bytes.Equal(e.out, append(append([]byte{}, ref...), 0x0D)) // optional second CR
		}
		if !ok {
			cl := "packing/layout"
			if len(e.out) != len(ref) {
				cl = "packing/length"
			} else if n%8 == 7 {
				cl = "packing/filler"
			}
			r.Fail(cl, "octets are not ceil(7n/8) octets with septet i at bit 7i, CR filler iff seven spare bits", in,
				fmt.Sprintf("n=%d octets %x", n, e.out), fmt.Sprintf("%x", ref))
		}
		// round trip
		var d []rune
		dcls, d = g7Decode(e.out)
		drs = d
		switch {
		case dcls == 5:
			r.Fail("decode/never-returns", "Decoder.Bytes did not return on the encoder's output", in, fmt.Sprintf("octets %x", e.out), "a value or an error")
			return
		case dcls == 2:
			r.Fail("decode/panic", "Decoder.Bytes panicked on the encoder's output", in, fmt.Sprintf("octets %x", e.out), "a value or an error")
		case dcls == 1:
			r.Fail("roundtrip/decode-error", "decoder refuses the encoder's output", in, fmt.Sprintf("octets %x", e.out), "the text")
		case eqRunes(d, rs):
		case amb && eqModCR(d, rs):
		default:
			cl := "roundtrip/text-changed"
			if eqModCR(d, rs) {
				cl = "roundtrip/trailing-CR-outside-ambiguous-case"
			}
			r.Fail(cl, "decode(encode(t)) differs from t outside the n%8==0-and-ends-in-CR case", in,
				fmt.Sprintf("n=%d octets %x decoded %q", n, e.out, string(d)), fmt.Sprintf("%q", s))
		}
	} else if e.cls == 0 {
		dcls, drs = g7Decode(e.out)
	}
	// the Transformer contract and the other entry points of the same objects
	if c.xl > 0 && !hasD16 {
		c.xfEnc(s, e, in, c.xl)
		if e.cls == 0 && dcls == 0 && len(e.out) > 0 {
			c.xfDec(e.out, dcls, []byte(string(drs)), in+fmt.Sprintf(" octets %x", g7clip(e.out)), c.xl)
		}
	}
	if c.ent && !hasD16 {
		c.entries("enc", []byte(s), g7Entry{e.cls, e.out, e.msg}, in, true, func(name string, got g7Entry) {
			long := len(s) >= 4000 || len(e.out) >= 4000
			switch {
			case got.cls == 5:
				r.Fail("entry/encode/"+name+"-never-returns", "an entry point of the Encoder did not return", in, got.msg, "what Bytes returns")
			case got.cls == 2:
				r.Fail("entry/encode/"+name+"-panics", "an entry point of the Encoder panicked", in, got.msg, "what Bytes returns")
			case e.cls == 1 && got.cls == 0 && len(s) > 0:
				r.Fail("entry/encode/"+name+"-accepts-what-Bytes-refuses", "a value where Bytes returns an error", in, fmt.Sprintf("%x", got.out), "error")
			case e.cls == 0 && got.cls == 1 && !long:
				r.Fail("entry/encode/"+name+"-fails-where-Bytes-succeeds", "an error where Bytes returns octets", in, got.msg, fmt.Sprintf("%x", e.out))
			case e.cls == 0 && got.cls == 0 && !bytes.Equal(got.out, e.out):
				r.Fail("entry/encode/"+name+"-differs-from-Bytes", "other octets than Bytes for the same text", in, fmt.Sprintf("%x", got.out), fmt.Sprintf("%x", e.out))
			}
		})
		if e.cls == 0 && dcls == 0 && len(e.out) > 0 {
			text := []byte(string(drs))
			c.entries("dec", e.out, g7Entry{dcls, text, ""}, in+fmt.Sprintf(" octets %x", g7clip(e.out)), true, c.judgeDecEntry(in+fmt.Sprintf(" octets %x", g7clip(e.out)), e.out, dcls, text))
		}
	}
	if !emit {
		return
	}
	c.nCase++
	r.Case("text "+in, fmt.Sprintf("text_case %s %d %s %d %s %s", coqRunes(rs), e.cls, coqHex(e.out), dcls, coqRunes(drs), coqBool(valid)))
	if len(r.Samples) < 6 && len(rs) > 2 && accepted {
		r.Sample(map[string]interface{}{"text": s, "septets": n, "octets": fmt.Sprintf("%x", e.out), "decoded": string(drs), "ambiguous": amb})
	}
	if c.mute {
		return
	}
	// destination capacities, including the exact fit that exposed D14
	if e.cls != 0 || (amb && len(e.out) != (7*n+7)/8) {
		return
	}
	need := len(e.out)
	if level == 1 && c.xl == 0 {
		if c.nCase%2 == 1 && r.Quick {
			return // quick tier: every second text of the big sweeps
		}
		// the exact fit into a destination the caller left full of 0xFF (D14 and the OR-ing packer in one call)
		d0 := mkDst(need, 0xFF, r.Rng)
		dst := append([]byte{}, d0...)
		call := g7Xf("enc/Transform", gsm7bit.Packed.NewEncoder().Transformer, false, dst, []byte(s), true)
		r.Count(fmt.Sprintf("xf/%s/%d/%d", s, need, 0xFF), len(rs) > 0, "encoder Transform, destination = need (exact fit), 0xFF")
		c.judgeCall("encode", call, in+fmt.Sprintf(" len(dst)=%d dst pre-filled with 0xFF", need), len(s), need, need, true, e.out, true)
		if call.cls != 5 && (call.cls != 3 || (call.nDst == 0 && call.nSrc == 0)) {
			out := []byte{}
			if call.cls == 0 && call.nDst >= 0 && call.nDst <= len(dst) {
				out = dst[:call.nDst]
			}
			r.Case(fmt.Sprintf("enc Transform cap=%d fill=255 %s", need, in),
				fmt.Sprintf("enc_call_ok %s %s true %d %d%%nat %d%%nat %s", coqDst(need, 0xFF, d0), coqHex([]byte(s)), call.cls, nat(call.nDst), nat(call.nSrc), coqHex(out)))
		}
		return
	}
	caps := []int{need, need - 1}
	if level > 1 && !(r.Quick && c.xl > 0) {
		caps = append(caps, need+1+r.Rng.Intn(8))
	}
	seenCap := map[int]bool{}
	for _, cp := range caps {
		if cp < 0 || seenCap[cp] {
			continue
		}
		seenCap[cp] = true
		cls, out, msg := g7Transform(gsm7bit.Packed.NewEncoder().Transformer, []byte(s), cp)
		r.Count(fmt.Sprintf("cap/%s/%d", s, cp), len(rs) > 0, "encoder capacity "+capBucket(cp, need))
		switch {
		case cls == 2:
			r.Fail(fmt.Sprintf("encode/panic-at-dst-capacity-need%+d", cp-need), "encoder Transform panicked", in+fmt.Sprintf(" len(dst)=%d", cp), msg, "octets or ErrShortDst")
		case cls == 0 && !bytes.Equal(out, e.out):
			r.Fail("encode/depends-on-dst-capacity", "encoder output depends on the room offered", in+fmt.Sprintf(" len(dst)=%d", cp),
				fmt.Sprintf("%x", out), fmt.Sprintf("%x", e.out))
		case cls == 0 && cp < need:
			r.Fail("encode/octets-into-short-dst", "octets returned into a destination smaller than the output", in+fmt.Sprintf(" len(dst)=%d need=%d", cp, need), fmt.Sprintf("%x", out), "ErrShortDst")
		}
		r.Case(fmt.Sprintf("enc_transform cap=%d %s", cp, in),
			fmt.Sprintf("cap_obs_ok beq_bytes (enc_transform %d%%nat %s) %d %s", cp, coqRunes(rs), cls, coqHex(out)))
	}
	if amb || len(rs) == 0 || level < 2 {
		return
	}
	// decoder capacities on the canonical octets
	needD := len(s)
	for i, cp := range []int{needD, needD - 1, needD + 3} {
		if cp < 0 || (r.Quick && c.xl > 0 && i != c.nCase%3) {
			continue // the direct Transform calls of xfDec cover the sizes; one older-style case per text keeps dec_transform tied
		}
		cls, out, msg := g7Transform(gsm7bit.Packed.NewDecoder().Transformer, e.out, cp)
		r.Count(fmt.Sprintf("dcap/%s/%d", s, cp), true, "decoder capacity "+capBucket(cp, needD))
		if cls == 2 {
			r.Fail("decode/panic-at-dst-capacity", "decoder Transform panicked", in+fmt.Sprintf(" len(dst)=%d", cp), msg, "text or ErrShortDst")
		}
		if cls == 0 && !utf8.Valid(out) {
			r.Fail("decode/cuts-inside-character", "decoder output is not valid UTF-8", in, fmt.Sprintf("%x", out), "valid UTF-8")
		}
		r.Case(fmt.Sprintf("dec_transform cap=%d %s", cp, in),
			fmt.Sprintf("dcap_obs_ok %d%%nat %s %d %s", cp, coqHex(e.out), cls, coqRunes(runesOf(string(out)))))
	}
}

func g7clip(b []byte) []byte {
	if len(b) > 48 {
		return b[:48]
	}
	return b
}

func (c *c08) judgeDecEntry(in string, src []byte, dcls int, text []byte) func(name string, got g7Entry) {
	r := c.r
	return func(name string, got g7Entry) {
		long := len(src) >= 4000 || len(text) >= 4000
		switch {
		case got.cls == 5:
			r.Fail("entry/decode/"+name+"-never-returns", "an entry point of the Decoder did not return", in, got.msg, "what Bytes returns")
		case got.cls == 2:
			r.Fail("entry/decode/"+name+"-panics", "an entry point of the Decoder panicked", in, got.msg, "what Bytes returns")
		case dcls == 1 && got.cls == 0 && len(src) > 0:
			r.Fail("entry/decode/"+name+"-accepts-what-Bytes-refuses", "a value where Bytes returns an error", in, fmt.Sprintf("%q", got.out), "error")
		case dcls == 0 && got.cls == 1 && !long:
			r.Fail("entry/decode/"+name+"-fails-where-Bytes-succeeds", "an error where Bytes returns a text", in, got.msg, fmt.Sprintf("%q", text))
		case dcls == 0 && got.cls == 0 && !bytes.Equal(got.out, text):
			r.Fail("entry/decode/"+name+"-differs-from-Bytes", "another text than Bytes for the same octets", in, fmt.Sprintf("%q", got.out), fmt.Sprintf("%q", text))
		}
	}
}

func capBucket(cp, need int) string {
	switch {
	case cp < need:
		return "< need"
	case cp == need:
		return "= need (exact fit)"
	}
	return "> need"
}

// octets runs arbitrary octets through the decoder.
func (c *c08) octets(src []byte, bucket string, emit bool) {
	r := c.r
	key := "o/" + string(src)
	if c.seen[key] {
		return
	}
	c.seen[key] = true
	cls, rs := g7Decode(src)
	r.Count(key, len(src) > 0, bucket)
	in := fmt.Sprintf("octets %x", src)
	if cls == 2 {
		r.Fail("decode/panic", "Decoder.Bytes panicked on arbitrary octets", in, "panic", "a value or an error")
	}
	if cls == 5 {
		r.Fail("decode/never-returns", "Decoder.Bytes did not return on arbitrary octets", in, "no return", "a value or an error")
		return
	}
	if cls == 0 && !utf8.ValidString(string(rs)) {
		r.Fail("decode/cuts-inside-character", "decoder output is not valid UTF-8", in, string(rs), "valid UTF-8")
	}
	if cls == 0 {
		// what was decoded must be re-encodable: the decoder only produces repertoire characters
		for _, x := range rs {
			if _, ok := stdSeptets[x]; !ok && !isD16(x) {
				r.Fail("decode/foreign-character", "decoder produced a character outside GSM 03.38", in, fmt.Sprintf("U+%04X", x), "repertoire only")
				break
			}
		}
	}
	if emit {
		r.Case("decode "+in, fmt.Sprintf("dec_obs_ok %s %d %s", coqHex(src), cls, coqRunes(rs)))
		// capacity: one below what the text needs
		if cls == 0 && len(rs) > 0 {
			cp := len(string(rs)) - 1 + r.Rng.Intn(3)
			tcls, out, msg := g7Transform(gsm7bit.Packed.NewDecoder().Transformer, src, cp)
			if tcls == 2 {
				r.Fail("decode/panic-at-dst-capacity", "decoder Transform panicked", in+fmt.Sprintf(" len(dst)=%d", cp), msg, "text or ErrShortDst")
			}
			_ = out
		}
		if c.xl > 0 {
			c.xfDec(src, cls, []byte(string(rs)), in, c.xl)
		}
		if c.ent {
			text := []byte(string(rs))
			c.entries("dec", src, g7Entry{cls, text, ""}, in, true, c.judgeDecEntry(in, src, cls, text))
		}
	}
}

func (c *c08) octetsX(src []byte, bucket string, xl int, ent bool) {
	c.xl, c.ent = xl, ent
	c.octets(src, bucket, true)
	c.xl, c.ent = 0, false
}

// raw runs source octets that need not be UTF-8 through the encoder: Go's range yields U+FFFD for every
// octet that does not start a well-formed sequence, U+FFFD is not a GSM 03.38 character, so the answer
// must be an error from every entry point, and the detector must say no.
func (c *c08) raw(src []byte, bucket string) {
	r := c.r
	key := "raw/" + string(src)
	if c.seen[key] {
		return
	}
	c.seen[key] = true
	s := string(src)
	in := fmt.Sprintf("source octets %x", src)
	e := g7Encode(s)
	valid := coding.GSM7BitCoding.Validate(s)
	r.Count(key, true, bucket)
	wantErr := !utf8.Valid(src)
	if !wantErr {
		if _, ok := stdTextSeptets([]rune(s)); !ok {
			wantErr = true
		}
	}
	switch {
	case e.cls == 2:
		r.Fail("encode/panic", "Encoder.Bytes panicked", in, e.msg, "a value or an error")
	case e.cls == 5:
		r.Fail("encode/never-returns", "Encoder.Bytes did not return", in, e.msg, "a value or an error")
		return
	case wantErr && e.cls != 1:
		r.Fail("encode/invalid-utf8", "source octets that are not UTF-8 text of GSM 03.38 characters must be refused with an error", in, fmt.Sprintf("class=%d octets %x", e.cls, e.out), "error")
	}
	if valid != (e.cls == 0) {
		r.Fail("detector/disagrees-with-encoder", "GSM7BitCoding.Validate and the encoder disagree", in,
			fmt.Sprintf("Validate=%v encoder class=%d", valid, e.cls), "Validate true exactly when the encoder accepts")
	}
	r.Case("raw "+in, fmt.Sprintf("enc_entry_ok %s %d %s && Bool.eqb (validate (utf8_dec %s)) %s", coqHex(src), e.cls, coqHex(e.out), coqHex(src), coqBool(valid)))
	c.xfEnc(s, e, in, 2)
	c.entries("enc", src, g7Entry{e.cls, e.out, e.msg}, in, true, func(name string, got g7Entry) {
		switch {
		case got.cls == 5:
			r.Fail("entry/encode/"+name+"-never-returns", "an entry point of the Encoder did not return", in, got.msg, "what Bytes returns")
		case got.cls == 2:
			r.Fail("entry/encode/"+name+"-panics", "an entry point of the Encoder panicked", in, got.msg, "what Bytes returns")
		case got.cls != e.cls || !bytes.Equal(got.out, e.out):
			r.Fail("entry/encode/"+name+"-differs-from-Bytes", "another answer than Bytes for the same source octets", in, fmt.Sprintf("class=%d %x", got.cls, got.out), fmt.Sprintf("class=%d %x", e.cls, e.out))
		}
	})
}

func corrC08(r *Run) {
	r.Import("Model.Base")
	r.Import("Model.Gsm7")
	r.Rule = "alphabet: all 1,112,064 scalar values one at a time and all 128+128 septets / ESC+septets (exhaustive); " +
		"texts: all strings of length <= 3 over a 12-symbol alphabet (exhaustive), every n mod 8 x every pair of final symbols x prefix lengths " +
		"(exhaustive), random texts over the 137 characters and with foreign characters; every repertoire character + combining mark U+0300..U+036F, the composing pairs inside words, every character NFKC / mark stripping / case mapping would rewrite into the repertoire (context-dependent substitution); encoder and decoder Transform at destination " +
		"capacities need-1, need (exact fit), need+1, len(src); arbitrary octets for the decoder. " +
		"non-trivial = distinct non-empty accepted texts / distinct non-empty octet strings / distinct (text, capacity) pairs"
	c := &c08{r: r, seen: map[string]bool{}}

	// ---- 1. alphabet, exhaustive over the scalar values (direct test; the theorem is about Gen/Gsm7Tables.v)
	nAcc, nD16 := 0, 0
	for x := rune(0); x <= 0x10FFFF; x++ {
		if x >= 0xD800 && x <= 0xDFFF {
			continue
		}
		b := g7Rune(x)
		want, ok := stdSeptets[x]
		r.Evaluations++
		if b.cls == 0 {
			nAcc++
		}
		in := fmt.Sprintf("rune U+%04X", x)
		switch {
		case isD16(x):
			// D16: exactly "U+00C7 refused, U+00E7 sent as septet 0x09" is the known finding; anything else is new
			d16 := (x == 0xC7 && b.cls == 1 && !b.validate) || (x == 0xE7 && b.cls == 0 && bytes.Equal(b.septets, []byte{9}) && b.validate)
			conforming := (x == 0xC7 && b.cls == 0 && bytes.Equal(b.septets, []byte{9}) && b.validate) || (x == 0xE7 && b.cls == 1 && !b.validate)
			if d16 {
				nD16++
				r.Fail(d16Class, "septet 0x09 is U+00E7 (c with cedilla, small) where GSM 03.38 has U+00C7 (capital)", in,
					fmt.Sprintf("class=%d septets=%x validate=%v", b.cls, b.septets, b.validate), "U+00C7 <-> 0x09, U+00E7 refused")
			} else if !conforming {
				r.Fail(fmt.Sprintf("alphabet/U+%04X", x), "unexpected behaviour at the c-cedilla slot", in,
					fmt.Sprintf("class=%d septets=%x validate=%v", b.cls, b.septets, b.validate), "U+00C7 <-> 0x09")
			}
		case b.cls == 2:
			r.Fail("encode/panic", "Encoder.Bytes panicked on a single character", in, "panic", "a value or an error")
		case ok && b.cls != 0:
			r.Fail(fmt.Sprintf("alphabet/refused-U+%04X", x), "GSM 03.38 character refused", in, "error", fmt.Sprintf("septets %x", want))
		case !ok && b.cls == 0:
			r.Fail(fmt.Sprintf("alphabet/accepted-U+%04X", x), "character outside GSM 03.38 accepted (substituted)", in,
				fmt.Sprintf("septets %x octets %x", b.septets, b.octets), "error")
		case ok && !bytes.Equal(b.septets, want):
			r.Fail(fmt.Sprintf("alphabet/wrong-septets-U+%04X", x), "character mapped to the wrong septets", in,
				fmt.Sprintf("septets %x", b.septets), fmt.Sprintf("septets %x", want))
		}
		if !isD16(x) && b.cls != 2 && b.validate != (b.cls == 0) {
			r.Fail(fmt.Sprintf("detector/U+%04X", x), "GSM7BitCoding.Validate and the encoder disagree on a single character", in,
				fmt.Sprintf("Validate=%v encoder class=%d", b.validate, b.cls), "equal")
		}
	}
	c.d16 = nD16 == 2
	r.Hist["single scalar values swept"] = 1112064
	r.Hist["single scalar values accepted"] = nAcc
	for i := 0; i < 137; i++ {
		r.distinct[fmt.Sprintf("rune/%d", i)] = struct{}{}
	}
	// every septet / ESC+septet through the decoder
	for s := 0; s < 128; s++ {
		cls, rs := g7Decode(refPack([]byte{byte(s)}))
		r.Count(fmt.Sprintf("septet/%d", s), true, "single septet decoded")
		in := fmt.Sprintf("septet 0x%02X", s)
		want := stdDefault[s]
		switch {
		case cls == 2:
			r.Fail("decode/panic", "Decoder.Bytes panicked", in, "panic", "a value or an error")
		case s == 9:
			if cls == 0 && eqRunes(rs, []rune{0xE7}) {
				r.Fail(d16Class, "septet 0x09 decodes to U+00E7 where GSM 03.38 has U+00C7", in, "U+00E7", "U+00C7")
			} else if !(cls == 0 && eqRunes(rs, []rune{0xC7})) {
				r.Fail("decode/septet-0x09", "unexpected decoding of septet 0x09", in, fmt.Sprintf("class=%d %v", cls, rs), "U+00C7")
			}
		case s == 0x1B:
			if cls == 0 && len(rs) > 0 && rs[0] != ' ' {
				r.Fail("decode/lone-escape", "a lone escape septet decodes to a character", in, fmt.Sprintf("%v", rs), "error (or space)")
			}
		case cls != 0 || !eqRunes(rs, []rune{want}):
			r.Fail(fmt.Sprintf("decode/septet-0x%02X", s), "septet decodes to the wrong character", in, fmt.Sprintf("class=%d %v", cls, rs), fmt.Sprintf("U+%04X", want))
		}
		cls, rs = g7Decode(refPack([]byte{0x1B, byte(s)}))
		r.Count(fmt.Sprintf("esc/%d", s), true, "ESC+septet decoded")
		in = fmt.Sprintf("septets 0x1B 0x%02X", s)
		if want, ok := stdExtension[byte(s)]; ok {
			if cls != 0 || !eqRunes(rs, []rune{want}) {
				r.Fail(fmt.Sprintf("decode/escape-0x%02X", s), "ESC+septet decodes to the wrong character", in, fmt.Sprintf("class=%d %v", cls, rs), fmt.Sprintf("U+%04X", want))
			}
		} else if cls == 2 {
			r.Fail("decode/panic", "Decoder.Bytes panicked", in, "panic", "a value or an error")
		}
	}

	// ---- 2. corpus: the minimised witnesses of D13, D14, D15 and the repository's own vectors
	corpus := []string{"", "\x00", " ", "a ", "[[abcdefghijk\r", "ab\r", "ab\rc", "a\r", "abcdefg\r", "abcdefg", "abcdef\r", "abcde\r\r",
		"abc€", "1234567", "12345678", "12345[6]", "^{}\\[~]|€", "\r", "\r\r", "\r\r\r\r\r\r\r\r", "[[[[", "[[[\r\r",
		"of the printing and typesetting", "1234567\r", "@", "@@@@@@@@", "abcdefg@", "àààààààà", "Ç", "ç"}
	for _, s := range corpus {
		c.textX([]rune(s), "corpus", 2, 3, true)
	}

	// ---- 3. all strings of length <= 3 over a 12-symbol alphabet
	alpha := []rune{'a', '@', '\r', '\n', 0x20AC, '[', ']', 0x39E /* septet 0x1A */, 0xC6 /* septet 0x1C */, 0xE0 /* septet 0x7F */, 0xA0 /* refused */, '\f'}
	var rec func(prefix []rune, depth int)
	rec = func(prefix []rune, depth int) {
		c.text(append([]rune{}, prefix...), fmt.Sprintf("exhaustive length %d over 12 symbols", len(prefix)), 1)
		if depth == 0 {
			return
		}
		for _, a := range alpha {
			rec(append(prefix, a), depth-1)
		}
	}
	rec(nil, 3)

	// ---- 4. residues: prefix of p ordinary characters, then every pair of final symbols
	maxPrefix := r.N(16, 40)
	filler := []rune("0123456789abcdefghijklmnopqrstuvwxyzABCD")
	finals := []rune{'a', '@', '\r', '\n', 0x20AC, '[', 0x39E, 0xE0, '\f', '~'}
	for p := 0; p <= maxPrefix; p++ {
		for _, x := range finals {
			for _, y := range finals {
				t := append(append([]rune{}, filler[:p]...), x, y)
				// the direct tests run on every one; every text also becomes a model case
				lvl := 1
				if (x == '\r' || y == '\r' || x == 0x20AC || y == '[') && p%3 == 0 {
					lvl = 2
				}
				c.textX(t, "residue sweep", lvl, 2*b2i(lvl == 2 && (p+int(x)+int(y))%4 == 0), lvl == 2 && (p+int(x))%5 == 0)
			}
		}
	}

	// ---- 4b. the ambiguous class on purpose: 8k septets ending in CR (and 8k-1, 8k+1 next to it), every penultimate symbol
	for k := 1; k <= r.N(4, 20); k++ {
		for _, y := range finals {
			for d := -1; d <= 1; d++ {
				w := 1
				if _, ok := stdExtension[stdSeptets[y][len(stdSeptets[y])-1]]; ok && len(stdSeptets[y]) == 2 {
					w = 2
				}
				p := 8*k + d - w - 1
				if p < 0 {
					continue
				}
				t := make([]rune, 0, p+2)
				for i := 0; i < p; i++ {
					t = append(t, filler[i%len(filler)])
				}
				t = append(t, y, '\r')
				c.textX(t, "8k-1 / 8k / 8k+1 septets ending in CR", 2, 2*b2i((k+d)%2 == 0), k <= 2 || (k+d)%3 == 0)
			}
		}
	}

	// ---- 4c. multi-character sequences a normaliser / case folder / transliterator would rewrite INTO the
	//      repertoire.  Every one contains a character outside GSM 03.38, so the encoder must refuse it and the
	//      detector must say no - also when each character on its own behaves (the per-scalar sweep cannot see
	//      context-dependent substitution).
	inRep := func(s string) bool {
		if s == "" {
			return false
		}
		for _, x := range s {
			if _, ok := stdSeptets[x]; !ok {
				return false
			}
		}
		return true
	}
	stripMarks := func(s string) string {
		var b strings.Builder
		for _, x := range norm.NFD.String(s) {
			if !unicode.Is(unicode.Mn, x) {
				b.WriteRune(x)
			}
		}
		return b.String()
	}
	// (a) repertoire character + combining mark, all 137 x 112 pairs (direct tests); the pairs that compose
	//     (NFC/NFKC) to a repertoire character also as model cases and inside words at every residue
	var composing [][]rune
	for _, base := range stdRepertoire {
		for mark := rune(0x300); mark <= 0x36F; mark++ {
			pair := []rune{base, mark}
			lvl := 0
			if nf := norm.NFC.String(string(pair)); nf != string(pair) && inRep(nf) {
				lvl = 1
				composing = append(composing, pair)
			} else if mark%16 == rune(r.Seed%16) && base < 0x80 {
				lvl = 1
			}
			c.text(pair, "repertoire character + combining mark", lvl)
		}
	}
	r.Hist["composing pairs (NFC lands in the repertoire)"] = len(composing)
	words := []string{"man", "ana", "caf", "", "Zo", "na", "ve", "12345", "abcdefg", "[x]"}
	for i, pair := range composing {
		for p := 0; p <= r.N(8, 16); p++ {
			if r.Quick && (p+i)%3 != 0 {
				continue
			}
			t := append([]rune(filler[:p]), pair...)
			t = append(t, []rune(words[(i+p)%len(words)])...)
			c.text(t, "composing pair inside a word", 1)
		}
		// two pairs, a pair after CR, a pair as the very last character of 8k septets
		t := append(append([]rune("a"), pair...), composing[(i*7+3)%len(composing)]...)
		c.text(t, "composing pair inside a word", 1)
		c.text(append([]rune("abcdef\r"), pair...), "composing pair inside a word", 1)
	}
	// (b) single characters outside the repertoire that NFKC, mark stripping or case mapping would turn into
	//     repertoire text (full-width forms, ligatures, NBSP and the other spaces, Kelvin / Angstrom / Ohm signs,
	//     accented Latin letters, lower-case Greek, ...), each inside a word and next to a composing pair
	nRew := 0
	for x := rune(0x80); x < 0x30000; x++ {
		if x >= 0xD800 && x <= 0xDFFF {
			continue
		}
		if _, ok := stdSeptets[x]; ok || isD16(x) {
			continue
		}
		sx := string(x)
		var to string
		for _, cand := range []string{norm.NFKC.String(sx), norm.NFC.String(sx), stripMarks(sx), string(unicode.ToUpper(x)), string(unicode.ToLower(x)), stripMarks(string(unicode.ToUpper(x)))} {
			if cand != sx && inRep(cand) {
				to = cand
				break
			}
		}
		if to == "" {
			continue
		}
		nRew++
		lvl := 0
		if !r.Quick || nRew%16 == int(r.Seed%16) || x == 0xA0 || x == 0x212A || x == 0x212B || x == 0x2126 || x == 0xFB01 || x == 0xFF21 || x == 0x3B1 {
			lvl = 1
		}
		c.text([]rune("ab"+sx+"cd"), "character a normaliser / case mapping / transliteration would rewrite, inside a word", lvl)
		if lvl > 0 || nRew%4 == 0 {
			pair := composing[nRew%len(composing)]
			c.text(append(append([]rune{}, pair...), x), "rewritable character next to a composing pair", lvl)
			c.text([]rune{x, pair[1]}, "rewritable character + combining mark", lvl)
		}
	}
	r.Hist["rewritable single characters found"] = nRew
	// (c) a few hand-picked sequences
	for _, s2 := range []string{"e\u0301", "a\u0300", "u\u0308", "n\u0303", "A\u030A", "C\u0327", "man\u0303ana", "cafe\u0301", "Zoe\u0308",
		"e\u0301e\u0301e\u0301e\u0301", "\u212Be\u0301", "\u2126 e\u0301", "a\u00A0b", "a\u202Fb", "a\u2009b", "\uFF21\uFF22\uFF23", "\uFB01n", "stra\u00DFe\u0301",
		"o\u0308\u0301", "e\u0301\u0301", "\u0301e", "e\u200D\u0301", "i\u0307", "\u0130", "\u0131", "\u017F", "\u03C9\u0301", "\u1E9E", "e\u0341", "\u0041\u0308\u0041\u030A"} {
		c.text([]rune(s2), "hand-picked rewritable sequences", 2)
	}

	// ---- 4d. packed output LONGER than the UTF-8 source (more than one extension character in seven, no two-octet
	//      character): transform.Bytes starts with len(src) octets of room and has to come back with more
	for ne := 1; ne <= r.N(12, 40); ne++ {
		for _, na := range []int{0, 1, 5} {
			if na > ne*6 {
				continue
			}
			t := make([]rune, 0, ne+na)
			for i := 0; i < ne; i++ {
				t = append(t, []rune("[]{}|~^\\\f")[(i+ne)%9])
				if i < na {
					t = append(t, filler[i])
				}
			}
			c.textX(t, "output longer than the source (grow path of transform.Bytes)", 2, 2*b2i(ne%3 == 0), ne%4 == 0)
			c.text(append(t, '\r'), "output longer than the source (grow path of transform.Bytes)", 1)
		}
	}

	// ---- 4e. the other extreme: only two-octet characters, the UTF-8 text is more than twice as long as the packed
	//      form (a decoder that sizes its output from the number of packed octets runs out of room)
	var twoOctet []rune
	for _, x := range stdRepertoire {
		if x >= 0x80 && x < 0x800 && !isD16(x) {
			twoOctet = append(twoOctet, x)
		}
	}
	for n := 1; n <= r.N(26, 70); n++ {
		t := make([]rune, n)
		for i := range t {
			t[i] = twoOctet[(i*7+n)%len(twoOctet)]
		}
		c.textX(t, "only two-octet characters (UTF-8 longer than twice the packed form)", 2, 2*b2i(n%3 != 1), n%5 == 0)
	}

	// ---- 5. random texts over the 137 characters (CR / ESC / '@' heavy at the end), some with a foreign character
	nr := r.N(400, 6000)
	th := r.N(1, 4) // the thorough tier has 15 times the inputs: a smaller share of them gets the full set of direct Transform calls
	for i := 0; i < nr; i++ {
		ln := r.Rng.Intn(48)
		if i%25 == 7 {
			// long texts: more than 255 / 256 / 65535 octets of packed output (index and length arithmetic of the packer)
			ln = r.Rng.Pick([]int{290, 293, 300, 512, 585, 1000, 2400})
		} else if r.Rng.Intn(10) == 0 {
			ln = 120 + r.Rng.Intn(60)
		}
		t := make([]rune, ln)
		for j := range t {
			switch r.Rng.Intn(12) {
			case 0:
				t[j] = '\r'
			case 1:
				t[j] = stdRepertoire[127+r.Rng.Intn(10)] // extension table
			case 2:
				t[j] = '@'
			default:
				t[j] = stdRepertoire[r.Rng.Intn(len(stdRepertoire))]
			}
			if t[j] == 0xC7 { // D16 has its own test; inside texts slot 9 is exercised with the library's choice
				t[j] = 'C'
				if c.d16 {
					t[j] = 0xE7
				}
			}
		}
		bucket := "random over the repertoire"
		if r.Rng.Intn(8) == 0 && ln > 0 {
			foreign := []rune{0, 0xA0, 0x7F, 0x60, 0x100, 0x20AD, 0xFFFD, 0x1F600, 0x1B}
			t[r.Rng.Intn(ln)] = foreign[r.Rng.Intn(len(foreign))]
			bucket = "random with one foreign character"
		}
		c.mute = ln > 300
		c.textX(t, bucket, 2, 2*b2i(i%(4*th) == 1 || ln > 200), i%(3*th) == 0 || ln > 200)
		c.mute = false
	}
	// very long texts, direct tests only (index and length arithmetic beyond 255 / 4096 / 65535 octets of output,
	// beyond the 4096-octet buffers of transform.Reader / Writer)
	for _, ln := range []int{4700, 9400, 75000} {
		t := make([]rune, ln)
		for j := range t {
			t[j] = stdRepertoire[(j*31+r.Rng.Intn(7))%len(stdRepertoire)]
			if t[j] == 0xC7 {
				t[j] = 'C'
			}
		}
		c.mute = true
		c.textX(t, "very long texts (direct tests only)", 0, 2, true)
		c.mute = false
	}
	// ---- 5b. source octets that are not (or only just) UTF-8: every ill-formed shape of the Unicode standard's
	//      table 3-7 (lone continuation, truncated 2/3/4-octet sequence, overlong, surrogate, beyond U+10FFFF,
	//      0xC0/0xC1/0xF5..0xFF), alone, after 0..8 ordinary characters, and before one; and well-formed
	//      neighbours of each (they decode to a foreign character or, for the euro sign, to a GSM character)
	shapes := []string{"\x80", "\xbf", "\xc0\x80", "\xc1\xbf", "\xc2", "\xc2\x41", "\xdf", "\xe0\x80\x80", "\xe0\x9f\xbf", "\xe0\xa0", "\xe2\x82", "\xe2",
		"\xe2\x82\x41", "\xed\xa0\x80", "\xed\xbf\xbf", "\xef\xbf", "\xf0\x80\x80\x80", "\xf0\x8f\xbf\xbf", "\xf0\x90\x80", "\xf0\x9f\x98", "\xf4\x90\x80\x80",
		"\xf5\x80\x80\x80", "\xf8\x88\x80\x80\x80", "\xfe", "\xff", "\xe2\x82\xac", "\xe2\x82\xad", "\xc2\xa3", "\xc2\xa0", "\xce\x94", "\xef\xbf\xbd", "\xf0\x9f\x98\x80"}
	for i, sh := range shapes {
		c.raw([]byte(sh), "source octets: ill-formed UTF-8 shapes and well-formed neighbours")
		for p := 1; p <= 8; p++ {
			if r.Quick && (p+i)%4 != 0 {
				continue
			}
			c.raw([]byte(string(filler[:p])+sh), "source octets: ill-formed UTF-8 shapes and well-formed neighbours")
		}
		c.raw([]byte(sh+"a"), "source octets: ill-formed UTF-8 shapes and well-formed neighbours")
	}
	for i := 0; i < r.N(40, 600); i++ {
		ln := 1 + r.Rng.Intn(12)
		b := r.Rng.Bytes(ln)
		for j := range b {
			if r.Rng.Intn(3) > 0 {
				b[j] = byte(0x20 + r.Rng.Intn(0x5F))
			}
		}
		c.raw(b, "source octets: random, mostly ASCII")
	}

	// ---- 5c. state across calls on one object
	c.histories()

	// ---- 6. arbitrary octets for the decoder
	for b := 0; b < 256; b++ {
		c.octetsX([]byte{byte(b)}, "every single octet", 2*b2i(b%16 == int(r.Seed%16) || b == 0x1B || b == 0x0D || b == 0x80), b%32 == int(r.Seed%32))
	}
	for _, s := range [][]byte{{0x1B}, {0x1B, 0x80}, {0x1B, 0x0D}, {0x9B, 0x06}, {0x0D}, {0x1A, 0x0D}, {}, {0x31, 0xD9, 0x8C, 0x56, 0xB3, 0xDD, 0x1A}, {0x0D, 0x00, 0x00, 0x00, 0x00, 0x00, 0x1A}} {
		c.octetsX(s, "corpus octets", 3, true)
	}
	no := r.N(500, 8000)
	for i := 0; i < no; i++ {
		ln := 1 + r.Rng.Intn(24)
		var src []byte
		switch r.Rng.Intn(3) {
		case 0:
			src = r.Rng.Bytes(ln)
		case 1: // packed random septets, escape heavy
			ss := make([]byte, ln)
			for j := range ss {
				ss[j] = byte(r.Rng.Intn(128))
				if r.Rng.Intn(5) == 0 {
					ss[j] = 0x1B
				}
				if r.Rng.Intn(7) == 0 {
					ss[j] = 0x0D
				}
			}
			src = refPack(ss)
		default: // a valid encoding with one flipped bit
			t := make([]rune, ln)
			for j := range t {
				t[j] = stdRepertoire[r.Rng.Intn(len(stdRepertoire))]
			}
			e := g7Encode(string(t))
			if e.cls != 0 || len(e.out) == 0 {
				continue
			}
			src = append([]byte{}, e.out...)
			src[r.Rng.Intn(len(src))] ^= 1 << uint(r.Rng.Intn(8))
		}
		c.octetsX(src, "random octets", 2*b2i(i%(5*th) == 0), i%(6*th) == 0)
	}
	if n := atomic.LoadInt32(&g7HungCount); n > 0 {
		r.Notes = append(r.Notes, fmt.Sprintf("%d entry point(s) did not return within %v and were not called again", n, g7Patience))
	}
	r.Notes = append(r.Notes, fmt.Sprintf("texts in the ambiguous class (n%%8==0, ends in CR): %d; model cases: %d", c.nAmb, len(r.caseExprs)))
}
