package main

import (
	"bytes"
	"encoding/binary"
	"fmt"
	"reflect"
	"strings"

	"github.com/M2MGateway/go-smpp/coding"
	"github.com/M2MGateway/go-smpp/pdu"
)

func init() { corrTable["C13"] = corrC13 }

// canonStable: canonical text of a PDU ignoring what ReadPDU fills in (length, id)
// and what the encoder treats as absent (TLVs with an empty value).
func canonStable(p interface{}) string {
	v := reflect.ValueOf(p).Elem()
	items := make([]string, v.NumField())
	for i := range items {
		switch x := v.Field(i).Interface().(type) {
		case pdu.Header:
			items[i] = fmt.Sprintf("H status=%d seq=%d", uint32(x.CommandStatus), x.Sequence)
		case pdu.Tags:
			t := pdu.Tags{}
			for k, val := range x {
				if len(val) > 0 {
					t[k] = val
				}
			}
			items[i] = "VTags " + coqKVs16(t)
		default:
			items[i] = coqField(v.Field(i))
		}
	}
	return strings.Join(items, "; ")
}

func usesNoCoding(p interface{}) bool {
	v := reflect.ValueOf(p).Elem()
	if observePrepare(v.Type()).isReplace {
		return false
	}
	for i := 0; i < v.NumField(); i++ {
		if m, ok := v.Field(i).Interface().(pdu.ShortMessage); ok && m.DataCoding == coding.NoCoding {
			return true
		}
	}
	return false
}

func cstr(s []byte) []byte { return append(append([]byte(nil), s...), 0) }

func rawTLVs(r *Rng) []byte {
	var b []byte
	n := r.Pick([]int{0, 1, 2, 3, 5, 9})
	tags := []uint16{0x0005, 0x0204, 0x0424, 0x1400, 0x0005, 0x0001, 0xFFFF, 0x0000, 0x7FFF, 0x8000, 0x00FF, 0x0100, uint16(r.U64()), genTag(r), genTag(r), 0x020C, 0x020E, 0x020F}
	put := func(tag uint16, v []byte) {
		b = append(b, byte(tag>>8), byte(tag), byte(len(v)>>8), byte(len(v)))
		b = append(b, v...)
	}
	if r.Intn(5) == 0 {
		// TLVs that belong together, all present, with the lengths the standard gives them or an empty value in one of them:
		// segmentation (sar_msg_ref_num 2, sar_total_segments 1, sar_segment_seqnum 1), ports (2, 2), payload type + payload
		switch r.Intn(3) {
		case 0:
			put(0x020C, biasedBytes(r, 2))
			put(0x020E, biasedBytes(r, r.Pick([]int{1, 1, 0})))
			put(0x020F, biasedBytes(r, r.Pick([]int{1, 1, 0})))
		case 1:
			put(0x020A, biasedBytes(r, r.Pick([]int{2, 2, 0, 1})))
			put(0x020B, biasedBytes(r, r.Pick([]int{2, 2, 0, 1})))
		default:
			put(0x0019, biasedBytes(r, r.Pick([]int{1, 0})))
			put(0x0424, biasedBytes(r, r.Pick([]int{0, 1, 20})))
		}
	}
	for i := 0; i < n; i++ {
		tag := tags[r.Intn(len(tags))] // duplicates and unsorted order on purpose; standard tags, the segmentation triple together
		l := r.Pick([]int{0, 0, 1, 2, 7, 30})
		var h [4]byte
		binary.BigEndian.PutUint16(h[:], tag)
		binary.BigEndian.PutUint16(h[2:], uint16(l))
		b = append(b, h[:]...)
		b = append(b, biasedBytes(r, l)...)
	}
	return b
}

// biasedBytes: value octets as other implementations send them — leading zero octets (small integers in
// wide fields), all zeros, all ones, counting sequences — besides uniform noise.
func biasedBytes(r *Rng, l int) []byte {
	b := r.Bytes(l)
	switch r.Intn(6) {
	case 0:
		for i := range b {
			b[i] = 0
		}
	case 1:
		for i := 0; i < len(b) && i <= r.Intn(3); i++ {
			b[i] = 0
		}
	case 2:
		for i := range b {
			b[i] = 0xFF
		}
	case 3:
		for i := range b {
			b[i] = byte(i + 1)
		}
	}
	return b
}

// handBody lays out the mandatory parameters of submit_sm / deliver_sm / submit_multi by
// hand, with the non-canonical choices the decoder accepts.
func handBody(r *Rng, multi bool) []byte {
	var b []byte
	b = append(b, cstr(nonZeroBytes(r, r.Intn(5)))...) // service_type
	addr := func() []byte {
		if r.Intn(2) == 0 {
			a := loadedAddr(r)
			return append([]byte{a.TON, a.NPI}, cstr([]byte(a.No))...)
		}
		return append([]byte{r.Byte(), r.Byte()}, cstr(nonZeroBytes(r, r.Intn(12)))...)
	}
	b = append(b, addr()...)
	if multi {
		n := r.Pick([]int{0, 1, 2, 3, 6})
		b = append(b, byte(n))
		for i := 0; i < n; i++ {
			if r.Bool() { // distribution lists and SME addresses in any order
				b = append(b, 2)
				b = append(b, cstr(nonZeroBytes(r, r.Intn(8)))...)
			} else {
				b = append(b, 1)
				b = append(b, addr()...)
			}
		}
	} else {
		b = append(b, addr()...)
	}
	udhi := r.Intn(3) != 0
	esm := r.Byte() &^ 0x40
	if udhi {
		esm |= 0x40
	}
	b = append(b, esm, r.Byte(), r.Byte())
	b = append(b, cstr(nonZeroBytes(r, r.Pick([]int{0, 16})))...)
	b = append(b, cstr(nonZeroBytes(r, r.Pick([]int{0, 16})))...)
	b = append(b, r.Byte())                                       // registered_delivery: any octet
	b = append(b, byte(r.Pick([]int{0, 1, 2, 3, 0x80, 0xFF, 1}))) // replace_if_present: booleans other than 0/1
	dc := r.Byte()
	if dc == 0xBF {
		dc = 0
	}
	b = append(b, dc, r.Byte())
	// short message region
	var udh []byte
	if udhi {
		var ies []byte
		n := r.Pick([]int{0, 1, 1, 2, 3, 4})
		ids := []byte{0, 8, 0, 1, 5, 0x24, r.Byte()} // duplicate ids on purpose
		for i := 0; i < n; i++ {
			l := r.Pick([]int{0, 1, 3, 4, 6})
			ies = append(ies, ids[r.Intn(len(ids))], byte(l))
			ies = append(ies, r.Bytes(l)...)
		}
		if r.Intn(8) == 0 {
			// the last element overruns UDHL by up to 255 octets: the decoded header is far longer than sm_length
			ies = append(ies, byte(r.Intn(256)), byte(r.Pick([]int{200, 254, 255})))
			ies = append(ies, r.Bytes(255)...)
			ies = ies[:len(ies)-r.Intn(2)*r.Intn(40)]
		}
		udhl := len(ies)
		if udhl > 255 {
			udhl = r.Pick([]int{1, 3, 250, 255})
		}
		switch r.Intn(6) {
		case 0: // UDHL lies: covers fewer octets than the elements occupy
			if udhl > 0 {
				udhl -= 1 + r.Intn(udhl)
			}
		case 1:
			udhl += r.Intn(3)
		}
		udh = append([]byte{byte(udhl)}, ies...)
		if r.Intn(10) == 0 {
			// a decoded header of about 500 octets behind a tiny sm_length: two elements of 250 and 255 octets, the second
			// starting just inside UDHL (the reader only checks where an element starts)
			a, b := byte(r.Intn(100)), byte(100+r.Intn(100))
			udh = append([]byte{byte(r.Pick([]int{253, 254, 255})), a, 250}, r.Bytes(250)...)
			udh = append(udh, b, 255)
			udh = append(udh, r.Bytes(255)...)
		}
	}
	msg := r.Bytes(r.Pick([]int{0, 1, 5, 20, 100, 100, 141, 200, 250})) // > 140: ReadPDU accepts what Marshal refuses
	smlen := len(udh) + len(msg)
	if len(udh) > 300 {
		smlen = r.Intn(30)
	}
	switch r.Intn(8) {
	case 0: // sm_length smaller than the UDH
		if len(udh) > 0 {
			smlen = r.Intn(len(udh))
		}
	case 1:
		smlen += r.Intn(4)
	}
	b = append(b, byte(smlen))
	b = append(b, udh...)
	b = append(b, msg...)
	b = append(b, rawTLVs(r)...)
	return b
}

// stdIEFrames: minimal submit_sm / deliver_sm / submit_multi frames (UDHI set) carrying one or two standard
// information elements whose fields take the values 0, 1, 0xFF in every position.
func stdIEFrames() [][]byte {
	vals := []byte{0, 1, 0xFF}
	var ies [][]byte
	var rec func(id byte, n int, cur []byte)
	rec = func(id byte, n int, cur []byte) {
		if len(cur) == n {
			ies = append(ies, append([]byte{id, byte(n)}, cur...))
			return
		}
		for _, v := range vals {
			rec(id, n, append(append([]byte(nil), cur...), v))
		}
	}
	rec(0x00, 3, nil)
	rec(0x08, 4, nil)
	rec(0x04, 2, nil)
	rec(0x24, 1, nil)
	rec(0x25, 1, nil)
	for _, hi := range vals { // 16-bit ports: high octets only
		for _, hi2 := range vals {
			ies = append(ies, []byte{0x05, 4, hi, 0x37, hi2, 0x38})
		}
	}
	var out [][]byte
	for k, ie := range ies {
		id := []uint32{4, 5, 0x21}[k%3]
		sb := (&specBuf{}).cstr("").addr(1, 1, "7")
		if id == 0x21 {
			sb.i1(1).i1(1).addr(1, 1, "8")
		} else {
			sb.addr(1, 1, "8")
		}
		udh := append([]byte(nil), ie...)
		if k%5 == 4 {
			udh = append(udh, 0x24, 1, 0) // a second element behind it
		}
		msg := []byte("hi")
		sb.i1(0x40).i1(0).i1(0).cstr("").cstr("").i1(0).i1(0).i1(4).i1(0).i1(byte(1 + len(udh) + len(msg))).i1(byte(len(udh))).raw(udh).raw(msg)
		out = append(out, specFrame(id, uint32(1+k), sb.b))
	}
	return out
}

func corrC13(r *Run) {
	r.Import("Model.PduRun")
	r.Import("Model.PduHazards")
	r.PerShard(60)
	r.Rule = "frames accepted by ReadPDU: valid frames of every type with raw TLV sections appended (unsorted, duplicate, empty values), trailing octets, random octet mutations " +
		"(boolean octets other than 0/1, flag octets), hand-laid submit_sm / deliver_sm / submit_multi bodies (distribution lists before SME addresses, duplicate UDH elements, " +
		"UDHL and sm_length lies); each decoded value re-encoded, decoded and encoded again; plus values with maps of 2..50 entries rebuilt in 8 insertion orders; " +
		"a deterministic corpus of loaded field contents (number forms x TON 0..7 x NPI 0..15/18, dates, service types, credentials) in every string / address position of every type, laid out by a reference encoder; " +
		"histories: one value marshalled before and after a failing Marshal of every refusal kind at every field position and every writer failure; " +
		"non-trivial = distinct accepted frame whose decoded value Marshal accepts"
	ts := pduTypes()
	n := r.N(8000, 150000)
	caseBudget := r.N(400, 6000)
	vol := &pduVolume{}
	defer vol.diff(r)
	reencode := func(frame []byte, bucket string, wantCase bool) {
		r.SetReplay(replayReencode(frame))
		o := readOnce(&chunkReader{data: frame, sched: []int{len(frame)}})
		if o.Kind != "ok" {
			r.Count(fmt.Sprintf("%x", frame), false, bucket+"/rejected")
			return
		}
		in := fmt.Sprintf("reencode %x", frame)
		if len(in) > 3000 {
			in = "reencode " + shortHex(frame)
		}
		if usesNoCoding(o.PDU) {
			r.Count(fmt.Sprintf("%x", frame), false, bucket+"/reserved-data_coding")
			return
		}
		decodedTerm := coqValue(o.PDU)
		id := uint32(reflect.ValueOf(o.PDU).Elem().Field(0).Interface().(pdu.Header).CommandID)
		_, err, w, panicked, pmsg := marshalRec(o.PDU)
		if panicked {
			r.Fail(pcls("reencode/marshal-panic", pmsg), "Marshal panicked on a decoded PDU", in, pmsg, "a value or an error")
			return
		}
		if err == nil && len(w.calls) == 1 {
			vol.remarshal(frame, "ok "+hexOrDash(w.calls[0]))
		} else {
			vol.remarshal(frame, "err")
		}
		// model: the decoder on this (possibly non-canonical) frame
		if wantCase && caseBudget > 0 && len(frame) < 3000 {
			caseBudget--
			want := "(Err EOther)"
			if err == nil && len(w.calls) == 1 {
				want = "(Ok " + coqHex(w.calls[0]) + ")"
			}
			r.Case("unmarshal+marshal "+shortHex(frame),
				fmt.Sprintf("beq_ofvals (unmarshal %s %s) (Ok %s) && beq_obytes (marshal %s %s) %s",
					layoutRef(id), coqHex(frame), decodedTerm, layoutRef(id), decodedTerm, want))
		}
		if err != nil || len(w.calls) != 1 {
			r.Count(fmt.Sprintf("%x", frame), false, bucket+"/marshal-refuses")
			return // the property is conditional on Marshal accepting the decoded value
		}
		b1 := w.calls[0]
		r.Count(fmt.Sprintf("%x", frame), true, bucket+"/re-encoded")
		if len(r.Samples) < 4 {
			r.Sample(map[string]interface{}{"class": bucket, "frame": shortHex(frame), "re_encoded": shortHex(b1)})
		}
		o2 := readOnce(&chunkReader{data: b1, sched: []int{len(b1)}})
		if o2.Kind != "ok" {
			r.Fail("reencode/second-decode-"+o2.Kind, "ReadPDU does not accept Marshal's encoding of a PDU it decoded", in,
				fmt.Sprintf("re-encoded=%s -> %s err=%v", shortHex(b1), o2.Kind, o2.Err), "decodes to an equal value")
			return
		}
		if canonStable(o2.PDU) != canonStable(o.PDU) || reflect.TypeOf(o2.PDU) != reflect.TypeOf(o.PDU) {
			r.Fail("reencode/value-changed", "decoding the re-encoded frame gives a different value", in,
				canonStable(o2.PDU), canonStable(o.PDU))
			return
		}
		_, err2, w2, panicked2, _ := marshalRec(o2.PDU)
		if panicked2 || err2 != nil || len(w2.calls) != 1 || !bytes.Equal(w2.calls[0], b1) {
			got := "error"
			if err2 == nil && !panicked2 && len(w2.calls) == 1 {
				got = shortHex(w2.calls[0])
			}
			r.Fail("reencode/bytes-changed", "encoding the re-decoded value gives different octets", in, got, shortHex(b1))
		}
		}
	// deterministic corpus: every standard information element, well formed, with its fields on 0 / 1 / 0xFF,
	// hand-laid into submit_sm, deliver_sm and submit_multi (an encoder that rewrites elements it "understands"
	// is only reached by these)
	for k, f := range stdIEFrames() {
		reencode(f, "std-ie", k%6 == 0)
	}
	// deterministic corpus of semantically loaded contents (E.164 number forms over the TON x NPI grid, dates, service
	// types, credentials) in every C-octet-string / address / destination / unsuccess-record position of every type,
	// laid out by the harness's reference encoder (not by the library's encoders)
	for k, it := range corpusPDUs(ts, 1, 0) {
		if f, ok := refEncode(it.p, it.t.ID); ok {
			reencode(f, "loaded-content", k%250 == int(r.Seed%250))
		}
	}
	for i := 0; i < n; i++ {
		var frame []byte
		bucket := ""
		switch i % 5 {
		case 0: // valid frame, TLV section replaced by a raw one
			t := ts[r.Rng.Intn(len(ts))]
			p := genPDU(r.Rng, t, modeDomain)
			v := reflect.ValueOf(p).Elem()
			hasTags := false
			for j := 0; j < v.NumField(); j++ {
				if _, ok := v.Field(j).Interface().(pdu.Tags); ok {
					v.Field(j).Set(reflect.Zero(v.Field(j).Type()))
					hasTags = true
				}
			}
			_, err, w, panicked, _ := marshalRec(p)
			if err != nil || panicked || len(w.calls) != 1 {
				continue
			}
			frame = append([]byte(nil), w.calls[0]...)
			if hasTags {
				frame = append(frame, rawTLVs(r.Rng)...)
				bucket = "raw-tlvs"
			} else {
				frame = append(frame, r.Rng.Bytes(r.Rng.Intn(6))...)
				bucket = "trailing-octets"
			}
		case 1, 2: // random mutations of a valid frame
			f, _, _ := genFrame(r.Rng, ts)
			frame = append([]byte(nil), f...)
			for k := 0; k < 1+r.Rng.Intn(3) && len(frame) > 16; k++ {
				pos := 16 + r.Rng.Intn(len(frame)-16)
				frame[pos] = byte(r.Rng.Pick([]int{0, 1, 2, 3, 0x40, 0x7F, 0x80, 0xFF, int(r.Rng.Byte())}))
			}
			bucket = "mutated"
		default: // hand-laid bodies
			id := uint32(r.Rng.Pick([]int{4, 5}))
			multi := r.Rng.Intn(3) == 0
			if multi {
				id = 0x21
			}
			frame = rawFrame(id, 0, int32(1+r.Rng.Intn(1<<20)), handBody(r.Rng, multi))
			bucket = "hand-laid"
		}
		if i%7 == 3 && len(frame) > 16 {
			// a non-zero command_status in front of a body: only the header counts
			binary.BigEndian.PutUint32(frame[8:], uint32(r.Rng.Pick([]int{1, 2, 0x45, 0xFF, 0x400})))
			bucket += "+status"
		}
		binary.BigEndian.PutUint32(frame, uint32(len(frame)))
		if len(frame) > 65536 {
			continue
		}
		reencode(frame, bucket, true)
	}
	// determinism across histories: the same unchanged value marshalled before and after a Marshal call that FAILS —
	// every refusal kind at every field position of every type, and destinations that give up after k octets
	for ti, t := range ts {
		base := poisonBase(r.Rng, t)
		for k, x := range allPoisons(t, base) {
			b1, b2, ok := sandwich(r, "determinism", t, base, x)
			r.Count(fmt.Sprintf("sandwich/%s/%s", t.Name, x), ok, "history/"+x.kind)
			if ok && (k+ti)%9 == int(r.Seed%9) {
				historyCase(r, t, base, x, b1, b2)
			}
		}
	}
	// determinism: same value, maps rebuilt in different insertion orders, marshalled repeatedly
	nd := r.N(150, 3000)
	for i := 0; i < nd; i++ {
		t := ts[r.Rng.Intn(len(ts))]
		p := genPDU(r.Rng, t, modeDomain)
		v := reflect.ValueOf(p).Elem()
		nmap := 0
		var tagKeys []uint16
		var udhKeys []byte
		tagVals := map[uint16][]byte{}
		udhVals := map[byte][]byte{}
		ti, mi := -1, -1
		for j := 0; j < v.NumField(); j++ {
			switch x := v.Field(j).Interface().(type) {
			case pdu.Tags:
				ti = j
				cnt := 2 + r.Rng.Intn(49)
				for len(tagKeys) < cnt {
					k := uint16(r.Rng.U64())
					if _, dup := tagVals[k]; !dup {
						tagKeys = append(tagKeys, k)
						tagVals[k] = r.Rng.Bytes(1 + r.Rng.Intn(6))
					}
				}
				nmap++
			case pdu.ShortMessage:
				if x.UDHeader != nil {
					mi = j
					cnt := 2 + r.Rng.Intn(12)
					for len(udhKeys) < cnt {
						k := r.Rng.Byte()
						if _, dup := udhVals[k]; !dup {
							udhKeys = append(udhKeys, k)
							udhVals[k] = r.Rng.Bytes(r.Rng.Intn(4))
						}
					}
					nmap++
				}
			}
		}
		if nmap == 0 {
			continue
		}
		var first []byte
		ok := true
		for rep := 0; rep < 8 && ok; rep++ {
			q := clonePDU(p)
			qv := reflect.ValueOf(q).Elem()
			if ti >= 0 {
				tg := pdu.Tags{}
				for _, k := range permKeys16(r.Rng, tagKeys) {
					tg[k] = tagVals[k]
				}
				qv.Field(ti).Set(reflect.ValueOf(tg))
			}
			if mi >= 0 {
				m := qv.Field(mi).Interface().(pdu.ShortMessage)
				u := pdu.UserDataHeader{}
				for _, k := range permKeys8(r.Rng, udhKeys) {
					u[k] = udhVals[k]
				}
				m.UDHeader = u
				if len(m.Message)+u.Len() > 140 {
					m.Message = m.Message[:0]
				}
				qv.Field(mi).Set(reflect.ValueOf(m))
			}
			r.SetReplay(replayValue(q))
			_, err, w, panicked, _ := marshalRec(q)
			if err != nil || panicked || len(w.calls) != 1 {
				ok = false
				break
			}
			if rep == 0 {
				first = w.calls[0]
				if i%3 == 0 && caseBudget > -200 {
					caseBudget--
					term := coqValue(q)
					r.Case(fmt.Sprintf("marshal (maps of %d/%d entries) %s", len(tagKeys), len(udhKeys), t.Name),
						fmt.Sprintf("beq_obytes (marshal %s %s) (Ok %s)", layoutRef(t.ID), term, coqHex(first)))
				}
			} else if !bytes.Equal(first, w.calls[0]) {
				r.Fail("determinism/"+t.Name, "the same value encoded to different octets (map iteration order)",
					fmt.Sprintf("marshal %s %s", t.Name, coqValue(q)), shortHex(w.calls[0]), shortHex(first))
				break
			}
		}
		r.Count(fmt.Sprintf("det/%d", i), ok, "determinism/"+t.Name)
	}
}

func permKeys16(r *Rng, ks []uint16) []uint16 {
	out := append([]uint16(nil), ks...)
	for i := len(out) - 1; i > 0; i-- {
		j := r.Intn(i + 1)
		out[i], out[j] = out[j], out[i]
	}
	return out
}
func permKeys8(r *Rng, ks []byte) []byte {
	out := append([]byte(nil), ks...)
	for i := len(out) - 1; i > 0; i-- {
		j := r.Intn(i + 1)
		out[i], out[j] = out[j], out[i]
	}
	return out
}
