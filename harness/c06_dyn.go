package main

// C06, dynamic side: the README roles under `go build -race`.
//
// Every CONFIGURATION runs in its own child process (sub-command `raceload
// <config>` of .work/harness_race) with its own time limit and its own race
// log, several children at a time: a configuration that gets stuck is killed,
// noted and cannot slow down or poison the others.  A race report with a frame
// of go-smpp in one of the two racing stacks is the failing input: the class
// names the library function making the access, the observation is the report
// with both stacks, the input is the configuration (replayable: `harness_race
// raceload <config> <tier> <seed> <dir>`).
//
// The configurations cover the README roles (one Watch, one EnquireLink, any
// number of Submit and Send goroutines, one consumer of PDU() answering with
// Send, a final Close), with
//   - WriteTimeout/ReadTimeout left at the default (15 min), 5 s, and tiny
//     (20 ms / 2 ms) so that whatever the library does "once per deadline"
//     happens many times during a run, senders running for a fixed TIME
//     (hundreds of ms) rather than a fixed count;
//   - a peer that leaves enquire_link unanswered, so that the keep-alive's
//     failure path (its own Close) runs while the application performs its
//     final Close from a timer, without having synchronised with the library;
//   - Close while senders are still running; the peer dropping the transport;
//   - default and custom NextSequence; net.Pipe and (where the sandbox allows)
//     loop-back TCP.

import (
	"bytes"
	"context"
	"encoding/json"
	"fmt"
	"net"
	"os"
	"os/exec"
	"path/filepath"
	"regexp"
	"sort"
	"strconv"
	"strings"
	"sync"
	"sync/atomic"
	"time"

	smpp "github.com/M2MGateway/go-smpp"
	"github.com/M2MGateway/go-smpp/pdu"
)

type wlCfg struct {
	K          int           // goroutines calling Submit in a loop
	S          int           // goroutines calling Send in a loop
	WriteTO    time.Duration // <0: leave the library default
	ReadTO     time.Duration
	CustomSeq  bool
	Run        time.Duration // how long the senders keep running
	MaxIter    int           // per sender (0 = time only)
	Tick       time.Duration // keep-alive
	KaTimeout  time.Duration
	IgnoreEnq  int           // the peer answers this many enquire_links, then none (-1: answers all)
	IgnoreUnb  bool          // the peer leaves unbind unanswered
	DropAfter  time.Duration // the peer closes the transport after this long (0: never)
	CloseAfter time.Duration // the application calls Close from a timer this long after the start (0: after the senders finished)
	Impatient  bool          // one caller whose own context ends about when its response arrives
	TCP        bool
	Unsol      time.Duration // period of unsolicited deliver_sm (0: none)
}

type wlStats struct {
	Submits, Sends, Errors, Unsolicited, Pings, Unbinds int32
	KaClosed                                            bool // an unbind arrived before the application called Close: the keep-alive closed by itself
	Problem                                             string
}

// runWorkload: one connection, README usage, free-running.
func runWorkload(c wlCfg, seedSeq int32) (st wlStats) {
	var cli, srv net.Conn
	if c.TCP {
		if l, err := net.Listen("tcp", "127.0.0.1:0"); err == nil {
			ch := make(chan net.Conn, 1)
			go func() { s, _ := l.Accept(); ch <- s }()
			if cc, err := net.Dial("tcp", l.Addr().String()); err == nil {
				cli = cc
				select {
				case srv = <-ch:
				case <-time.After(2 * time.Second):
				}
			}
			_ = l.Close()
		}
	}
	if cli == nil || srv == nil {
		cli, srv = net.Pipe()
	}
	var peerWG sync.WaitGroup
	var wmu sync.Mutex
	send := func(p interface{}) {
		wmu.Lock()
		_ = srv.SetWriteDeadline(time.Now().Add(2 * time.Second))
		_, _ = pdu.Marshal(srv, p)
		wmu.Unlock()
	}
	stopPeer := make(chan struct{})
	var appClosing int32
	peerWG.Add(1)
	go func() { // reader: answers requests asynchronously, except what the configuration leaves unanswered
		defer peerWG.Done()
		for {
			p, err := pdu.ReadPDU(srv)
			if err != nil && p == nil {
				return
			}
			switch p.(type) {
			case *pdu.EnquireLink:
				n := atomic.AddInt32(&st.Pings, 1)
				if c.IgnoreEnq >= 0 && int(n) > c.IgnoreEnq {
					continue
				}
			case *pdu.Unbind:
				atomic.AddInt32(&st.Unbinds, 1)
				if atomic.LoadInt32(&appClosing) == 0 {
					st.KaClosed = true // only this goroutine writes it; read after peerWG.Wait
				}
				if c.IgnoreUnb {
					continue
				}
			}
			if rq, ok := p.(pdu.Responsable); ok {
				resp := rq.Resp()
				peerWG.Add(1)
				go func() { defer peerWG.Done(); send(resp) }()
			}
		}
	}()
	bound := make(chan struct{})
	if c.Unsol > 0 {
		peerWG.Add(1)
		go func() {
			defer peerWG.Done()
			seq := int32(1 << 20)
			select {
			case <-bound:
			case <-stopPeer:
				return
			}
			for {
				select {
				case <-stopPeer:
					return
				case <-time.After(c.Unsol):
				}
				seq++
				d := &pdu.DeliverSM{Header: pdu.Header{Sequence: seq}, SourceAddr: pdu.Address{No: "100"}, DestAddr: pdu.Address{No: "200"}}
				_ = d.Message.Compose("ping")
				send(d)
				atomic.AddInt32(&st.Unsolicited, 1)
			}
		}()
	}
	if c.DropAfter > 0 {
		peerWG.Add(1)
		go func() {
			defer peerWG.Done()
			select {
			case <-stopPeer:
			case <-time.After(c.DropAfter):
				_ = srv.Close()
			}
		}()
	}

	// ---- the application, as the README writes it
	conn := smpp.NewConn(context.Background(), cli)
	if c.WriteTO >= 0 {
		conn.WriteTimeout = c.WriteTO
	}
	if c.ReadTO >= 0 {
		conn.ReadTimeout = c.ReadTO
	}
	if c.CustomSeq {
		n := seedSeq
		conn.NextSequence = func() int32 { return atomic.AddInt32(&n, 1)&0x3FFFFFFF | 1 }
	}
	var pmu sync.Mutex
	note := func(s string) {
		pmu.Lock()
		if st.Problem == "" {
			st.Problem = s
		}
		pmu.Unlock()
	}
	var wg sync.WaitGroup
	wg.Add(1)
	go func() { defer wg.Done(); conn.Watch() }()
	bctx, bcancel := context.WithTimeout(context.Background(), 5*time.Second)
	if resp, err := conn.Submit(bctx, &pdu.BindTransceiver{SystemID: "id", Password: "pw", Version: pdu.SMPPVersion50}); err != nil {
		note("bind: " + err.Error())
	} else if _, ok := resp.(*pdu.BindTransceiverResp); !ok {
		note(fmt.Sprintf("bind answered by %T", resp))
	}
	bcancel()
	close(bound)
	start := time.Now()
	wg.Add(1)
	go func() { defer wg.Done(); conn.EnquireLink(c.Tick, c.KaTimeout) }()
	wg.Add(1)
	go func() { // the README's event loop (leaving when the connection is done)
		defer wg.Done()
		for {
			select {
			case <-conn.Done():
				return
			case packet, ok := <-conn.PDU():
				if !ok || packet == nil {
					return
				}
				if p, ok := packet.(pdu.Responsable); ok {
					_ = conn.Send(p.Resp())
				}
			}
		}
	}()
	gone := func() bool {
		select {
		case <-conn.Done():
			return true
		default:
			return false
		}
	}
	var subWG sync.WaitGroup
	sendSeq := int32(1 << 28)
	until := start.Add(c.Run)
	for g := 0; g < c.K; g++ {
		subWG.Add(1)
		go func(g int) {
			defer subWG.Done()
			for i := 0; (c.MaxIter == 0 || i < c.MaxIter) && time.Now().Before(until) && !gone(); i++ {
				packet := &pdu.SubmitSM{SourceAddr: pdu.Address{TON: 1, NPI: 1, No: "00919821"}, DestAddr: pdu.Address{TON: 1, NPI: 1, No: "99919821"}}
				_ = packet.Message.Compose("Hello World!")
				ctx, cancel := context.WithTimeout(context.Background(), 2*time.Second)
				resp, err := conn.Submit(ctx, packet)
				cancel()
				if err != nil {
					atomic.AddInt32(&st.Errors, 1)
					continue
				}
				if pdu.ReadSequence(resp) != pdu.ReadSequence(packet) {
					note(fmt.Sprintf("submit got sequence %d for %d", pdu.ReadSequence(resp), pdu.ReadSequence(packet)))
				}
				atomic.AddInt32(&st.Submits, 1)
			}
		}(g)
	}
	for g := 0; g < c.S; g++ {
		subWG.Add(1)
		go func(g int) {
			defer subWG.Done()
			for i := 0; (c.MaxIter == 0 || i < c.MaxIter) && time.Now().Before(until) && !gone(); i++ {
				if err := conn.Send(&pdu.DeliverSMResp{Header: pdu.Header{Sequence: atomic.AddInt32(&sendSeq, 1)}}); err != nil {
					atomic.AddInt32(&st.Errors, 1)
				} else {
					atomic.AddInt32(&st.Sends, 1)
				}
				if i%8 == 7 {
					time.Sleep(50 * time.Microsecond)
				}
			}
		}(g)
	}
	if c.Impatient {
		subWG.Add(1)
		go func() {
			defer subWG.Done()
			for i := 0; i < 40 && time.Now().Before(until) && !gone(); i++ {
				ctx, cancel := context.WithTimeout(context.Background(), time.Duration(20+i*7%180)*time.Microsecond)
				packet := &pdu.SubmitSM{SourceAddr: pdu.Address{No: "1"}, DestAddr: pdu.Address{No: "2"}}
				_ = packet.Message.Compose("hurry")
				_, _ = conn.Submit(ctx, packet) // deadline exceeded is an acceptable outcome
				cancel()
			}
		}()
	}
	// ---- the final Close: from a timer (no synchronisation with the library before it) or after the senders
	if c.CloseAfter > 0 {
		time.Sleep(time.Until(start.Add(c.CloseAfter)))
	} else {
		finished := make(chan struct{})
		go func() { subWG.Wait(); close(finished) }()
		select {
		case <-finished:
		case <-time.After(c.Run + 20*time.Second):
			note("senders did not finish")
		}
	}
	atomic.StoreInt32(&appClosing, 1)
	_ = conn.Close() // an error is an acceptable outcome when the peer is gone or silent
	all := make(chan struct{})
	go func() { subWG.Wait(); wg.Wait(); close(all) }()
	select {
	case <-all:
	case <-time.After(15 * time.Second):
		note("Watch / EnquireLink / consumer / senders did not return within 15 s of Close")
	}
	close(stopPeer)
	_ = srv.Close()
	_ = cli.Close()
	peerDone := make(chan struct{})
	go func() { peerWG.Wait(); close(peerDone) }()
	select {
	case <-peerDone:
	case <-time.After(5 * time.Second):
	}
	return
}

// ---------------------------------------------------------------- configurations
type raceConfig struct {
	Name  string
	Limit time.Duration // of the child process
	Par   int           // connections running at the same time inside the child
	Items []wlItem
	Extra string // "forced": forced schedules of the conn engine; "respctx"
}

type wlItem struct {
	Label string
	Cfg   wlCfg
}

func raceConfigs(tier string) []raceConfig {
	thorough := tier == "thorough"
	mul := func(d time.Duration) time.Duration {
		if thorough {
			return 3 * d
		}
		return d
	}
	base := wlCfg{WriteTO: 5 * time.Second, ReadTO: 5 * time.Second, Run: mul(400 * time.Millisecond), MaxIter: 25, Tick: 2 * time.Millisecond, KaTimeout: time.Second,
		IgnoreEnq: -1, Impatient: true, Unsol: 150 * time.Microsecond}
	var out []raceConfig
	// 1. the README workload, comfortable timeouts, counted iterations
	{
		rc := raceConfig{Name: "readme", Limit: 60 * time.Second, Par: 2}
		rounds := 2
		if thorough {
			rounds = 6
		}
		for round := 0; round < rounds; round++ {
			for _, k := range []int{1, 2, 4, 8, 16} {
				for _, custom := range []bool{false, true} {
					c := base
					c.K, c.CustomSeq = k, custom
					if k >= 4 {
						c.S = 1
					}
					if round%2 == 1 {
						c.WriteTO, c.ReadTO = -1, -1 // library defaults (15 min)
					}
					c.Run = 20 * time.Second
					rc.Items = append(rc.Items, wlItem{fmt.Sprintf("readme/submitters=%d/custom-sequence=%v/timeouts=%s", k, custom, toName(c.WriteTO)), c})
				}
			}
		}
		out = append(out, rc)
	}
	// 2. senders that keep running for a fixed time, tiny and large deadlines
	{
		rc := raceConfig{Name: "long-senders", Limit: 60 * time.Second, Par: 4}
		for _, to := range []time.Duration{2 * time.Millisecond, 20 * time.Millisecond, 200 * time.Millisecond, -1} {
			for _, ks := range [][2]int{{2, 0}, {0, 3}, {3, 3}} {
				c := base
				c.K, c.S, c.WriteTO, c.ReadTO, c.MaxIter, c.Impatient = ks[0], ks[1], to, to, 0, false
				if to > 0 && to < 50*time.Millisecond {
					c.ReadTO = 50 * time.Millisecond // a silent 2 ms would end Watch at once; the peer sends something every 150 µs
				}
				c.Tick = 5 * time.Millisecond
				c.TCP = ks[0] == 3
				rc.Items = append(rc.Items, wlItem{fmt.Sprintf("long-senders/submit=%d/send=%d/timeouts=%s", ks[0], ks[1], toName(to)), c})
			}
		}
		out = append(out, rc)
	}
	// 3. keep-alive failure: enquire_link unanswered; the application's Close comes from a timer
	{
		rc := raceConfig{Name: "keepalive-failure", Limit: 60 * time.Second, Par: 12}
		for _, answered := range []int{0, 3} {
			for _, unb := range []bool{false, true} {
				for _, after := range []time.Duration{4 * time.Millisecond, 12 * time.Millisecond, 40 * time.Millisecond, 150 * time.Millisecond, 1300 * time.Millisecond} {
					if unb && after > 200*time.Millisecond && !thorough && answered > 0 {
						continue
					}
					c := base
					c.K, c.S, c.MaxIter, c.Impatient = 2, 1, 0, false
					c.Run = after
					c.Tick, c.KaTimeout = time.Millisecond, 6*time.Millisecond
					c.IgnoreEnq, c.IgnoreUnb, c.CloseAfter = answered, unb, after
					c.Unsol = 300 * time.Microsecond
					rc.Items = append(rc.Items, wlItem{fmt.Sprintf("keepalive-failure/answered=%d/unbind-answered=%v/app-close-after=%s", answered, !unb, after), c})
				}
			}
		}
		out = append(out, rc)
	}
	// 4. Close while senders are still running; the peer dropping the transport
	{
		rc := raceConfig{Name: "teardown", Limit: 60 * time.Second, Par: 8}
		for i, after := range []time.Duration{3 * time.Millisecond, 10 * time.Millisecond, 30 * time.Millisecond, 80 * time.Millisecond} {
			c := base
			c.K, c.S, c.MaxIter = 3, 2, 0
			c.Run = 300 * time.Millisecond
			c.CloseAfter = after
			c.CustomSeq = i%2 == 1
			rc.Items = append(rc.Items, wlItem{fmt.Sprintf("teardown/close-while-sending/after=%s", after), c})
			d := c
			d.CloseAfter = 0
			d.DropAfter = after
			d.Run = 2 * after
			rc.Items = append(rc.Items, wlItem{fmt.Sprintf("teardown/peer-drops-transport/after=%s", after), d})
			e := d
			e.CloseAfter = after // Close from the timer exactly when the peer drops
			rc.Items = append(rc.Items, wlItem{fmt.Sprintf("teardown/peer-drop-and-close/after=%s", after), e})
		}
		out = append(out, rc)
	}
	// 5. forced schedules of the conn engine and response-vs-own-context hand-overs
	out = append(out, raceConfig{Name: "forced", Limit: 90 * time.Second, Extra: "forced"})
	out = append(out, raceConfig{Name: "response-vs-context", Limit: 60 * time.Second, Extra: "respctx"})
	if thorough {
		for i := range out {
			out[i].Limit *= 3
		}
	}
	return out
}

func toName(d time.Duration) string {
	if d < 0 {
		return "default"
	}
	return d.String()
}

// ---------------------------------------------------------------- the -race child
type raceSummary struct {
	Config    string         `json:"config"`
	Workloads map[string]int `json:"workloads"`
	Submits   int            `json:"submits"`
	Sends     int            `json:"sends"`
	Errors    int            `json:"errors"`
	Inbound   int            `json:"unsolicited"`
	Pings     int            `json:"enquire_links"`
	KaClosed  int            `json:"keepalive_closed_by_itself"`
	TwoUnbind int            `json:"both_close_calls_sent_unbind"`
	Problems  []string       `json:"problems"`
	RaceBuild bool           `json:"race_build"`
}

func raceLoadMain() {
	name, tier, seed, dir := "readme", "quick", uint64(1), os.TempDir()
	if len(os.Args) > 2 {
		name = os.Args[2]
	}
	if len(os.Args) > 3 {
		tier = os.Args[3]
	}
	if len(os.Args) > 4 {
		seed, _ = strconv.ParseUint(os.Args[4], 10, 64)
	}
	if len(os.Args) > 5 {
		dir = os.Args[5]
	}
	sum := raceSummary{Config: name, Workloads: map[string]int{}, RaceBuild: raceEnabled}
	var cfg *raceConfig
	for _, c := range raceConfigs(tier) {
		if c.Name == name {
			c := c
			cfg = &c
		}
	}
	if cfg == nil {
		fmt.Fprintln(os.Stderr, "unknown race configuration", name)
		os.Exit(2)
	}
	switch cfg.Extra {
	case "forced":
		raceForced(&sum, tier, seed, dir)
	case "respctx":
		rng := &Rng{s: seed*0x9E3779B97F4A7C15 + 77}
		ts := pduTypes()
		nr := 300
		if tier == "thorough" {
			nr = 800
		}
		for i := 0; i < nr; i++ {
			raceResponseVsContext(rng, ts, i)
		}
		sum.Workloads["forced/response-vs-own-context"] += nr
	default:
		var mu sync.Mutex
		par := cfg.Par
		if par < 1 {
			par = 1
		}
		sem := make(chan struct{}, par)
		var wg sync.WaitGroup
		for i, it := range cfg.Items {
			wg.Add(1)
			sem <- struct{}{}
			go func(i int, it wlItem) {
				defer wg.Done()
				defer func() { <-sem }()
				st := runWorkload(it.Cfg, int32(seed*1000)+int32(i)*100000)
				mu.Lock()
				defer mu.Unlock()
				sum.Workloads[it.Label]++
				sum.Submits += int(st.Submits)
				sum.Sends += int(st.Sends)
				sum.Errors += int(st.Errors)
				sum.Inbound += int(st.Unsolicited)
				sum.Pings += int(st.Pings)
				if st.KaClosed {
					sum.KaClosed++
				}
				if st.Unbinds >= 2 {
					sum.TwoUnbind++
				}
				if st.Problem != "" {
					sum.Problems = append(sum.Problems, it.Label+": "+st.Problem)
				}
			}(i, it)
		}
		wg.Wait()
	}
	out, _ := json.Marshal(sum)
	fmt.Println(string(out))
}

func raceForced(sum *raceSummary, tier string, seed uint64, dir string) {
	scratch := NewRun("C06race", tier, seed, filepath.Join(dir, "race_scratch"))
	ts := pduTypes()
	nf := 50
	if tier == "thorough" {
		nf = 120
	}
	for i := 0; i < nf; i++ {
		c05Scenario(scratch, ts, i, 8)
		c15Scenario(scratch, ts, i, c15Terms[i%len(c15Terms)])
		c16Scenario(scratch, ts, i)
	}
	c15Witnesses(scratch)
	sum.Workloads["forced/C05"] += nf
	sum.Workloads["forced/C15"] += nf
	sum.Workloads["forced/C16"] += nf
	for _, f := range scratch.Failures {
		sum.Problems = append(sum.Problems, "forced schedule under -race: "+f.Class+": "+head(f.Observed, 200))
	}
}

// raceResponseVsContext: Watch hands the response to the waiter while the caller is still inside its transport
// Write; the caller's own context ends; the Write returns: Submit's select finds its response and its context
// both ready (either outcome is fine — what matters here is that the two goroutines touch nothing unsynchronised).
// Variant: the context ends first and the response is taken while the caller leaves.
func raceResponseVsContext(rng *Rng, ts []pduType, idx int) {
	w := NewWorld(true)
	defer w.Shutdown()
	w.StartWatch()
	p := genSendable(rng, ts, true, 300)
	c := w.Go(0, CallSpec{Kind: "submit", Seq: int32(500 + idx), P: p})[0]
	if w.Stuck != "" {
		return
	}
	resp := frameOf(respFor(p, c.Seq))
	switch idx % 3 {
	case 0:
		w.T.Inject(resp, nil)
		w.quiesce()
		c.stop()
		w.Release(c)
	case 1:
		c.stop()
		w.T.Inject(resp, nil)
		w.quiesce()
		w.Release(c)
	default: // caller already in its select: cancel and response at the same moment
		w.Release(c)
		go c.stop()
		w.T.Inject(resp, nil)
	}
	w.WaitUntil(2*time.Second, func() bool { return w.Returned(c) })
}

// ---------------------------------------------------------------- the parent
type raceChildResult struct {
	cfg    raceConfig
	sum    raceSummary
	stderr string
	err    error
	killed bool
	wall   time.Duration
	logs   []string
}

func c06Dynamic(r *Run) {
	bin := filepath.Join(filepath.Dir(r.Dir), "harness_race")
	if _, err := os.Stat(bin); err != nil {
		fmt.Fprintln(os.Stderr, "race build of the harness not found:", bin)
		os.Exit(2)
	}
	old, _ := filepath.Glob(filepath.Join(r.Dir, "racelog*"))
	for _, f := range old {
		_ = os.Remove(f)
	}
	cfgs := raceConfigs(r.Tier)
	res := make([]raceChildResult, len(cfgs))
	var wg sync.WaitGroup
	sem := make(chan struct{}, 3) // children at a time (each runs several connections itself)
	for i, c := range cfgs {
		wg.Add(1)
		go func(i int, c raceConfig) {
			defer wg.Done()
			sem <- struct{}{}
			defer func() { <-sem }()
			res[i] = runRaceChild(r, bin, c)
			if res[i].killed || (res[i].err != nil && !strings.Contains(res[i].stderr, "fatal error:")) {
				// load, or a stuck round: one more attempt, alone
				second := runRaceChild(r, bin, c)
				second.logs = append(second.logs, res[i].logs...)
				res[i] = second
			}
		}(i, c)
	}
	wg.Wait()
	total := raceSummary{Workloads: map[string]int{}}
	ranOK := 0
	for _, cr := range res {
		sum := cr.sum
		for k, v := range sum.Workloads {
			total.Workloads[k] += v
			for i := 0; i < v; i++ {
				nontrivial := !strings.Contains(k, "submitters=1/")
				r.Count(fmt.Sprintf("%s#%d", k, i), nontrivial, "dynamic/"+cr.cfg.Name)
			}
		}
		total.Submits += sum.Submits
		total.Sends += sum.Sends
		total.Errors += sum.Errors
		total.Inbound += sum.Inbound
		total.Pings += sum.Pings
		total.KaClosed += sum.KaClosed
		total.TwoUnbind += sum.TwoUnbind
		for _, p := range sum.Problems {
			r.Notes = append(r.Notes, "race workload "+cr.cfg.Name+": "+p)
		}
		replay := fmt.Sprintf("harness_race raceload %s %s %d <dir>   (GORACE=halt_on_error=0)", cr.cfg.Name, r.Tier, r.Seed)
		// runtime abort
		if m := regexp.MustCompile(`fatal error: (concurrent map[^\n]*)`).FindStringSubmatch(cr.stderr); m != nil {
			r.Fail("runtime-fatal/concurrent-map-access", "the Go runtime aborted the workload: "+m[1], replay, tail(head(cr.stderr, 5000), 2500), "no runtime fatal error")
		} else if cr.err != nil {
			if !cr.killed && strings.Contains(cr.stderr, "go-smpp.(*Conn)") && strings.Contains(cr.stderr, "fatal error:") {
				r.Fail("runtime-fatal/other", "the workload process died inside the library", replay, tail(cr.stderr, 2500), "workload completes")
			} else {
				r.Notes = append(r.Notes, fmt.Sprintf("race configuration %s did not complete (%v) in two attempts: its executions are missing from the evidence, the others are unaffected", cr.cfg.Name, cr.err))
			}
		} else {
			ranOK++
			if !sum.RaceBuild {
				fmt.Fprintln(os.Stderr, "the race workload did not run in a -race build")
				os.Exit(2)
			}
		}
		// race reports
		nRep, nLib := 0, 0
		for _, f := range cr.logs {
			data, _ := os.ReadFile(f)
			for _, rep := range strings.Split(string(data), "==================") {
				if !strings.Contains(rep, "WARNING: DATA RACE") {
					continue
				}
				nRep++
				fn := raceLibraryAccess(rep)
				if fn == "" {
					continue
				}
				nLib++
				r.Fail("race/"+fn, "the race detector reports a data race with an access made by go-smpp code", replay,
					strings.TrimSpace(head(rep, 3500)), "no report with a frame inside the library")
			}
		}
		if nRep > nLib {
			r.Notes = append(r.Notes, fmt.Sprintf("%s: %d race reports without a racing access inside go-smpp (harness code): ignored for the verdict", cr.cfg.Name, nRep-nLib))
		}
	}
	if ranOK == 0 {
		fmt.Fprintln(os.Stderr, "no race configuration completed")
		os.Exit(2)
	}
	if total.KaClosed > 0 {
		r.Count("keepalive closed by itself before the application's Close", true, "dynamic/observed/keepalive-closed-by-itself")
	}
	if total.TwoUnbind > 0 {
		r.Count("both Close calls sent unbind", true, "dynamic/observed/two-concurrent-Close")
	}
	labels := make([]string, 0, len(total.Workloads))
	for k := range total.Workloads {
		labels = append(labels, k)
	}
	sort.Strings(labels)
	r.Sample(map[string]interface{}{"race_build": true, "submits": total.Submits, "sends": total.Sends, "send_or_submit_errors": total.Errors, "unsolicited_pdus": total.Inbound,
		"enquire_links": total.Pings, "connections_whose_keepalive_closed_by_itself": total.KaClosed, "connections_with_two_unbinds": total.TwoUnbind,
		"configurations": len(cfgs), "configurations_completed": ranOK, "workload_labels": labels})
	if total.KaClosed == 0 {
		r.Notes = append(r.Notes, "no connection had its keep-alive close by itself before the application's Close: the concurrent-Close role was not exercised in this run")
	}
}

func runRaceChild(r *Run, bin string, c raceConfig) (res raceChildResult) {
	res.cfg = c
	logBase := filepath.Join(r.Dir, fmt.Sprintf("racelog_%s_%d", c.Name, time.Now().UnixNano()%1000000))
	cmd := exec.Command(bin, "raceload", c.Name, r.Tier, strconv.FormatUint(r.Seed, 10), r.Dir)
	cmd.Env = append(os.Environ(), "GORACE=halt_on_error=0 exitcode=0 log_path="+logBase)
	var stdout, stderr bytes.Buffer
	cmd.Stdout, cmd.Stderr = &stdout, &stderr
	t0 := time.Now()
	if err := cmd.Start(); err != nil {
		res.err = err
		return
	}
	done := make(chan error, 1)
	go func() { done <- cmd.Wait() }()
	select {
	case res.err = <-done:
	case <-time.After(c.Limit):
		_ = cmd.Process.Kill()
		<-done
		res.err = fmt.Errorf("exceeded its limit of %s", c.Limit)
		res.killed = true
	}
	res.wall = time.Since(t0)
	res.stderr = stderr.String()
	res.sum.Workloads = map[string]int{}
	_ = json.Unmarshal(stdout.Bytes(), &res.sum)
	res.logs, _ = filepath.Glob(logBase + "*")
	return
}

var raceFrame = regexp.MustCompile(`(?m)^  (\S+)\(\)$`)
var raceStacks = regexp.MustCompile(`(?m)^(?:Write|Read|Previous write|Previous read|Atomic write|Atomic read|Previous atomic write|Previous atomic read)[^\n]*:\n((?:  \S[^\n]*\n      [^\n]*\n)+)`)

// raceLibraryAccess: the go-smpp function on whose behalf one of the two racing accesses is made: walking each of the
// two access stacks from the innermost frame outwards, frames of the Go runtime and standard library are skipped (a
// racing access inside bytes.Buffer or time.Time made for the library belongs to the library); the first other frame
// decides: go-smpp -> that function; anything else (harness code) -> not the library's access.
func raceLibraryAccess(rep string) string {
	for _, st := range raceStacks.FindAllStringSubmatch(rep, -1) {
		for _, m := range raceFrame.FindAllStringSubmatch(st[1], -1) {
			fn := m[1]
			if strings.HasPrefix(fn, libPrefix) {
				return strings.TrimLeft(strings.TrimPrefix(fn, libPrefix), "./")
			}
			first := fn
			if i := strings.Index(first, "/"); i >= 0 {
				first = first[:i]
			}
			if i := strings.Index(first, "."); i >= 0 && !strings.Contains(fn, "/") {
				first = first[:i]
			}
			if !strings.Contains(first, ".") && first != "main" && first != "verif" {
				continue // runtime / standard library (import paths without a dot in the first element)
			}
			break // the access was made by other code
		}
	}
	return ""
}
