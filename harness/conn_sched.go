package main

// Generators shared by the forced-schedule checks of the connection engine.

import (
	"bytes"
	"encoding/binary"
	"fmt"
	"os"
	"reflect"
	"strings"

	"github.com/M2MGateway/go-smpp/pdu"
)

// classifyFrame runs the implementation's ReadPDU on one frame: "pdu" (decoded),
// "bad" (partial PDU and an error: Watch answers generic_nack), "fatal" (nil PDU and an error).
func classifyFrame(b []byte) (kind string, id uint32, seq int32) {
	var p interface{}
	var err error
	if panicked, _ := guard(func() { p, err = pdu.ReadPDU(bytes.NewReader(b)) }); panicked {
		return "panic", 0, 0 // (ReadPDU itself panics on these octets: Watch will die on them)
	}
	switch {
	case err == nil && p != nil:
		return "pdu", idOfPDU(p), pdu.ReadSequence(p)
	case p != nil:
		return "bad", idOfPDU(p), pdu.ReadSequence(p)
	}
	return "fatal", 0, 0
}

// genCap: every rejection-sampling loop of the generators is bounded; running out of tries is a defect of the harness
// (or of an input the generator was never meant for, e.g. a sequence number outside int32's positive range): a tool error, not a hang.
func genCap(who string, tries int, what string) {
	if tries >= 20000 {
		fmt.Fprintf(os.Stderr, "harness generator %s found no acceptable value in %d tries (%s)\n", who, tries, what)
		os.Exit(2)
	}
}

// genRefused: a request PDU that pdu.Marshal refuses AFTER it has begun to encode it (header and possibly further fields
// are already in its scratch buffer): stage in refusedStages.  The sequence number itself is acceptable.
var refusedStages = []string{"nul-first-field", "nul-late-field", "short-message-141", "esm-class", "udh-element-256", "destinations-256"}

func genRefused(r *Rng, stage string) interface{} {
	sm := &pdu.SubmitSM{ServiceType: "svc", SourceAddr: pdu.Address{TON: 1, NPI: 1, No: "1000"}, DestAddr: pdu.Address{TON: 1, NPI: 1, No: "2000"}}
	sm.Message.Message = r.Bytes(1 + r.Intn(20))
	var p interface{} = sm
	switch stage {
	case "nul-first-field":
		sm.ServiceType = "a\x00b"
	case "nul-late-field":
		sm.ValidityPeriod = "\x00"
	case "short-message-141":
		sm.Message.Message = r.Bytes(141 + r.Intn(60))
	case "esm-class":
		sm.ESMClass.MessageMode = 4 + byte(r.Intn(200))
	case "udh-element-256":
		sm.Message.UDHeader = pdu.UserDataHeader{0x24: r.Bytes(256)}
	default:
		p = &pdu.SubmitMulti{ServiceType: "svc", SourceAddr: pdu.Address{TON: 1, NPI: 1, No: "1000"},
			DestAddrList: pdu.DestinationAddresses{DistributionList: make([]string, 0x100)}}
	}
	return p
}

// definedStatuses: every command_status the library has a name for (its table, read through String()), zero included,
// plus a few it has none for.
func sweepStatuses() []uint32 {
	var out []uint32
	for s := uint32(0); s < 0x600; s++ {
		if strings.HasPrefix(pdu.CommandStatus(s).String(), "ESME_R") || s == 0 {
			out = append(out, s)
		}
	}
	return append(out, 0x0F, 0x400, 0x5FF, 0x7FFFFFFF, 0x80000000, 0xFFFFFFFF)
}

// genHostileFrame: the pdu engine's hostile inbound frames (C04 / C11 / C13) carrying seq: hand-laid submit_sm / deliver_sm /
// submit_multi bodies (UDHL lies, elements overrunning UDHL, a decoded header of ~500 octets behind a tiny sm_length, booleans
// other than 0/1, sm_length beyond 140 ...), the minimal "UDH longer than sm_length" deliver_sm, valid mandatory parameters
// followed by raw TLVs (empty / undersized standard tags, duplicates), a body that stops early.  What they are to the
// connection (well-formed / undecodable / fatal) is asked of the implementation's own ReadPDU (classifyFrame).
func genHostileFrame(r *Rng, ts []pduType, seq int32) (f []byte, class string) {
	switch r.Intn(5) {
	case 0:
		// deliver_sm, UDHI set, sm_length 3, a 6-octet UDH (UDHL 5: one element of 3 octets)
		body := []byte{0, 1, 1, '1', 0, 1, 1, '2', 0, 0x40, 0, 0, 0, 0, 0, 0, 0, 0, 3, 5, 0x00, 0x03, 1, 2, 3}
		if r.Bool() {
			body[len(body)-7] = byte(r.Intn(5)) // sm_length 0..4
		}
		id := uint32(r.Pick([]int{5, 4}))
		return rawFrame(id, 0, seq, body), "udh-longer-than-sm_length"
	case 1:
		p := genPDU(r, ts[r.Intn(len(ts))], modeDomain)
		v := reflect.ValueOf(p).Elem()
		for j := 0; j < v.NumField(); j++ {
			if _, ok := v.Field(j).Interface().(pdu.Tags); ok {
				v.Field(j).Set(reflect.Zero(v.Field(j).Type()))
			}
		}
		if g := expectedFrame(p, seq); g != nil && len(g) > 16 {
			g = append(append([]byte(nil), g...), rawTLVs(r)...)
			binary.BigEndian.PutUint32(g, uint32(len(g)))
			return g, "valid+raw-tlvs"
		}
		fallthrough
	case 2:
		// a well-formed body that stops early (inside a later field)
		p := genSendable(r, ts, false, 600)
		if g := expectedFrame(p, seq); g != nil && len(g) > 18 {
			g = append([]byte(nil), g[:17+r.Intn(len(g)-17)]...)
			binary.BigEndian.PutUint32(g, uint32(len(g)))
			return g, "early-stop"
		}
		fallthrough
	default:
		multi := r.Intn(3) == 0
		id := uint32(r.Pick([]int{4, 5}))
		if multi {
			id = 0x21
		}
		return rawFrame(id, 0, seq, handBody(r, multi)), "hand-laid"
	}
}

// genBadFrameOfID: an undecodable body (octets without a terminator) behind an intact header with the given command_id
// and sequence number; nil when the implementation decodes every such body for that id (a header-only type).
func genBadFrameOfID(r *Rng, id uint32, seq int32) []byte {
	for tries := 0; tries < 40; tries++ {
		f := make([]byte, 16+1+r.Intn(12))
		binary.BigEndian.PutUint32(f[0:4], uint32(len(f)))
		binary.BigEndian.PutUint32(f[4:8], id)
		binary.BigEndian.PutUint32(f[12:16], uint32(seq))
		for i := 16; i < len(f); i++ {
			f[i] = 1 + byte(r.Intn(255))
		}
		if k, _, q := classifyFrame(f); k == "bad" && q == seq {
			return f
		}
	}
	return nil
}

// genUnsolicited: a well-formed PDU of a random registered type carrying seq.
func genUnsolicited(r *Rng, ts []pduType, seq int32) []byte {
	for tries := 0; ; tries++ {
		genCap("genUnsolicited", tries, fmt.Sprintf("sequence %d", seq))
		p := genSendable(r, ts, false, 1500)
		if r.Intn(8) == 0 { // a non-zero command_status: header-only on the wire
			h := pduHeader(p)
			h.CommandStatus = pdu.CommandStatus(1 + r.Intn(255))
		}
		f := expectedFrame(p, seq)
		if f == nil {
			continue
		}
		if k, _, s := classifyFrame(f); k == "pdu" && s == seq {
			switch r.Intn(8) {
			case 0:
				return oddFrame(r, f, 1)
			case 1:
				return oddFrame(r, f, 2)
			}
			return f
		}
	}
}

// oddFrame puts the same PDU on the wire in a form of which the decoder consumes only a part, as a peer may:
// kind 1: a non-zero command_status followed by a body (decoding stops after the header; e.g. submit_sm_resp
// ESME_RTHROTTLED with an empty message_id); kind 2: octets behind a decodable body, inside command_length.
// The result decodes to a PDU with the same command_id and sequence number, or f is returned unchanged.
func oddFrame(r *Rng, f []byte, kind int) []byte {
	if len(f) < 16 {
		return f
	}
	_, id0, seq0 := classifyFrame(f)
	g := append([]byte(nil), f...)
	switch kind {
	case 1:
		if binary.BigEndian.Uint32(g[8:12]) == 0 {
			binary.BigEndian.PutUint32(g[8:12], uint32(r.Pick([]int{0x58, 0x14, 0x45, 1 + r.Intn(0x400)})))
		}
		if len(g) == 16 {
			g = append(g, make([]byte, 1+r.Intn(3))...) // e.g. the NUL of an empty C-octet string
		}
	default:
		for i, n := 0, 1+r.Intn(40); i < n; i++ {
			g = append(g, byte(r.Intn(256)))
		}
	}
	binary.BigEndian.PutUint32(g[0:4], uint32(len(g)))
	if k, id, s := classifyFrame(g); k == "pdu" && id == id0 && s == seq0 {
		return g
	}
	return f
}

// pduHeader: every registered type starts with its Header.
func pduHeader(p interface{}) *pdu.Header {
	v := reflect.ValueOf(p).Elem()
	for i := 0; i < v.NumField(); i++ {
		if h, ok := v.Field(i).Addr().Interface().(*pdu.Header); ok {
			return h
		}
	}
	return &pdu.Header{}
}

// genBadFrame: intact framing, registered command_id, the given sequence number, undecodable body.
func genBadFrame(r *Rng, ts []pduType, seq int32) []byte {
	for tries := 0; ; tries++ {
		genCap("genBadFrame", tries, fmt.Sprintf("sequence %d", seq))
		var f []byte
		if r.Bool() {
			// a valid frame cut short inside its body
			p := genSendable(r, ts, false, 600)
			f = expectedFrame(p, 7)
			if f == nil || len(f) <= 17 {
				continue
			}
			f = append([]byte(nil), f[:16+r.Intn(len(f)-16)]...)
		} else {
			// random octets without a terminator behind a valid header
			t := ts[r.Intn(len(ts))]
			f = make([]byte, 16+1+r.Intn(12))
			binary.BigEndian.PutUint32(f[4:8], t.ID)
			for i := 16; i < len(f); i++ {
				f[i] = 1 + byte(r.Intn(255))
			}
		}
		binary.BigEndian.PutUint32(f[0:4], uint32(len(f)))
		binary.BigEndian.PutUint32(f[8:12], 0)
		binary.BigEndian.PutUint32(f[12:16], uint32(seq))
		if k, _, s := classifyFrame(f); k == "bad" && s == seq {
			return f
		}
	}
}

// genOversizeFrame: frames longer than the 4096-octet buffers used while decoding, of which the decoder
// consumes only a prefix.  bad=true: submit_sm whose body has no terminator at all (undecodable, generic_nack);
// bad=false: deliver_sm with a non-zero command_status and a body (decoding stops after the header: a well-formed PDU).
func genOversizeFrame(r *Rng, seq int32, bad bool) []byte {
	n := 16 + 4200 + r.Intn(6000)
	f := make([]byte, n)
	for i := 16; i < n; i++ {
		f[i] = 1 + byte((i*31+n)%255)
	}
	binary.BigEndian.PutUint32(f[0:4], uint32(n))
	if bad {
		binary.BigEndian.PutUint32(f[4:8], 4)
	} else {
		binary.BigEndian.PutUint32(f[4:8], 5)
		binary.BigEndian.PutUint32(f[8:12], uint32(1+r.Intn(200)))
	}
	binary.BigEndian.PutUint32(f[12:16], uint32(seq))
	return f
}

// genFatalFrame: a frame after which Watch cannot go on (unknown command_id or impossible command_length).
func genFatalFrame(r *Rng, seq int32) []byte {
	f := make([]byte, 16)
	binary.BigEndian.PutUint32(f[12:16], uint32(seq))
	switch r.Intn(3) {
	case 0: // unknown command_id
		binary.BigEndian.PutUint32(f[0:4], 16)
		binary.BigEndian.PutUint32(f[4:8], 0x0000EEEE)
	case 1: // command_length below the header size
		binary.BigEndian.PutUint32(f[0:4], uint32(r.Intn(16)))
		binary.BigEndian.PutUint32(f[4:8], 0x15)
	default: // command_length above the accepted maximum
		binary.BigEndian.PutUint32(f[0:4], 0x10001+uint32(r.Intn(1000)))
		binary.BigEndian.PutUint32(f[4:8], 0x15)
	}
	return f
}

// genCuts draws a fragmentation of a frame of n octets (piece sizes; the rest is the last piece).
func genCuts(r *Rng, n int) []int {
	switch r.Intn(8) {
	case 0, 1:
		return nil // whole
	case 2: // octet by octet (long frames: the first 40 octets, then larger pieces — the model evaluates every Read)
		if n > 1500 {
			c := make([]int, 40)
			for i := range c {
				c[i] = 1
			}
			for left := n - 40; left > 0; {
				k := 1 + r.Intn(min(left, 700))
				c = append(c, k)
				left -= k
			}
			return c
		}
		c := make([]int, n)
		for i := range c {
			c[i] = 1
		}
		return c
	case 3: // header | body
		return []int{16}
	case 4: // inside the header
		return []int{1 + r.Intn(15)}
	case 5: // last octet alone
		if n > 1 {
			return []int{n - 1}
		}
		return nil
	}
	var c []int
	for left := n; left > 0; {
		k := 1 + r.Intn(left)
		if r.Intn(3) == 0 {
			k = 1 + r.Intn(min(left, 8))
		}
		c = append(c, k)
		left -= k
	}
	return c
}

func cutsClass(c []int, n int) string {
	switch {
	case len(c) == 0:
		return "whole"
	case len(c) == n:
		return "octet-by-octet"
	case len(c) == 1 && c[0] == 16:
		return "header|body"
	case len(c) == 1 && c[0] < 16:
		return "inside-header"
	case len(c) == 1:
		return "last-octet-alone"
	}
	return "random-pieces"
}

func runStuck(r *Run, w *World, input string) bool {
	if w.Stuck == "" {
		return false
	}
	r.Fail("sched/not-quiescent", "the connection did not come to rest after a forced event", input,
		w.Stuck[:min(len(w.Stuck), 1500)], "every forced event is followed by a state in which all goroutines wait")
	return true
}

func fmtDeliveries(ds []Delivery) string {
	s := ""
	for _, d := range ds {
		s += fmt.Sprintf("(%#x,%d)", d.ID, d.Seq)
	}
	return "[" + s + "]"
}

// connVariant is the variant of Model/ConnLTS.v the generated cases are
// evaluated on: the repaired code.  (Development aid: VERIF_CONN_VARIANT=legacy
// with a pre-repair tree checks that the legacy switches of the model
// reproduce the pre-repair behaviour, witnesses included.)
var connVariant = func() string {
	if v := os.Getenv("VERIF_CONN_VARIANT"); v != "" {
		return v
	}
	return "fixed"
}()

// confirmed runs one forced scenario; if it records a direct failure the same
// scenario (same random choices) is run again, and a third time with every
// wall-clock bound of the harness five times as wide; only a failure that shows
// in all three runs is kept.  Forced schedules are deterministic, so a defect
// reproduces; a hiccup of a heavily loaded machine (a goroutine not scheduled
// for a second while "promptly" is being measured) does not.
// A defect that keeps a library goroutine busy for ever (a loop that retries a failed Read) costs the quiescence cap in
// every scenario that meets it, three times over: once it has been confirmed connSpinLimit times the remaining scenarios
// of the run are not started (the verdict is a violation anyway; running on would end as a tool error, not a finding).
const connSpinLimit = 3

var connSpins int

var connConfirmed = map[string]int{} // failure class -> times it was confirmed by three runs

func confirmed(r *Run, scenario func()) {
	if connSpins >= connSpinLimit {
		return
	}
	defer func() {
		if n := r.failSeen["sched/not-quiescent"]; n >= connSpinLimit && connSpins < connSpinLimit {
			connSpins = n
			r.Notes = append(r.Notes, fmt.Sprintf("%d scenarios left library goroutines running for ever (sched/not-quiescent): the remaining scenarios of this run were not started", n))
		}
	}()
	rng := *r.Rng
	nFail, nCase, nEval := len(r.Failures), len(r.caseExprs), r.Evaluations
	seen := map[string]int{}
	for k, v := range r.failSeen {
		seen[k] = v
	}
	rollback := func() {
		*r.Rng = rng
		r.Failures = r.Failures[:nFail]
		r.caseExprs, r.caseDescs = r.caseExprs[:nCase], r.caseDescs[:nCase]
		r.Evaluations = nEval
		r.failSeen = map[string]int{}
		for k, v := range seen {
			r.failSeen[k] = v
		}
	}
	scenario()
	if sameCounts(seen, r.failSeen) {
		return
	}
	// classes this run raised; a class that has already been confirmed twice by three runs each is not re-run again
	// (a tree on which most scenarios fail would otherwise cost three times the run and end as a tool error under load)
	var raised []string
	settled := true
	for k, v := range r.failSeen {
		if v > seen[k] {
			raised = append(raised, k)
			if connConfirmed[k] < 2 {
				settled = false
			}
		}
	}
	if settled {
		return
	}
	defer func() {
		if !sameCounts(seen, r.failSeen) {
			for _, k := range raised {
				if r.failSeen[k] > seen[k] {
					connConfirmed[k]++
				}
			}
		}
	}()
	first := append([]Failure(nil), r.Failures[nFail:]...)
	note := func(which string) {
		cls := ""
		if len(first) > 0 {
			cls = first[0].Class + ": " + head(first[0].Observed, 160)
		}
		r.Notes = append(r.Notes, "a failure did not reproduce on "+which+" of the same schedule (machine load?): "+cls)
	}
	rollback()
	scenario()
	if sameCounts(seen, r.failSeen) {
		note("the immediate re-run")
		return
	}
	if relaxed {
		return // already running with wide bounds
	}
	rollback()
	setRelaxed(true)
	scenario()
	setRelaxed(false)
	if sameCounts(seen, r.failSeen) {
		note("the third run (wall-clock bounds five times as wide)")
	}
}

func sameCounts(a, b map[string]int) bool {
	if len(a) != len(b) {
		return false
	}
	for k, v := range a {
		if b[k] != v {
			return false
		}
	}
	return true
}
