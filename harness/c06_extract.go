package main

// C06, static side: a control-flow graph of lock operations and accesses to
// the state of smpp.Conn, per README role, read off the CURRENT source of the
// root package with go/ast + go/types (source importer, no network).
//
// For every entry (a method of Conn named in the README usage: Watch,
// EnquireLink, Submit, Send, Close, Done, PDU) the body is walked with
// same-package callees, closures called locally, deferred calls (run at every
// return, in LIFO order, only those registered on that path) inlined.  The walk
// is path-sensitive in two things only: the set of mutexes held and the stack
// of registered defers; nodes reached with the same (statement, held set,
// defers) are shared, so loops are loops.  Each node carries the held set with
// which it is reached: that is the certificate the Coq checker (Model/LockTable.v,
// table_ok) re-checks edge by edge, so the soundness of the lock-set reasoning
// does not rest on this file — only the translation source -> graph does.
//
// Locations are ACCESS PATHS from the Conn value (field, or field.field for
// same-package struct fields); nothing here names a field.  A location is a
// synchronisation object when its type comes from sync or sync/atomic.  Reads
// and writes of the slot and, for maps/slices/pointers, of the referent are
// folded into one location.  Aliases (p := c.pending; mu := &c.mutex) are
// followed.  Anything the walk cannot interpret (goto, a lock state that
// differs between iterations or is left unbalanced on some syntactic path,
// recursion, TryLock, a local mutex) marks the ENTRY as not analysable: the
// verdict for it falls back to the dynamic evidence and a note says so.

import (
	"fmt"
	"go/ast"
	"go/importer"
	"go/parser"
	"go/token"
	"go/types"
	"os"
	"path/filepath"
	"sort"
	"strings"
)

func verifRepo() string {
	if v := os.Getenv("VERIF_REPO"); v != "" {
		return v
	}
	return "/repo"
}

// the README roles: the property text names them; false = one goroutine, true = any number
var readmeRoles = map[string]bool{"Watch": false, "EnquireLink": false, "Submit": true, "Send": true, "Close": false, "Done": true, "PDU": true}

const connTypeName = "Conn"

type lkHeld struct {
	M    int
	Excl bool
}
type lkLS []lkHeld

func (l lkLS) key() string {
	s := ""
	for _, h := range l {
		s += fmt.Sprintf("%d%v,", h.M, h.Excl)
	}
	return s
}
func (l lkLS) find(m int) int {
	for i, h := range l {
		if h.M == m {
			return i
		}
	}
	return -1
}

type lkLoc struct {
	ID   int
	Path string
	Type string
	Sync bool
}
type lkMu struct {
	ID   int
	Path string
	RW   bool
	Once bool // a sync.Once seen as a lock: exclusive while f runs, shared for ever after Do has returned
}
type lkNode struct {
	ID    int
	Entry int
	Kind  string // nop lock unlock acc
	M     int
	Excl  bool
	Loc   int
	Mode  string // MRead MWrite MAtomicRead MAtomicWrite
	LS    lkLS
	Succ  []int
	Site  string
	Pos   token.Pos
}
type lkEntry struct {
	ID     int
	Name   string
	Multi  bool
	Readme bool
	Start  int
	Bad    []string // reasons why this entry could not be analysed
}
type lkTable struct {
	Locs    []*lkLoc
	Mus     []*lkMu
	Nodes   []*lkNode
	Entries []*lkEntry
	Notes   []string
	Err     string
}

// ---------------------------------------------------------------- abstract values
const (
	vNone  = iota
	vConn  // a struct location rooted in the shared Conn (path "" = the Conn itself), by pointer or value
	vFresh // a Conn created in this function and not yet visible to another goroutine
	vRef   // the referent of the map/slice/pointer stored at path
	vAddr  // the address of the plain location path
	vMu    // (the address of) the mutex at path
	vSync  // (the address of) the sync/atomic object at path
	vFunc  // a function literal
)

type aval struct {
	k    int
	path string
	lit  *ast.FuncLit
	env  *lkAct
}

type dcall struct {
	call *ast.CallExpr
	act  *lkAct
}

type fr struct {
	tails  []int
	ls     lkLS
	defers [][]dcall // one stack per live activation
}

func (f fr) key() string {
	s := f.ls.key() + "|"
	for _, st := range f.defers {
		for _, d := range st {
			s += fmt.Sprintf("%p,", d.call)
		}
		s += "/"
	}
	return s
}

type loopCtx struct {
	label   string
	isLoop  bool
	breaks  []fr
	conts   []fr
}

type lkAct struct {
	name    string
	env     map[types.Object]aval
	lexical *lkAct // enclosing activation of a closure
	loops   []*loopCtx
	rets    []fr
	retVal  aval
	decl    *types.Func
	up      *lkAct // caller
}

func (a *lkAct) lookup(o types.Object) (aval, bool) {
	for x := a; x != nil; x = x.lexical {
		if v, ok := x.env[o]; ok {
			return v, true
		}
	}
	return aval{}, false
}

type lkB struct {
	fset    *token.FileSet
	info    *types.Info
	pkg     *types.Package
	decls   map[*types.Func]*ast.FuncDecl
	t       *lkTable
	locIdx  map[string]int
	muIdx   map[string]int
	cur     *lkEntry
	depth   int
	spawned []spawn
	label   string
}

type spawn struct {
	name   string
	readme bool
	call   *ast.CallExpr
	lit    *ast.FuncLit
	act    *lkAct
}

func (b *lkB) bad(format string, args ...interface{}) {
	msg := fmt.Sprintf(format, args...)
	for _, m := range b.cur.Bad {
		if m == msg {
			return
		}
	}
	b.cur.Bad = append(b.cur.Bad, msg)
}

func (b *lkB) site(p token.Pos, a *lkAct) string {
	pos := b.fset.Position(p)
	fn := ""
	if a != nil {
		fn = " " + a.name
	}
	return fmt.Sprintf("%s:%d%s", filepath.Base(pos.Filename), pos.Line, fn)
}

func (b *lkB) newNode(n lkNode) int {
	n.ID = len(b.t.Nodes)
	n.Entry = b.cur.ID
	b.t.Nodes = append(b.t.Nodes, &n)
	return n.ID
}

func (b *lkB) connect(tails []int, to int) {
	for _, t := range tails {
		n := b.t.Nodes[t]
		dup := false
		for _, s := range n.Succ {
			dup = dup || s == to
		}
		if !dup {
			n.Succ = append(n.Succ, to)
		}
	}
}

func mergeFrs(fs []fr) []fr {
	var out []fr
	idx := map[string]int{}
	for _, f := range fs {
		k := f.key()
		if i, ok := idx[k]; ok {
			out[i].tails = append(out[i].tails, f.tails...)
		} else {
			idx[k] = len(out)
			out = append(out, fr{append([]int(nil), f.tails...), f.ls, f.defers})
		}
	}
	return out
}

// emit one node after every frontier
func (b *lkB) emit(fs []fr, n lkNode) []fr {
	fs = mergeFrs(fs)
	out := make([]fr, 0, len(fs))
	for _, f := range fs {
		n2 := n
		n2.LS = f.ls
		ls := f.ls
		switch n.Kind {
		case "lock":
			if f.ls.find(n.M) >= 0 {
				b.bad("%s: a mutex is locked while the walk says it is already held (correlated conditions or a self-deadlock)", n.Site)
				out = append(out, f)
				continue
			}
			ls = append(append(lkLS(nil), f.ls...), lkHeld{n.M, n.Excl})
			sort.Slice(ls, func(i, j int) bool { return ls[i].M < ls[j].M })
		case "unlock":
			i := f.ls.find(n.M)
			if i < 0 || f.ls[i].Excl != n.Excl {
				b.bad("%s: a mutex is unlocked on a syntactic path on which it is not held (correlated conditions, or unlocked by a different function than the one that locked it across entries)", n.Site)
				out = append(out, f)
				continue
			}
			ls = append(append(lkLS(nil), f.ls[:i]...), f.ls[i+1:]...)
		}
		id := b.newNode(n2)
		b.connect(f.tails, id)
		out = append(out, fr{[]int{id}, ls, f.defers})
	}
	return out
}

func (b *lkB) loc(path string, t types.Type) int {
	if i, ok := b.locIdx[path]; ok {
		return i
	}
	l := &lkLoc{ID: len(b.t.Locs), Path: path, Type: types.TypeString(t, func(p *types.Package) string { return p.Name() }), Sync: isSyncType(t)}
	b.t.Locs = append(b.t.Locs, l)
	b.locIdx[path] = l.ID
	return l.ID
}

func (b *lkB) mu(path string, rw bool) int {
	if i, ok := b.muIdx[path]; ok {
		return i
	}
	m := &lkMu{ID: len(b.t.Mus), Path: path, RW: rw}
	b.t.Mus = append(b.t.Mus, m)
	b.muIdx[path] = m.ID
	return m.ID
}

func namedFrom(t types.Type, pkg string) (string, bool) {
	if p, ok := t.(*types.Pointer); ok {
		t = p.Elem()
	}
	n, ok := t.(*types.Named)
	if !ok || n.Obj().Pkg() == nil || n.Obj().Pkg().Path() != pkg {
		return "", false
	}
	return n.Obj().Name(), true
}

func isMutexType(t types.Type) (rw bool, ok bool) {
	if n, is := namedFrom(t, "sync"); is && (n == "Mutex" || n == "RWMutex") {
		return n == "RWMutex", true
	}
	return false, false
}

func isSyncType(t types.Type) bool {
	if _, ok := namedFrom(t, "sync"); ok {
		return true
	}
	_, ok := namedFrom(t, "sync/atomic")
	return ok
}

func (b *lkB) samePkgStruct(t types.Type) (ptr bool, ok bool) {
	if p, is := t.(*types.Pointer); is {
		ptr = true
		t = p.Elem()
	}
	n, is := t.(*types.Named)
	if !is || n.Obj().Pkg() != b.pkg {
		return false, false
	}
	_, ok = n.Underlying().(*types.Struct)
	return ptr, ok
}

func isRefType(t types.Type) bool {
	switch u := t.Underlying().(type) {
	case *types.Map, *types.Slice:
		return true
	case *types.Pointer:
		_ = u
		return true
	}
	return false
}

func (b *lkB) acc(a *lkAct, fs []fr, path string, t types.Type, mode string, p token.Pos) []fr {
	return b.emit(fs, lkNode{Kind: "acc", Loc: b.loc(path, t), Mode: mode, Site: b.site(p, a), Pos: p})
}

// ---------------------------------------------------------------- expressions
func (b *lkB) exprs(a *lkAct, fs []fr, es []ast.Expr) []fr {
	for _, e := range es {
		fs, _ = b.expr(a, fs, e)
	}
	return fs
}

// field steps from a struct location
func (b *lkB) field(a *lkAct, fs []fr, base aval, baseT types.Type, idx []int, write bool, p token.Pos) ([]fr, aval, types.Type) {
	cur, curT := base, baseT
	for i, k := range idx {
		st := curT
		if pt, ok := st.Underlying().(*types.Pointer); ok {
			st = pt.Elem()
		}
		s, ok := st.Underlying().(*types.Struct)
		if !ok || k >= s.NumFields() {
			return fs, aval{}, curT
		}
		f := s.Field(k)
		last := i == len(idx)-1
		ft := f.Type()
		if cur.k == vFresh {
			curT = ft
			if _, ok := b.samePkgStruct(ft); !ok {
				if last {
					return fs, aval{}, ft
				}
				cur = aval{}
			}
			continue
		}
		if cur.k != vConn {
			return fs, aval{}, ft
		}
		path := f.Name()
		if cur.path != "" {
			path = cur.path + "." + f.Name()
		}
		curT = ft
		if rw, ok := isMutexType(ft); ok {
			if _, isPtr := ft.(*types.Pointer); isPtr {
				fs = b.acc(a, fs, path, ft, "MRead", p)
			}
			b.mu(path, rw)
			cur = aval{k: vMu, path: path}
			continue
		}
		if isSyncType(ft) {
			if _, isPtr := ft.(*types.Pointer); isPtr {
				fs = b.acc(a, fs, path+"(slot)", ft, "MRead", p)
			}
			cur = aval{k: vSync, path: path}
			b.loc(path, ft)
			continue
		}
		if ptr, ok := b.samePkgStruct(ft); ok {
			if ptr {
				if last && write {
					fs = b.acc(a, fs, path, ft, "MWrite", p)
				} else {
					fs = b.acc(a, fs, path, ft, "MRead", p)
				}
			} else if last && write {
				fs = b.acc(a, fs, path, ft, "MWrite", p) // whole-struct assignment
			}
			cur = aval{k: vConn, path: path}
			continue
		}
		if last && write {
			fs = b.acc(a, fs, path, ft, "MWrite", p)
		} else {
			fs = b.acc(a, fs, path, ft, "MRead", p)
		}
		if isRefType(ft) {
			cur = aval{k: vRef, path: path}
		} else {
			cur = aval{}
		}
	}
	return fs, cur, curT
}

func (b *lkB) typeOf(e ast.Expr) types.Type {
	if tv, ok := b.info.Types[e]; ok && tv.Type != nil {
		return tv.Type
	}
	if id, ok := e.(*ast.Ident); ok {
		if o := b.info.ObjectOf(id); o != nil {
			return o.Type()
		}
	}
	return types.Typ[types.Invalid]
}

// use of the referent of a tracked reference (index, deref, len, range, delete ...)
func (b *lkB) useRef(a *lkAct, fs []fr, v aval, write bool, p token.Pos) []fr {
	if v.k != vRef && v.k != vAddr {
		return fs
	}
	i, ok := b.locIdx[v.path]
	if !ok {
		return fs
	}
	mode := "MRead"
	if write {
		mode = "MWrite"
	}
	return b.emit(fs, lkNode{Kind: "acc", Loc: i, Mode: mode, Site: b.site(p, a), Pos: p})
}

// expr evaluates e for its value.  A selector that ends on a plain field has
// already emitted the slot read; the value tells what further use means.
func (b *lkB) expr(a *lkAct, fs []fr, e ast.Expr) ([]fr, aval) {
	switch x := e.(type) {
	case nil:
		return fs, aval{}
	case *ast.ParenExpr:
		return b.expr(a, fs, x.X)
	case *ast.Ident:
		if o := b.info.ObjectOf(x); o != nil {
			if v, ok := a.lookup(o); ok {
				return fs, v
			}
			if vr, ok := o.(*types.Var); ok && vr.Pkg() == b.pkg && vr.Parent() == b.pkg.Scope() {
				if rw, ok := isMutexType(vr.Type()); ok {
					b.mu("var "+vr.Name(), rw)
					return fs, aval{k: vMu, path: "var " + vr.Name()}
				}
			}
		}
		return fs, aval{}
	case *ast.FuncLit:
		return fs, aval{k: vFunc, lit: x, env: a}
	case *ast.SelectorExpr:
		return b.selector(a, fs, x, false)
	case *ast.StarExpr:
		fs, v := b.expr(a, fs, x.X)
		if v.k == vConn || v.k == vFresh || v.k == vMu || v.k == vSync {
			return fs, v
		}
		return b.useRef(a, fs, v, false, x.Pos()), aval{}
	case *ast.UnaryExpr:
		if x.Op == token.AND {
			if cl, ok := x.X.(*ast.CompositeLit); ok {
				if n, ok := namedFrom(b.typeOf(cl), b.pkg.Path()); ok && n == connTypeName {
					fs = b.compositeFresh(a, fs, cl)
					return fs, aval{k: vFresh}
				}
			}
			fs, v := b.addr(a, fs, x.X)
			return fs, v
		}
		fs, _ = b.expr(a, fs, x.X) // includes <-ch
		return fs, aval{}
	case *ast.BinaryExpr:
		fs, _ = b.expr(a, fs, x.X)
		fs, _ = b.expr(a, fs, x.Y)
		return fs, aval{}
	case *ast.IndexExpr:
		fs, v := b.expr(a, fs, x.X)
		fs, _ = b.expr(a, fs, x.Index)
		if _, isSel := ast.Unparen(x.X).(*ast.SelectorExpr); !isSel || v.k != vRef {
			fs = b.useRef(a, fs, v, false, x.Pos())
		}
		return fs, aval{}
	case *ast.SliceExpr:
		fs, v := b.expr(a, fs, x.X)
		fs = b.exprs(a, fs, []ast.Expr{x.Low, x.High, x.Max})
		if v.k == vRef {
			return fs, v
		}
		return fs, aval{}
	case *ast.TypeAssertExpr:
		fs, _ = b.expr(a, fs, x.X)
		return fs, aval{}
	case *ast.CompositeLit:
		if n, ok := namedFrom(b.typeOf(x), b.pkg.Path()); ok && n == connTypeName {
			return b.compositeFresh(a, fs, x), aval{k: vFresh}
		}
		for _, el := range x.Elts {
			if kv, ok := el.(*ast.KeyValueExpr); ok {
				fs, _ = b.expr(a, fs, kv.Value)
			} else {
				fs, _ = b.expr(a, fs, el)
			}
		}
		return fs, aval{}
	case *ast.KeyValueExpr:
		fs, _ = b.expr(a, fs, x.Value)
		return fs, aval{}
	case *ast.CallExpr:
		return b.call(a, fs, x)
	}
	return fs, aval{}
}

func (b *lkB) compositeFresh(a *lkAct, fs []fr, cl *ast.CompositeLit) []fr {
	for _, el := range cl.Elts {
		if kv, ok := el.(*ast.KeyValueExpr); ok {
			fs, _ = b.expr(a, fs, kv.Value)
		} else {
			fs, _ = b.expr(a, fs, el)
		}
	}
	return fs
}

// selector: x.f (field) — method values are not followed
func (b *lkB) selector(a *lkAct, fs []fr, x *ast.SelectorExpr, write bool) ([]fr, aval) {
	sel, ok := b.info.Selections[x]
	if !ok { // qualified identifier pkg.Name
		return fs, aval{}
	}
	var base aval
	if write {
		fs, base = b.lbase(a, fs, x.X)
	} else {
		fs, base = b.expr(a, fs, x.X)
	}
	if sel.Kind() != types.FieldVal {
		return fs, aval{}
	}
	if base.k != vConn && base.k != vFresh {
		return fs, aval{}
	}
	fs, v, _ := b.field(a, fs, base, sel.Recv(), sel.Index(), write, x.Sel.Pos())
	return fs, v
}

// lbase: the base of an lvalue selector/index is evaluated like a value, except that a struct location is only descended
func (b *lkB) lbase(a *lkAct, fs []fr, e ast.Expr) ([]fr, aval) {
	return b.expr(a, fs, e)
}

// addr: &e
func (b *lkB) addr(a *lkAct, fs []fr, e ast.Expr) ([]fr, aval) {
	switch x := ast.Unparen(e).(type) {
	case *ast.SelectorExpr:
		sel, ok := b.info.Selections[x]
		if !ok || sel.Kind() != types.FieldVal {
			return b.expr(a, fs, e)
		}
		fs, base := b.expr(a, fs, x.X)
		if base.k != vConn && base.k != vFresh {
			return fs, aval{}
		}
		// walk without emitting the final slot access: taking an address is not an access
		idx := sel.Index()
		if len(idx) > 1 {
			var t types.Type
			fs, base, t = b.field(a, fs, base, sel.Recv(), idx[:len(idx)-1], false, x.Sel.Pos())
			if base.k != vConn {
				return fs, aval{}
			}
			return b.addrLast(a, fs, base, t, idx[len(idx)-1])
		}
		return b.addrLast(a, fs, base, sel.Recv(), idx[0])
	case *ast.Ident:
		return b.expr(a, fs, x)
	}
	fs, _ = b.expr(a, fs, e)
	return fs, aval{}
}

func (b *lkB) addrLast(a *lkAct, fs []fr, base aval, baseT types.Type, k int) ([]fr, aval) {
	st := baseT
	if pt, ok := st.Underlying().(*types.Pointer); ok {
		st = pt.Elem()
	}
	s, ok := st.Underlying().(*types.Struct)
	if !ok || k >= s.NumFields() || base.k != vConn {
		return fs, aval{}
	}
	f := s.Field(k)
	path := f.Name()
	if base.path != "" {
		path = base.path + "." + f.Name()
	}
	if rw, ok := isMutexType(f.Type()); ok {
		if _, isPtr := f.Type().(*types.Pointer); !isPtr {
			b.mu(path, rw)
			return fs, aval{k: vMu, path: path}
		}
	}
	if isSyncType(f.Type()) {
		b.loc(path, f.Type())
		return fs, aval{k: vSync, path: path}
	}
	if _, ok := b.samePkgStruct(f.Type()); ok {
		if _, isPtr := f.Type().(*types.Pointer); !isPtr {
			return fs, aval{k: vConn, path: path}
		}
	}
	b.loc(path, f.Type())
	return fs, aval{k: vAddr, path: path}
}

// assign: evaluate an lvalue as the target of a write
func (b *lkB) assign(a *lkAct, fs []fr, lhs ast.Expr, rhs aval, define bool, alsoRead bool) []fr {
	switch x := ast.Unparen(lhs).(type) {
	case *ast.Ident:
		if x.Name == "_" {
			return fs
		}
		o := b.info.ObjectOf(x)
		if o == nil {
			return fs
		}
		if old, ok := a.lookup(o); ok && !define && (old.k != rhs.k || old.path != rhs.path) {
			if old.k != vNone || rhs.k != vNone {
				// rebinding a tracked alias: forget it, and say so if it mattered
				if old.k == vMu || rhs.k == vMu {
					b.bad("%s: a mutex alias is re-assigned", b.site(x.Pos(), a))
				}
				rhs = aval{}
			}
		}
		if rhs.k != vNone || define {
			for s := a; s != nil; s = s.lexical {
				if _, ok := s.env[o]; ok || s.lexical == nil || define {
					if define {
						a.env[o] = rhs
					} else {
						s.env[o] = rhs
					}
					break
				}
			}
		}
		return fs
	case *ast.SelectorExpr:
		if alsoRead {
			fs, _ = b.selector(a, fs, x, false)
		}
		fs, _ = b.selector(a, fs, x, true)
		return fs
	case *ast.IndexExpr:
		fs, v := b.expr(a, fs, x.X) // slot read of the container
		fs, _ = b.expr(a, fs, x.Index)
		return b.useRef(a, fs, v, true, x.Pos())
	case *ast.StarExpr:
		fs, v := b.expr(a, fs, x.X)
		return b.useRef(a, fs, v, true, x.Pos())
	}
	fs, _ = b.expr(a, fs, lhs)
	return fs
}

// ---------------------------------------------------------------- calls
func (b *lkB) call(a *lkAct, fs []fr, c *ast.CallExpr) ([]fr, aval) {
	fun := ast.Unparen(c.Fun)
	// conversions
	if tv, ok := b.info.Types[fun]; ok && tv.IsType() {
		if len(c.Args) == 1 {
			return b.expr(a, fs, c.Args[0])
		}
		return fs, aval{}
	}
	switch f := fun.(type) {
	case *ast.FuncLit:
		fs, args := b.args(a, fs, c.Args)
		return b.inlineLit(a, fs, f, a, args)
	case *ast.Ident:
		switch o := b.info.ObjectOf(f).(type) {
		case *types.Builtin:
			return b.builtin(a, fs, o.Name(), c)
		case *types.Func:
			fs, args := b.args(a, fs, c.Args)
			if d, ok := b.decls[o]; ok {
				return b.inlineDecl(a, fs, o, d, aval{}, args)
			}
			return b.external(a, fs, o, aval{}, args, c), aval{}
		case *types.Var:
			if v, ok := a.lookup(o); ok && v.k == vFunc {
				fs, args := b.args(a, fs, c.Args)
				return b.inlineLit(a, fs, v.lit, v.env, args)
			}
		}
		fs, _ = b.args(a, fs, c.Args)
		return fs, aval{} // a call through a function value: its body is not Conn code we can see here
	case *ast.SelectorExpr:
		sel, isSel := b.info.Selections[f]
		if !isSel { // pkg.Func
			o, _ := b.info.ObjectOf(f.Sel).(*types.Func)
			fs, args := b.args(a, fs, c.Args)
			if o != nil {
				if d, ok := b.decls[o]; ok {
					return b.inlineDecl(a, fs, o, d, aval{}, args)
				}
				return b.external(a, fs, o, aval{}, args, c), aval{}
			}
			return fs, aval{}
		}
		if sel.Kind() == types.FieldVal { // calling a function stored in a field: slot read, body unknown
			fs, _ = b.selector(a, fs, f, false)
			fs, _ = b.args(a, fs, c.Args)
			return fs, aval{}
		}
		// method call: receiver, implicit embedded fields
		fs, recv := b.expr(a, fs, f.X)
		idx := sel.Index()
		if len(idx) > 1 && (recv.k == vConn || recv.k == vFresh) {
			fs, recv, _ = b.field(a, fs, recv, sel.Recv(), idx[:len(idx)-1], false, f.Sel.Pos())
		} else if len(idx) > 1 {
			recv = aval{}
		}
		m, _ := sel.Obj().(*types.Func)
		fs, args := b.args(a, fs, c.Args)
		if m == nil {
			return fs, aval{}
		}
		if m.Pkg() != nil && m.Pkg().Path() == "sync" {
			if rt := m.Type().(*types.Signature).Recv(); rt != nil {
				if _, isMu := isMutexType(rt.Type()); isMu {
					return b.lockOp(a, fs, recv, m.Name(), c), aval{}
				}
			}
		}
		if d, ok := b.decls[m]; ok {
			return b.inlineDecl(a, fs, m, d, recv, args)
		}
		if recv.k == vSync && m.Name() == "Do" && len(args) == 1 && args[0].k == vFunc {
			if rt := m.Type().(*types.Signature).Recv(); rt != nil {
				if n, ok := namedFrom(rt.Type(), "sync"); ok && n == "Once" {
					return b.onceDo(a, fs, recv.path, args[0], c), aval{}
				}
			}
		}
		if recv.k == vSync {
			mode := "MWrite"
			switch m.Name() {
			case "Load", "Range", "Wait", "Len":
				mode = "MRead"
			}
			if i, ok := b.locIdx[recv.path]; ok {
				fs = b.emit(fs, lkNode{Kind: "acc", Loc: i, Mode: mode, Site: b.site(c.Pos(), a), Pos: c.Pos()})
			}
			// sync.Once.Do(f), sync.Map.Range(f): the literal runs in this goroutine
			for _, av := range args {
				if av.k == vFunc {
					var r aval
					skip := fs
					fs, r = b.inlineLit(a, fs, av.lit, av.env, nil)
					_ = r
					fs = append(fs, skip...)
				}
			}
			return fs, aval{}
		}
		return b.external(a, fs, m, recv, args, c), aval{}
	}
	fs, _ = b.expr(a, fs, fun)
	fs, _ = b.args(a, fs, c.Args)
	return fs, aval{}
}

func (b *lkB) args(a *lkAct, fs []fr, es []ast.Expr) ([]fr, []aval) {
	out := make([]aval, len(es))
	for i, e := range es {
		fs, out[i] = b.expr(a, fs, e)
	}
	return fs, out
}

func (b *lkB) lockOp(a *lkAct, fs []fr, recv aval, name string, c *ast.CallExpr) []fr {
	if recv.k != vMu {
		b.bad("%s: %s on a mutex that is not part of the connection state (local or unknown): not interpreted", b.site(c.Pos(), a), name)
		return fs
	}
	m := b.muIdx[recv.path]
	switch name {
	case "Lock":
		return b.emit(fs, lkNode{Kind: "lock", M: m, Excl: true, Site: b.site(c.Pos(), a), Pos: c.Pos()})
	case "RLock":
		return b.emit(fs, lkNode{Kind: "lock", M: m, Excl: false, Site: b.site(c.Pos(), a), Pos: c.Pos()})
	case "Unlock":
		return b.emit(fs, lkNode{Kind: "unlock", M: m, Excl: true, Site: b.site(c.Pos(), a), Pos: c.Pos()})
	case "RUnlock":
		return b.emit(fs, lkNode{Kind: "unlock", M: m, Excl: false, Site: b.site(c.Pos(), a), Pos: c.Pos()})
	}
	b.bad("%s: %s on a mutex of the connection: not interpreted", b.site(c.Pos(), a), name)
	return fs
}

// onceDo: sync.Once.Do(f).  The completion of f happens before the return of every Do; f runs at most once.  In
// lock terms: f runs holding the Once exclusively, and whoever has returned from Do holds it shared from then on
// (never released: f cannot run again).  Conflicting accesses inside f and after a Do are thereby excluded, as
// they are in Go; accesses after Do in different goroutines are not ordered among themselves.
func (b *lkB) onceDo(a *lkAct, fs []fr, path string, f aval, c *ast.CallExpr) []fr {
	m := b.mu("once "+path, true)
	b.t.Mus[m].Once = true
	var pass, todo []fr
	for _, x := range mergeFrs(fs) {
		if x.ls.find(m) >= 0 {
			pass = append(pass, x) // this goroutine has been through Do already: f does not run
		} else {
			todo = append(todo, x)
		}
	}
	if len(todo) > 0 {
		site := b.site(c.Pos(), a)
		skip := b.emit(cloneFrs(todo), lkNode{Kind: "lock", M: m, Excl: false, Site: site + " Once.Do (already done)", Pos: c.Pos()})
		run := b.emit(todo, lkNode{Kind: "lock", M: m, Excl: true, Site: site + " Once.Do (runs f)", Pos: c.Pos()})
		run, _ = b.inlineLit(a, run, f.lit, f.env, nil)
		run = b.emit(run, lkNode{Kind: "unlock", M: m, Excl: true, Site: site + " Once.Do (f done)", Pos: c.Pos()})
		run = b.emit(run, lkNode{Kind: "lock", M: m, Excl: false, Site: site + " Once.Do (done)", Pos: c.Pos()})
		pass = append(append(pass, skip...), run...)
	}
	return mergeFrs(pass)
}

func (b *lkB) external(a *lkAct, fs []fr, f *types.Func, recv aval, args []aval, c *ast.CallExpr) []fr {
	atomicPkg := f.Pkg() != nil && f.Pkg().Path() == "sync/atomic"
	for i, v := range args {
		switch v.k {
		case vAddr:
			li, ok := b.locIdx[v.path]
			if !ok {
				continue
			}
			mode := "MWrite" // an address handed to code we do not see: assume it writes
			if atomicPkg && i == 0 {
				mode = "MAtomicWrite"
				if strings.HasPrefix(f.Name(), "Load") {
					mode = "MAtomicRead"
				}
			}
			fs = b.emit(fs, lkNode{Kind: "acc", Loc: li, Mode: mode, Site: b.site(c.Pos(), a), Pos: c.Pos()})
		case vRef:
			fs = b.useRef(a, fs, v, false, c.Pos()) // a map/slice handed out: read at least
		case vFunc:
			b.spawned = append(b.spawned, spawn{name: fmt.Sprintf("%s.func@%d", a.name, b.fset.Position(v.lit.Pos()).Line), readme: b.cur.Readme, lit: v.lit, act: v.env})
		}
	}
	return fs
}

func (b *lkB) builtin(a *lkAct, fs []fr, name string, c *ast.CallExpr) ([]fr, aval) {
	switch name {
	case "delete", "clear":
		if len(c.Args) > 0 {
			fs, v := b.expr(a, fs, c.Args[0])
			fs = b.exprs(a, fs, c.Args[1:])
			return b.useRef(a, fs, v, true, c.Pos()), aval{}
		}
	case "len", "cap":
		fs, v := b.expr(a, fs, c.Args[0])
		if _, isSel := ast.Unparen(c.Args[0]).(*ast.SelectorExpr); !isSel {
			fs = b.useRef(a, fs, v, false, c.Pos())
		}
		return fs, aval{}
	case "append":
		fs, v := b.expr(a, fs, c.Args[0])
		fs = b.exprs(a, fs, c.Args[1:])
		fs = b.useRef(a, fs, v, true, c.Pos()) // may write into spare capacity of the shared backing array
		return fs, aval{}
	case "copy":
		fs, d := b.expr(a, fs, c.Args[0])
		fs, s := b.expr(a, fs, c.Args[1])
		fs = b.useRef(a, fs, s, false, c.Pos())
		return b.useRef(a, fs, d, true, c.Pos()), aval{}
	}
	fs, args := b.args(a, fs, c.Args)
	for _, v := range args {
		if v.k == vFunc {
			_ = v
		}
	}
	return fs, aval{}
}

func (b *lkB) inlineDecl(a *lkAct, fs []fr, f *types.Func, d *ast.FuncDecl, recv aval, args []aval) ([]fr, aval) {
	if d.Body == nil {
		return fs, aval{}
	}
	for x := a; x != nil; x = x.up {
		if x.decl == f {
			b.bad("%s: recursive call of %s is not followed", b.site(d.Pos(), a), f.Name())
			return fs, aval{}
		}
	}
	if b.depth > 12 {
		b.bad("call depth exceeded at %s", f.Name())
		return fs, aval{}
	}
	na := &lkAct{name: f.Name(), env: map[types.Object]aval{}, decl: f, up: a}
	if d.Recv != nil && len(d.Recv.List) > 0 && len(d.Recv.List[0].Names) > 0 {
		if o := b.info.Defs[d.Recv.List[0].Names[0]]; o != nil {
			na.env[o] = recv
		}
	}
	i := 0
	for _, p := range d.Type.Params.List {
		for _, n := range p.Names {
			if o := b.info.Defs[n]; o != nil && i < len(args) {
				na.env[o] = args[i]
			}
			i++
		}
	}
	return b.runBody(na, fs, d.Body)
}

func (b *lkB) inlineLit(a *lkAct, fs []fr, lit *ast.FuncLit, env *lkAct, args []aval) ([]fr, aval) {
	if b.depth > 12 {
		b.bad("call depth exceeded in a function literal")
		return fs, aval{}
	}
	for x := a; x != nil; x = x.up {
		if x.name == fmt.Sprintf("func@%d", lit.Pos()) {
			b.bad("%s: recursive function literal is not followed", b.site(lit.Pos(), a))
			return fs, aval{}
		}
	}
	encl := a.name
	if env != nil {
		encl = env.name
	}
	_ = encl
	na := &lkAct{name: fmt.Sprintf("func@%d", lit.Pos()), env: map[types.Object]aval{}, lexical: env, up: a}
	i := 0
	for _, p := range lit.Type.Params.List {
		for _, n := range p.Names {
			if o := b.info.Defs[n]; o != nil && i < len(args) {
				na.env[o] = args[i]
			}
			i++
		}
	}
	fs, v := b.runBody(na, fs, lit.Body)
	return fs, v
}

func (b *lkB) runBody(na *lkAct, fs []fr, body *ast.BlockStmt) ([]fr, aval) {
	b.depth++
	defer func() { b.depth-- }()
	if strings.HasPrefix(na.name, "func@") {
		p := b.fset.Position(body.Pos())
		up := ""
		if na.lexical != nil {
			up = na.lexical.name
		}
		na.name = fmt.Sprintf("%s.func@%d", up, p.Line)
	}
	in := make([]fr, len(fs))
	for i, f := range fs {
		in[i] = fr{f.tails, f.ls, append(append([][]dcall(nil), f.defers...), nil)}
	}
	out := b.stmts(na, in, body.List)
	b.doReturn(na, out)
	res := make([]fr, 0, len(na.rets))
	for _, f := range na.rets {
		res = append(res, fr{f.tails, f.ls, f.defers[:len(f.defers)-1]})
	}
	return mergeFrs(res), na.retVal
}

// doReturn: run the defers registered on this path (LIFO), then hand the frontier to the caller
func (b *lkB) doReturn(a *lkAct, fs []fr) {
	for _, f := range mergeFrs(fs) {
		cur := []fr{f}
		st := f.defers[len(f.defers)-1]
		for i := len(st) - 1; i >= 0; i-- {
			// while a deferred call runs, the remaining defers are those below it
			for j := range cur {
				ds := append([][]dcall(nil), cur[j].defers...)
				ds[len(ds)-1] = st[:i]
				cur[j].defers = ds
			}
			cur, _ = b.call(st[i].act, cur, st[i].call)
			cur = mergeFrs(cur)
		}
		for j := range cur {
			ds := append([][]dcall(nil), cur[j].defers...)
			ds[len(ds)-1] = nil
			cur[j].defers = ds
		}
		a.rets = append(a.rets, cur...)
	}
}

// ---------------------------------------------------------------- statements
func (b *lkB) stmts(a *lkAct, fs []fr, list []ast.Stmt) []fr {
	for _, s := range list {
		if len(fs) == 0 {
			return fs
		}
		fs = b.stmt(a, fs, s, "")
	}
	return fs
}

func (b *lkB) findLoop(a *lkAct, label string, needLoop bool) *loopCtx {
	for i := len(a.loops) - 1; i >= 0; i-- {
		l := a.loops[i]
		if label != "" {
			if l.label == label {
				return l
			}
			continue
		}
		if !needLoop || l.isLoop {
			return l
		}
	}
	return nil
}

func (b *lkB) stmt(a *lkAct, fs []fr, s ast.Stmt, label string) []fr {
	switch x := s.(type) {
	case nil, *ast.EmptyStmt:
		return fs
	case *ast.ExprStmt:
		fs, _ = b.expr(a, fs, x.X)
		return fs
	case *ast.SendStmt:
		fs, _ = b.expr(a, fs, x.Chan)
		fs, _ = b.expr(a, fs, x.Value)
		return fs
	case *ast.IncDecStmt:
		return b.assign(a, fs, x.X, aval{}, false, true)
	case *ast.AssignStmt:
		vals := make([]aval, len(x.Lhs))
		if len(x.Rhs) == len(x.Lhs) {
			for i, r := range x.Rhs {
				fs, vals[i] = b.expr(a, fs, r)
			}
		} else {
			fs = b.exprs(a, fs, x.Rhs)
		}
		for i, l := range x.Lhs {
			def := x.Tok == token.DEFINE
			if def {
				if id, ok := l.(*ast.Ident); ok && b.info.Defs[id] == nil {
					def = false // re-assignment inside :=
				}
			}
			fs = b.assign(a, fs, l, vals[i], def, x.Tok != token.ASSIGN && x.Tok != token.DEFINE)
			if _, isId := l.(*ast.Ident); !isId && vals[i].k == vFunc {
				// a function literal stored where another goroutine can pick it up: it runs as its own thread
				b.spawned = append(b.spawned, spawn{name: fmt.Sprintf("%s.func@%d", a.name, b.fset.Position(vals[i].lit.Pos()).Line), readme: b.cur.Readme, lit: vals[i].lit, act: vals[i].env})
			}
		}
		return fs
	case *ast.DeclStmt:
		if gd, ok := x.Decl.(*ast.GenDecl); ok {
			for _, sp := range gd.Specs {
				if vs, ok := sp.(*ast.ValueSpec); ok {
					for i, n := range vs.Names {
						var v aval
						if i < len(vs.Values) {
							fs, v = b.expr(a, fs, vs.Values[i])
						}
						if o := b.info.Defs[n]; o != nil {
							if _, isMu := isMutexType(o.Type()); isMu && v.k == vNone {
								v = aval{} // a local mutex: lock operations on it are reported when met
							}
							a.env[o] = v
						}
					}
				}
			}
		}
		return fs
	case *ast.BlockStmt:
		return b.stmts(a, fs, x.List)
	case *ast.LabeledStmt:
		return b.stmt(a, fs, x.Stmt, x.Label.Name)
	case *ast.ReturnStmt:
		var v aval
		for _, r := range x.Results {
			fs, v = b.expr(a, fs, r)
		}
		if len(x.Results) == 1 {
			a.retVal = v
		}
		b.doReturn(a, fs)
		return nil
	case *ast.BranchStmt:
		lbl := ""
		if x.Label != nil {
			lbl = x.Label.Name
		}
		switch x.Tok {
		case token.BREAK:
			if l := b.findLoop(a, lbl, false); l != nil {
				l.breaks = append(l.breaks, fs...)
				return nil
			}
		case token.CONTINUE:
			if l := b.findLoop(a, lbl, true); l != nil {
				l.conts = append(l.conts, fs...)
				return nil
			}
		}
		b.bad("%s: %s is not interpreted", b.site(x.Pos(), a), x.Tok)
		return nil
	case *ast.DeferStmt:
		// a deferred literal is kept as is; its body runs at return
		out := make([]fr, len(fs))
		for i, f := range fs {
			ds := append([][]dcall(nil), f.defers...)
			top := append(append([]dcall(nil), ds[len(ds)-1]...), dcall{x.Call, a})
			ds[len(ds)-1] = top
			out[i] = fr{f.tails, f.ls, ds}
		}
		return out
	case *ast.GoStmt:
		// arguments are evaluated here; the body is another goroutine: its own entry
		fs, _ = b.args(a, fs, x.Call.Args)
		b.spawned = append(b.spawned, spawn{name: fmt.Sprintf("go@%s", b.site(x.Pos(), a)), readme: b.cur.Readme, call: x.Call, act: a})
		for o, v := range a.env {
			if v.k == vFresh {
				a.env[o] = aval{k: vConn}
			}
		}
		return fs
	case *ast.IfStmt:
		fs = b.stmt(a, fs, x.Init, "")
		fs, _ = b.expr(a, fs, x.Cond)
		fs = mergeFrs(fs)
		thenFs := b.stmts(a, cloneFrs(fs), x.Body.List)
		var elseFs []fr
		if x.Else != nil {
			elseFs = b.stmt(a, cloneFrs(fs), x.Else, "")
		} else {
			elseFs = fs
		}
		return mergeFrs(append(thenFs, elseFs...))
	case *ast.ForStmt:
		fs = b.stmt(a, fs, x.Init, "")
		return b.loop(a, fs, label, x.Pos(), func(in []fr) (body []fr, exit []fr) {
			if x.Cond != nil {
				in, _ = b.expr(a, in, x.Cond)
				exit = cloneFrs(in)
			}
			return in, exit
		}, x.Body, x.Post)
	case *ast.RangeStmt:
		fs, v := b.expr(a, fs, x.X)
		if _, isSel := ast.Unparen(x.X).(*ast.SelectorExpr); !isSel {
			fs = b.useRef(a, fs, v, false, x.Pos())
		}
		return b.loop(a, fs, label, x.Pos(), func(in []fr) ([]fr, []fr) {
			exit := cloneFrs(in)
			if v.k == vRef {
				in = b.useRef(a, in, v, false, x.Pos()) // every iteration reads the container
			}
			if x.Key != nil {
				in = b.assign(a, in, x.Key, aval{}, x.Tok == token.DEFINE, false)
			}
			if x.Value != nil {
				in = b.assign(a, in, x.Value, aval{}, x.Tok == token.DEFINE, false)
			}
			return in, exit
		}, x.Body, nil)
	case *ast.SwitchStmt:
		fs = b.stmt(a, fs, x.Init, "")
		fs, _ = b.expr(a, fs, x.Tag)
		return b.clauses(a, fs, label, x.Body, false)
	case *ast.TypeSwitchStmt:
		fs = b.stmt(a, fs, x.Init, "")
		switch as := x.Assign.(type) {
		case *ast.ExprStmt:
			fs, _ = b.expr(a, fs, as.X)
		case *ast.AssignStmt:
			fs = b.exprs(a, fs, as.Rhs)
		}
		return b.clauses(a, fs, label, x.Body, false)
	case *ast.SelectStmt:
		// channel operands and values to send are evaluated once, in source order, on entering the select
		for _, cl := range x.Body.List {
			cc := cl.(*ast.CommClause)
			switch cs := cc.Comm.(type) {
			case *ast.SendStmt:
				fs, _ = b.expr(a, fs, cs.Chan)
				fs, _ = b.expr(a, fs, cs.Value)
			case *ast.ExprStmt:
				fs, _ = b.expr(a, fs, cs.X)
			case *ast.AssignStmt:
				fs = b.exprs(a, fs, cs.Rhs)
			}
		}
		return b.clauses(a, fs, label, x.Body, true)
	}
	b.bad("%s: statement %T is not interpreted", b.site(s.Pos(), a), s)
	return fs
}

func cloneFrs(fs []fr) []fr {
	out := make([]fr, len(fs))
	for i, f := range fs {
		out[i] = fr{append([]int(nil), f.tails...), f.ls, f.defers}
	}
	return out
}

func (b *lkB) clauses(a *lkAct, fs []fr, label string, body *ast.BlockStmt, isSelect bool) []fr {
	fs = mergeFrs(fs)
	ctx := &loopCtx{label: label}
	a.loops = append(a.loops, ctx)
	var out []fr
	hasDefault := false
	for _, cl := range body.List {
		in := cloneFrs(fs)
		var list []ast.Stmt
		switch c := cl.(type) {
		case *ast.CaseClause:
			if c.List == nil {
				hasDefault = true
			}
			in = b.exprs(a, in, c.List)
			list = c.Body
		case *ast.CommClause:
			if c.Comm == nil {
				hasDefault = true
			} else if as, ok := c.Comm.(*ast.AssignStmt); ok {
				for _, l := range as.Lhs {
					in = b.assign(a, in, l, aval{}, as.Tok == token.DEFINE, false)
				}
			}
			list = c.Body
		}
		for _, s := range list {
			if br, ok := s.(*ast.BranchStmt); ok && br.Tok == token.FALLTHROUGH {
				b.bad("%s: fallthrough is not interpreted", b.site(br.Pos(), a))
			}
		}
		out = append(out, b.stmts(a, in, list)...)
	}
	a.loops = a.loops[:len(a.loops)-1]
	out = append(out, ctx.breaks...)
	if !hasDefault && !isSelect {
		out = append(out, fs...)
	}
	if isSelect && len(body.List) == 0 {
		return nil // select {} blocks for ever
	}
	return mergeFrs(out)
}

// loop: one head node per distinct (held set, defers) state reaching the loop; the body is walked once per state
func (b *lkB) loop(a *lkAct, fs []fr, label string, p token.Pos, head func([]fr) ([]fr, []fr), body *ast.BlockStmt, post ast.Stmt) []fr {
	heads := map[string]int{}
	var exits []fr
	pending := mergeFrs(fs)
	for rounds := 0; len(pending) > 0; rounds++ {
		if rounds > 6 {
			b.bad("%s: the set of held mutexes (or of registered defers) keeps changing from one loop iteration to the next", b.site(p, a))
			break
		}
		var next []fr
		for _, f := range pending {
			k := f.key()
			if h, ok := heads[k]; ok {
				b.connect(f.tails, h)
				continue
			}
			h := b.newNode(lkNode{Kind: "nop", LS: f.ls, Site: b.site(p, a) + " loop", Pos: p})
			b.connect(f.tails, h)
			heads[k] = h
			ctx := &loopCtx{label: label, isLoop: true}
			a.loops = append(a.loops, ctx)
			in, exit := head([]fr{{[]int{h}, f.ls, f.defers}})
			exits = append(exits, exit...)
			out := b.stmts(a, in, body.List)
			a.loops = a.loops[:len(a.loops)-1]
			out = append(out, ctx.conts...)
			if post != nil && len(out) > 0 {
				out = b.stmt(a, mergeFrs(out), post, "")
			}
			exits = append(exits, ctx.breaks...)
			next = append(next, out...)
		}
		pending = mergeFrs(next)
	}
	return mergeFrs(exits)
}

// ---------------------------------------------------------------- driver
var lkMemo *lkTable

// extractConnTable: the table of the source under $VERIF_REPO (computed once per process)
func extractConnTable() *lkTable {
	if lkMemo == nil {
		lkMemo = extractConnTable0()
	}
	return lkMemo
}

func extractConnTable0() (t *lkTable) {
	t = &lkTable{}
	defer func() {
		if e := recover(); e != nil {
			t.Err = fmt.Sprintf("extraction panicked: %v", e)
		}
	}()
	dir := verifRepo()
	fset := token.NewFileSet()
	files, _ := filepath.Glob(filepath.Join(dir, "*.go"))
	sort.Strings(files)
	var afs []*ast.File
	for _, f := range files {
		if strings.HasSuffix(f, "_test.go") {
			continue
		}
		af, err := parser.ParseFile(fset, f, nil, 0)
		if err != nil {
			t.Err = "parse: " + err.Error()
			return
		}
		afs = append(afs, af)
	}
	if len(afs) == 0 {
		t.Err = "no Go files in " + dir
		return
	}
	wd, _ := os.Getwd()
	_ = os.Chdir(dir) // the source importer resolves the module's own packages relative to the working directory
	defer func() { _ = os.Chdir(wd) }()
	var terrs []string
	conf := types.Config{Importer: importer.ForCompiler(fset, "source", nil), Error: func(err error) { terrs = append(terrs, err.Error()) }}
	info := &types.Info{Types: map[ast.Expr]types.TypeAndValue{}, Defs: map[*ast.Ident]types.Object{}, Uses: map[*ast.Ident]types.Object{},
		Selections: map[*ast.SelectorExpr]*types.Selection{}}
	pkg, _ := conf.Check(afs[0].Name.Name, fset, afs, info)
	if pkg == nil {
		t.Err = "type check failed: " + strings.Join(terrs, "; ")
		return
	}
	if len(terrs) > 0 {
		t.Notes = append(t.Notes, "type errors (analysis continues): "+head(strings.Join(terrs, "; "), 300))
	}
	b := &lkB{fset: fset, info: info, pkg: pkg, decls: map[*types.Func]*ast.FuncDecl{}, t: t, locIdx: map[string]int{}, muIdx: map[string]int{}}
	connObj := pkg.Scope().Lookup(connTypeName)
	if connObj == nil {
		t.Err = "type " + connTypeName + " not found in the root package"
		return
	}
	var order []*ast.FuncDecl
	for _, af := range afs {
		for _, d := range af.Decls {
			if fd, ok := d.(*ast.FuncDecl); ok && fd.Body != nil {
				if o, ok := info.Defs[fd.Name].(*types.Func); ok {
					b.decls[o] = fd
					order = append(order, fd)
				}
			}
		}
	}
	isConnMethod := func(fd *ast.FuncDecl) bool {
		if fd.Recv == nil || len(fd.Recv.List) == 0 {
			return false
		}
		n, ok := namedFrom(b.typeOf(fd.Recv.List[0].Type), pkg.Path())
		return ok && n == connTypeName
	}
	runEntry := func(name string, multi, readme bool, build func(a *lkAct, fs []fr) []fr) {
		e := &lkEntry{ID: len(t.Entries), Name: name, Multi: multi, Readme: readme}
		t.Entries = append(t.Entries, e)
		b.cur = e
		start := b.newNode(lkNode{Kind: "nop", Site: name + " entry"})
		e.Start = start
		root := &lkAct{name: name, env: map[types.Object]aval{}}
		out := build(root, []fr{{[]int{start}, nil, [][]dcall{nil}}})
		for _, f := range mergeFrs(out) {
			for _, h := range f.ls {
				if !t.Mus[h.M].Once {
					b.bad("%s: returns on some syntactic path with a mutex still held", name)
				}
			}
			exit := b.newNode(lkNode{Kind: "nop", LS: f.ls, Site: name + " return"})
			b.connect(f.tails, exit)
		}
	}
	declEntry := func(fd *ast.FuncDecl, multi, readme bool) {
		o := info.Defs[fd.Name].(*types.Func)
		runEntry(fd.Name.Name, multi, readme, func(root *lkAct, fs []fr) []fr {
			recv := aval{}
			if isConnMethod(fd) {
				recv = aval{k: vConn}
			}
			var args []aval
			for _, p := range fd.Type.Params.List {
				for range p.Names {
					v := aval{}
					if n, ok := namedFrom(b.typeOf(p.Type), pkg.Path()); ok && n == connTypeName {
						v = aval{k: vConn}
					}
					args = append(args, v)
				}
			}
			out, _ := b.inlineDecl(root, fs, o, fd, recv, args)
			return out
		})
	}
	// README roles first, in a fixed order
	var roleNames []string
	for n := range readmeRoles {
		roleNames = append(roleNames, n)
	}
	sort.Strings(roleNames)
	isRole := map[*ast.FuncDecl]bool{}
	for _, n := range roleNames {
		found := false
		for _, fd := range order {
			if fd.Name.Name == n && isConnMethod(fd) {
				isRole[fd] = true
				found = true
				declEntry(fd, readmeRoles[n], true)
			}
		}
		if !found {
			t.Notes = append(t.Notes, "README role "+n+" is not a method of "+connTypeName+" in the source")
		}
	}
	// goroutines started and closures handed out by README roles run as their own threads
	seenSpawn := map[string]bool{}
	for i := 0; i < len(b.spawned) && i < 60; i++ {
		sp := b.spawned[i]
		sk := fmt.Sprintf("%p/%p", sp.lit, sp.call)
		if seenSpawn[sk] {
			continue
		}
		seenSpawn[sk] = true
		runEntry(sp.name, true, sp.readme, func(root *lkAct, fs []fr) []fr {
			root.lexical = sp.act
			if sp.lit != nil {
				out, _ := b.inlineLit(root, fs, sp.lit, sp.act, nil)
				return out
			}
			out, _ := b.call(sp.act, fs, sp.call)
			return out
		})
	}
	// everything else that is exported: callable by the application, but not part of the README usage
	nSp := len(b.spawned)
	for _, fd := range order {
		if !isRole[fd] && fd.Name.IsExported() {
			declEntry(fd, true, false)
		}
	}
	b.spawned = b.spawned[:nSp]
	return
}

// ---------------------------------------------------------------- verdict (the same computation as table_ok in Coq)
func modeWrite(m string) bool  { return m == "MWrite" || m == "MAtomicWrite" }
func modeAtomic(m string) bool { return m == "MAtomicRead" || m == "MAtomicWrite" }
func modesConflict(a, b string) bool {
	if modeAtomic(a) && modeAtomic(b) {
		return false
	}
	return modeWrite(a) || modeWrite(b)
}

func shareLock(a, b lkLS) bool {
	for _, x := range a {
		for _, y := range b {
			if x.M == y.M && (x.Excl || y.Excl) {
				return true
			}
		}
	}
	return false
}

type lkConflict struct {
	Loc    int
	N1, N2 *lkNode
}

// conflicts: pairs of access nodes on the same plain location, conflicting modes, entries that may run in different
// goroutines at the same time, no common mutex.  readme selects the README roles only.
func (t *lkTable) conflicts(readme bool) (out []lkConflict) {
	var accs []*lkNode
	for _, n := range t.Nodes {
		e := t.Entries[n.Entry]
		if n.Kind == "acc" && !t.Locs[n.Loc].Sync && (e.Readme || !readme) {
			accs = append(accs, n)
		}
	}
	seen := map[string]bool{}
	for i, n1 := range accs {
		for _, n2 := range accs[i:] {
			if n1.Loc != n2.Loc || !modesConflict(n1.Mode, n2.Mode) {
				continue
			}
			e1, e2 := t.Entries[n1.Entry], t.Entries[n2.Entry]
			if e1.ID == e2.ID && !e1.Multi {
				continue
			}
			if readme != (e1.Readme && e2.Readme) {
				continue
			}
			if shareLock(n1.LS, n2.LS) {
				continue
			}
			k := fmt.Sprintf("%d|%s|%s|%s|%s", n1.Loc, e1.Name, e2.Name, n1.Site, n2.Site)
			if !seen[k] {
				seen[k] = true
				out = append(out, lkConflict{n1.Loc, n1, n2})
			}
		}
	}
	return
}

func (t *lkTable) badEntries(readme bool) (out []*lkEntry) {
	for _, e := range t.Entries {
		if len(e.Bad) > 0 && e.Readme == readme {
			out = append(out, e)
		}
	}
	return
}
