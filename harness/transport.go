package main

// Scripted transport for the connection engine (C05 C06 C14 C15 C16).
//
// Transport is a net.Conn owned by the harness.  Every boundary event between
// the library and "the network" goes through its mutex, so the harness sees a
// total order of them and can force one:
//
//   - every Write call is recorded separately (C14 counts calls per frame) and,
//     in hold mode, kept open: the octets are recorded (they "reached the
//     transport", the peer may answer from that moment) but the call does not
//     return until the harness releases it.  Writes of the reading goroutine
//     (the generic_nack frames of Watch) are never held;
//   - inbound octets become readable exactly when the harness injects them,
//     cut into pieces of chosen sizes (a Read never returns octets of two pieces);
//   - the transport knows when the library's reader sits in a Read call with
//     nothing left to read;
//   - EOF, a read error or a read timeout is delivered at a chosen point of
//     the inbound stream; a read deadline set by the library is honoured when
//     UseDeadlines is set;
//   - a Write can be made to fail without writing.
//
// A zero-length Read returns (0, nil) like a real net.Conn: ReadPDU issues one
// for header-only PDUs.

import (
	"bytes"
	"encoding/binary"
	"errors"
	"net"
	"sync"
	"time"
)

const idGenericNack = 0x80000000

type WriteRec struct {
	Idx      int
	Data     []byte
	ID       uint32 // command_id when the call carried at least a header
	Seq      int32  // sequence_number when the call carried at least a header
	Full     bool   // the call carried exactly one complete frame (command_length == len)
	ByReader bool   // written by the goroutine that reads (Watch): a generic_nack
	Changed  bool   // the caller's buffer no longer held these octets when the Write call returned
	Final    []byte // what it held then (a transport may read the buffer at any time before it returns)
	gate     chan struct{}
	held     bool
}

type timeoutErr struct{}

func (timeoutErr) Error() string   { return "scripted transport: i/o timeout" }
func (timeoutErr) Timeout() bool   { return true }
func (timeoutErr) Temporary() bool { return true }

// tempErr: a net.Error that reports Temporary() but not Timeout() (EINTR-like).
type tempErr struct{}

func (tempErr) Error() string   { return "scripted transport: resource temporarily unavailable" }
func (tempErr) Timeout() bool   { return false }
func (tempErr) Temporary() bool { return true }

var (
	errScriptedReset    = errors.New("scripted transport: connection reset by peer")
	errScriptedClosed   = errors.New("scripted transport: use of closed connection")
	errScriptedWrite    = errors.New("scripted transport: write failed")
	errScriptedDeadline = errors.New("scripted transport: cannot set the write deadline")
)

type Transport struct {
	mu   sync.Mutex
	cond *sync.Cond

	// inbound
	pieces  [][]byte // readable octets; a Read serves at most the rest of pieces[0]
	endErr  error    // returned once everything is drained; nil => Read blocks
	endOnce bool     // endErr is reported by one Read call only (a timeout: the next Read waits again)
	parked  bool
	reads   int
	closed  bool // the library called Close
	nClosed int

	UseDeadlines bool
	readDeadline time.Time
	// virtual clock mode: read deadlines are honoured against a clock only the controller advances (no sleeping).
	// The library computes deadlines from the wall clock (time.Now().Add(ReadTimeout)); what counts here is how far
	// ahead of the wall clock the deadline was when it was set: it passes once the controller has advanced that much.
	Virtual      bool
	vnow         time.Duration
	vdeadline    time.Duration // 0: none
	DeadlineSets []time.Duration // every SetReadDeadline call: virtual time of the call

	// outbound
	writes          []*WriteRec
	HoldAll         bool // every Write except those of the reading goroutine (Watch) is held until released
	readerGo        int64
	failWrite       bool           // Writes fail without recording anything
	failWriteFor    map[int64]bool // goroutines whose Writes fail without recording anything
	nFailedWrites   int
	deadlineFails   map[int64]bool // goroutines for which SetWriteDeadline fails
	nWriteDeadlines int
	// C14 free-running mode: hold every writer until another Write has been recorded or grace passes
	pairHold bool
	grace    time.Duration
}

func NewTransport() *Transport {
	t := &Transport{}
	t.cond = sync.NewCond(&t.mu)
	return t
}

// ---- net.Conn

func (t *Transport) Read(p []byte) (int, error) {
	if len(p) == 0 {
		return 0, nil
	}
	t.mu.Lock()
	defer t.mu.Unlock()
	t.reads++
	if t.readerGo == 0 {
		t.readerGo = curGoid()
	}
	for {
		if t.closed {
			t.parked = false
			return 0, errScriptedClosed
		}
		if t.Virtual && t.vdeadline > 0 && t.vnow >= t.vdeadline {
			t.parked = false
			return 0, timeoutErr{} // like a real net.Conn: a passed deadline fails the Read, data or not
		}
		if len(t.pieces) > 0 {
			n := copy(p, t.pieces[0])
			if n == len(t.pieces[0]) {
				t.pieces = t.pieces[1:]
			} else {
				t.pieces[0] = t.pieces[0][n:]
			}
			t.parked = false
			return n, nil
		}
		if t.endErr != nil {
			t.parked = false
			err := t.endErr
			if t.endOnce {
				t.endErr, t.endOnce = nil, false
			}
			return 0, err
		}
		if t.UseDeadlines && !t.readDeadline.IsZero() {
			d := time.Until(t.readDeadline)
			if d <= 0 {
				t.parked = false
				return 0, timeoutErr{}
			}
			timer := time.AfterFunc(d, func() { t.mu.Lock(); t.cond.Broadcast(); t.mu.Unlock() })
			t.parked = true
			t.cond.Broadcast()
			t.cond.Wait()
			timer.Stop()
			continue
		}
		t.parked = true
		t.cond.Broadcast()
		t.cond.Wait()
	}
}

func (t *Transport) Write(p []byte) (int, error) {
	data := append([]byte(nil), p...)
	rec := &WriteRec{Data: data}
	if len(data) >= 16 {
		rec.ID = binary.BigEndian.Uint32(data[4:8])
		rec.Seq = int32(binary.BigEndian.Uint32(data[12:16]))
		rec.Full = int(binary.BigEndian.Uint32(data[0:4])) == len(data)
	}
	gid := curGoid()
	t.mu.Lock()
	rec.ByReader = gid == t.readerGo
	if t.closed {
		t.mu.Unlock()
		return 0, errScriptedClosed
	}
	if t.failWrite || t.failWriteFor[gid] {
		t.nFailedWrites++
		t.mu.Unlock()
		return 0, errScriptedWrite
	}
	rec.Idx = len(t.writes)
	if t.HoldAll && !rec.ByReader {
		rec.gate = make(chan struct{})
		rec.held = true
	}
	t.writes = append(t.writes, rec)
	t.cond.Broadcast()
	if t.pairHold {
		deadline := time.Now().Add(t.grace)
		timer := time.AfterFunc(t.grace, func() { t.mu.Lock(); t.cond.Broadcast(); t.mu.Unlock() })
		for len(t.writes) == rec.Idx+1 && time.Now().Before(deadline) && !t.closed {
			t.cond.Wait()
		}
		timer.Stop()
	}
	gate := rec.gate
	t.mu.Unlock()
	if gate != nil {
		<-gate
	}
	// net.Conn may read p at any moment until Write returns: the buffer must still hold the frame
	if !bytes.Equal(p, data) {
		final := append([]byte(nil), p...)
		t.mu.Lock()
		rec.Changed, rec.Final = true, final
		t.mu.Unlock()
	}
	return len(p), nil
}

func (t *Transport) Close() error {
	t.mu.Lock()
	t.closed = true
	t.nClosed++
	t.cond.Broadcast()
	t.mu.Unlock()
	return nil
}

type scriptedAddr struct{}

func (scriptedAddr) Network() string { return "scripted" }
func (scriptedAddr) String() string  { return "scripted" }

func (t *Transport) LocalAddr() net.Addr         { return scriptedAddr{} }
func (t *Transport) RemoteAddr() net.Addr        { return scriptedAddr{} }
func (t *Transport) SetDeadline(time.Time) error { return nil }
func (t *Transport) SetReadDeadline(d time.Time) error {
	t.mu.Lock()
	if t.Virtual {
		t.DeadlineSets = append(t.DeadlineSets, t.vnow)
		if d.IsZero() {
			t.vdeadline = 0
		} else {
			t.vdeadline = t.vnow + time.Until(d)
		}
	}
	t.readDeadline = d
	t.cond.Broadcast()
	t.mu.Unlock()
	return nil
}
func (t *Transport) SetWriteDeadline(time.Time) error {
	gid := curGoid()
	t.mu.Lock()
	defer t.mu.Unlock()
	t.nWriteDeadlines++
	if t.deadlineFails[gid] {
		return errScriptedDeadline
	}
	return nil
}

// FailWriteDeadline: SetWriteDeadline fails for calls made by that goroutine (Write keeps working).
func (t *Transport) FailWriteDeadline(goid int64, on bool) {
	t.mu.Lock()
	if t.deadlineFails == nil {
		t.deadlineFails = map[int64]bool{}
	}
	t.deadlineFails[goid] = on
	t.mu.Unlock()
}

// FailWriteFor: Write calls made by that goroutine fail without any octet reaching the peer.
func (t *Transport) FailWriteFor(goid int64, on bool) {
	t.mu.Lock()
	if t.failWriteFor == nil {
		t.failWriteFor = map[int64]bool{}
	}
	t.failWriteFor[goid] = on
	t.mu.Unlock()
}

func (t *Transport) NFailedWrites() int {
	t.mu.Lock()
	defer t.mu.Unlock()
	return t.nFailedWrites
}

// ---- script side

// Advance moves the virtual clock (Virtual mode): a Read parked beyond its deadline fails with a timeout.
func (t *Transport) Advance(d time.Duration) {
	t.mu.Lock()
	t.vnow += d
	t.cond.Broadcast()
	t.mu.Unlock()
}

// ArmDeadlines: from now on a parked Read fails with a timeout once the read deadline set by the library has passed.
func (t *Transport) ArmDeadlines() {
	t.mu.Lock()
	t.UseDeadlines = true
	t.cond.Broadcast()
	t.mu.Unlock()
}

// ReleaseWrite lets the held Write with that index return.
func (t *Transport) ReleaseWrite(idx int) bool {
	t.mu.Lock()
	defer t.mu.Unlock()
	if idx < 0 || idx >= len(t.writes) || !t.writes[idx].held {
		return false
	}
	t.writes[idx].held = false
	close(t.writes[idx].gate)
	return true
}

// ReleaseAll lets every held Write return and stops holding (end of a run).
func (t *Transport) ReleaseAll() {
	t.mu.Lock()
	t.HoldAll = false
	t.pairHold = false
	for _, w := range t.writes {
		if w.held {
			w.held = false
			close(w.gate)
		}
	}
	t.cond.Broadcast()
	t.mu.Unlock()
}

func (t *Transport) FailWrites(on bool) {
	t.mu.Lock()
	t.failWrite = on
	t.mu.Unlock()
}

// Inject makes octets readable.  cuts are piece sizes; the rest (or everything
// when cuts is empty) forms the last piece.
func (t *Transport) Inject(b []byte, cuts []int) {
	b = append([]byte(nil), b...)
	t.mu.Lock()
	for _, c := range cuts {
		if c <= 0 || len(b) == 0 {
			continue
		}
		if c > len(b) {
			c = len(b)
		}
		t.pieces = append(t.pieces, b[:c])
		b = b[c:]
	}
	if len(b) > 0 {
		t.pieces = append(t.pieces, b)
	}
	t.cond.Broadcast()
	t.mu.Unlock()
}

// End makes Read return err (io.EOF, timeoutErr{}, errScriptedReset) once the
// octets injected so far are consumed.
func (t *Transport) End(err error) {
	t.mu.Lock()
	t.endErr = err
	t.cond.Broadcast()
	t.mu.Unlock()
}

// EndOnce: the next Read that finds nothing to read fails with err; the one after it waits again
// (a read timeout: the connection itself is still there).
func (t *Transport) EndOnce(err error) {
	t.mu.Lock()
	t.endErr, t.endOnce = err, true
	t.cond.Broadcast()
	t.mu.Unlock()
}

func (t *Transport) Writes() []*WriteRec {
	t.mu.Lock()
	defer t.mu.Unlock()
	return append([]*WriteRec(nil), t.writes...)
}

func (t *Transport) NWrites() int {
	t.mu.Lock()
	defer t.mu.Unlock()
	return len(t.writes)
}

func (t *Transport) IsClosed() bool {
	t.mu.Lock()
	defer t.mu.Unlock()
	return t.closed
}

// Parked: the reader is blocked in Read with nothing left to read.
func (t *Transport) Parked() bool {
	t.mu.Lock()
	defer t.mu.Unlock()
	return t.parked && len(t.pieces) == 0
}

func (t *Transport) Unread() int {
	t.mu.Lock()
	defer t.mu.Unlock()
	n := 0
	for _, p := range t.pieces {
		n += len(p)
	}
	return n
}

var _ net.Conn = (*Transport)(nil)
