package main

// Volume path of the pdu engine: every ReadPDU observation of a run is also
// computed by the OCaml model extracted from coq/Model/Pdu.v
// (coq/Extract/PduExtract.v, ocaml/pdu_driver.ml, built into .work/ocaml/ by
// tools/build_extract.sh; ExtrOcamlBasic only) and the two observation streams
// are diffed line by line.  A disagreement is reported through the model-case
// channel: the kernel's evaluation of the same line (so the report says which
// side the kernel takes) plus a case that is false by construction.  The
// vm_compute cases of the same run are the slice on which Go, OCaml and the
// kernel are all compared.

import (
	"encoding/hex"
	"fmt"
	"os"
	"reflect"
	"sort"
	"strings"

	"github.com/M2MGateway/go-smpp/pdu"
)

func hexOrDash(b []byte) string {
	if len(b) == 0 {
		return "-"
	}
	return hex.EncodeToString(b)
}

func canonAddrLine(a pdu.Address) string {
	return fmt.Sprintf("%d,%d,%s", a.TON, a.NPI, hexOrDash([]byte(a.No)))
}

func canonFieldLine(v reflect.Value) string {
	switch x := v.Interface().(type) {
	case pdu.Header:
		return fmt.Sprintf("H:%d,%d,%d,%d", x.CommandLength, uint32(x.CommandID), uint32(x.CommandStatus), x.Sequence)
	case pdu.ESMClass:
		return fmt.Sprintf("E:%d,%d,%d,%d", x.MessageMode, x.MessageType, b2i(x.UDHIndicator), b2i(x.ReplyPath))
	case pdu.RegisteredDelivery:
		return fmt.Sprintf("R:%d,%d,%d,%d", x.MCDeliveryReceipt, x.SMEOriginatedAcknowledgment, b2i(x.IntermediateNotification), x.Reserved)
	case pdu.Address:
		return "A:" + canonAddrLine(x)
	case pdu.DestinationAddresses:
		as := make([]string, len(x.Addresses))
		for i, a := range x.Addresses {
			as[i] = canonAddrLine(a)
		}
		ds := make([]string, len(x.DistributionList))
		for i, d := range x.DistributionList {
			ds[i] = hexOrDash([]byte(d))
		}
		return "D:" + strings.Join(as, "+") + "|" + strings.Join(ds, "+")
	case pdu.UnsuccessfulRecords:
		rs := make([]string, len(x))
		for i, r := range x {
			rs[i] = fmt.Sprintf("%s,%d", canonAddrLine(r.DestAddr), uint32(r.ErrorStatusCode))
		}
		return "U:" + strings.Join(rs, "+")
	case pdu.ShortMessage:
		u := "-"
		if x.UDHeader != nil {
			u = "~"
			if len(x.UDHeader) > 0 {
				keys := make([]int, 0, len(x.UDHeader))
				for k := range x.UDHeader {
					keys = append(keys, int(k))
				}
				sort.Ints(keys)
				items := make([]string, len(keys))
				for i, k := range keys {
					items[i] = fmt.Sprintf("%d=%s", k, hexOrDash(x.UDHeader[byte(k)]))
				}
				u = strings.Join(items, "+")
			}
		}
		return fmt.Sprintf("M:%d,%d,%s,%s", x.DefaultMessageID, byte(x.DataCoding), u, hexOrDash(x.Message))
	case pdu.Tags:
		if len(x) == 0 {
			return "T:-"
		}
		keys := make([]int, 0, len(x))
		for k := range x {
			keys = append(keys, int(k))
		}
		sort.Ints(keys)
		items := make([]string, len(keys))
		for i, k := range keys {
			items[i] = fmt.Sprintf("%d=%s", k, hexOrDash(x[uint16(k)]))
		}
		return "T:" + strings.Join(items, "+")
	}
	switch v.Kind() {
	case reflect.String:
		return "S:" + hexOrDash([]byte(v.String()))
	case reflect.Uint8:
		return fmt.Sprintf("B:%d", v.Uint())
	case reflect.Bool:
		return fmt.Sprintf("b:%d", b2i(v.Bool()))
	case reflect.Uint32, reflect.Uint16, reflect.Uint64, reflect.Uint:
		return fmt.Sprintf("X:%d", v.Uint())
	}
	return "?" + v.Type().Name()
}

func canonObsLine(o readObs) string {
	switch o.Kind {
	case "ok":
		v := reflect.ValueOf(o.PDU).Elem()
		fs := make([]string, v.NumField())
		for i := range fs {
			fs[i] = canonFieldLine(v.Field(i))
		}
		return fmt.Sprintf("ok %d %d %s", uint32(v.Field(0).Interface().(pdu.Header).CommandID), o.Consumed, strings.Join(fs, ";"))
	case "decode-err":
		h := reflect.ValueOf(o.PDU).Elem().Field(0).Interface().(pdu.Header)
		return fmt.Sprintf("decode-err %d %d %d", uint32(h.CommandID), h.Sequence, o.Consumed)
	default:
		return fmt.Sprintf("%s %d", o.Kind, o.Consumed)
	}
}

func canonObsList(os []readObs) string {
	ls := make([]string, len(os))
	for i, o := range os {
		ls[i] = canonObsLine(o)
	}
	return strings.Join(ls, " | ")
}

func schedArg(s []int) string {
	if len(s) == 0 {
		return "-"
	}
	items := make([]string, len(s))
	for i, x := range s {
		items[i] = fmt.Sprint(x)
	}
	return strings.Join(items, ",")
}

// pduVolume collects op lines and the implementation's canonical observations during a run.
type pduVolume struct {
	ops, obs, kernel []string // kernel[i]: a Gallina boolean that re-checks line i inside coqc ("" = none)
	maxLen           int      // longest input recorded (0 = 6000): the extracted list code is quadratic in the frame size
}

func (v *pduVolume) tooLong(n int) bool {
	if v.maxLen == 0 {
		return n > 6000
	}
	return n > v.maxLen
}

func (v *pduVolume) readmany(data []byte, sched []int, obs []readObs) {
	if v.tooLong(len(data)) {
		return
	}
	v.ops = append(v.ops, fmt.Sprintf("readmany %s %s", hexOrDash(data), schedArg(sched)))
	v.obs = append(v.obs, canonObsList(obs))
	k := ""
	if len(data) < 2000 {
		k = fmt.Sprintf("beq_list beq_read (run_many %s %s) %s", coqHex(data), schedTerm(sched), obsListTerm(obs))
	}
	v.kernel = append(v.kernel, k)
}

func (v *pduVolume) readone(data []byte, sched []int, o readObs) {
	if v.tooLong(len(data)) {
		return
	}
	v.ops = append(v.ops, fmt.Sprintf("readone %s %s", hexOrDash(data), schedArg(sched)))
	v.obs = append(v.obs, canonObsLine(o))
	k := ""
	if len(data) < 2000 {
		k = fmt.Sprintf("beq_read (run_read %s %s) %s", coqHex(data), schedTerm(sched), o.term())
	}
	v.kernel = append(v.kernel, k)
}

// canonValueLine: the fields of a *PDU in the driver's text form
func canonValueLine(p interface{}) string {
	v := reflect.ValueOf(p).Elem()
	fs := make([]string, v.NumField())
	for i := range fs {
		fs[i] = canonFieldLine(v.Field(i))
	}
	return strings.Join(fs, ";")
}

// marshal records one Marshal call: the value BEFORE the call (Marshal rewrites the header and
// Prepare touches the short message) and what the implementation did.
func (v *pduVolume) marshal(id uint32, valueLine, kernelTerm string, err error, panicked bool, w *recWriter) {
	if len(valueLine) > 300000 {
		return
	}
	res := "err"
	want := "(Err EOther)"
	switch {
	case panicked:
		res, want = "panic", "Panic"
	case err == nil:
		var frame []byte
		for _, c := range w.calls {
			frame = append(frame, c...)
		}
		res = "ok " + hexOrDash(frame)
		want = "(Ok " + coqHex(frame) + ")"
	}
	v.ops = append(v.ops, fmt.Sprintf("marshal %d %s", id, valueLine))
	v.obs = append(v.obs, res)
	k := ""
	if len(kernelTerm) < 6000 {
		k = fmt.Sprintf("beq_obytes (marshal %s %s) %s", layoutRef(id), kernelTerm, want)
	}
	v.kernel = append(v.kernel, k)
}

func (v *pduVolume) remarshal(frame []byte, result string) {
	v.ops = append(v.ops, "remarshal "+hexOrDash(frame))
	v.obs = append(v.obs, result)
	v.kernel = append(v.kernel, "")
}

// diff runs the extracted model on all collected lines and reports disagreements.
func (v *pduVolume) diff(r *Run) {
	if len(v.ops) == 0 {
		return
	}
	got, err := runExtracted(r, "pdu", v.ops)
	if err != nil {
		fmt.Fprintln(os.Stderr, "extracted model:", err)
		os.Exit(2) // tool error, not a verdict
	}
	bad := 0
	for i := range v.ops {
		if got[i] != v.obs[i] {
			bad++
			if bad <= 10 {
				op := v.ops[i]
				if len(op) > 1500 {
					op = op[:1500] + "…"
				}
				if v.kernel[i] != "" {
					r.Case("kernel evaluation of the line on which the extracted model and the implementation differ: "+op, v.kernel[i])
				}
				r.Case(fmt.Sprintf("EXTRACTED MODEL != IMPLEMENTATION on %s: implementation %.600q, extracted model %.600q", op, v.obs[i], got[i]), "false")
			}
		}
	}
	r.Hist["extracted-model/lines"] = len(v.ops)
	r.Hist["extracted-model/disagreements"] = bad
	r.Notes = append(r.Notes, fmt.Sprintf("extracted OCaml model of the PDU codec (ExtrOcamlBasic only) run on %d op lines of this run: %d disagreements with the implementation", len(v.ops), bad))
}
