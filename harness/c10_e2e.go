package main

// C10, end to end (compose -> combine): the parts that the real
// pdu.ComposeMultipartShortMessage produces are wrapped into deliver_sm PDUs,
// shuffled, interleaved with other traffic, and fed to the real
// pdu.CombineMultipartDeliverSM.  Direct test: exactly one callback holds parts
// of the message, it is made at the arrival of the last part, holds all parts
// in order, and the parsed payloads joined are the text.  The same histories
// are model cases (chk_history on the observed values; chk_e2e starts from the
// composition MODEL for GSM 7-bit texts).  Theorems: C10_compose_then_combine…

import (
	"bytes"
	"fmt"
	"strings"

	"github.com/M2MGateway/go-smpp/coding"
	"github.com/M2MGateway/go-smpp/pdu"
)

func wrapPart(src, dst pdu.Address, m pdu.ShortMessage) *pdu.DeliverSM {
	p := &pdu.DeliverSM{SourceAddr: src, DestAddr: dst, Message: m}
	p.ESMClass.UDHIndicator = m.UDHeader != nil
	return p
}

// overWire sends the PDU through pdu.Marshal and pdu.ReadPDU: what the combiner of a receiving
// application is fed is the DECODED value (compose -> Marshal -> ReadPDU -> combine).
func overWire(p *pdu.DeliverSM) (*pdu.DeliverSM, error) {
	var buf bytes.Buffer
	if _, err := pdu.Marshal(&buf, p); err != nil {
		return nil, err
	}
	q, err := pdu.ReadPDU(&buf)
	if err != nil {
		return nil, err
	}
	d, ok := q.(*pdu.DeliverSM)
	if !ok {
		return nil, fmt.Errorf("ReadPDU returned %T", q)
	}
	return d, nil
}

func segOfPDU(p *pdu.DeliverSM) segVal {
	var u map[byte][]byte
	if p.Message.UDHeader != nil {
		u = map[byte][]byte(p.Message.UDHeader)
	}
	return segVal{p.SourceAddr, p.DestAddr, u}
}

func e2eText(r *Rng, kind int) (string, coding.DataCoding) {
	switch kind {
	case 0: // GSM 7-bit, with extension-table characters now and then
		n := r.Pick([]int{1, 100, 160, 161, 200, 306, 307, 400, 459, 460, 700, 1000})
		var sb strings.Builder
		alpha := "abcdefghijklmnopqrstuvwxyzABCDEFGHIJKLMNOPQRSTUVWXYZ0123456789 .,!?@"
		for i := 0; i < n; i++ {
			if r.Intn(12) == 0 {
				sb.WriteRune([]rune("{}[]~^|€\\")[r.Intn(9)])
			} else {
				sb.WriteByte(alpha[r.Intn(len(alpha))])
			}
		}
		return sb.String(), coding.GSM7BitCoding
	case 1: // UCS-2
		n := r.Pick([]int{1, 70, 71, 134, 135, 200, 400})
		rs := make([]rune, n)
		pool := []rune("абвгдежзийклмнопрстуфхцчшщъыьэюя日本語テキスト漢字한국어 abc")
		for i := range rs {
			rs[i] = pool[r.Intn(len(pool))]
		}
		return string(rs), coding.UCS2Coding
	default: // Latin-1
		n := r.Pick([]int{1, 140, 141, 268, 269, 500})
		rs := make([]rune, n)
		pool := []rune("abcxyz éèàüöß ñ ç ¿¡ 0123")
		for i := range rs {
			rs[i] = pool[r.Intn(len(pool))]
		}
		return string(rs), coding.Latin1Coding
	}
}

func c10EndToEnd(r *Run) {
	a := func(no string) pdu.Address { return pdu.Address{TON: 1, NPI: 1, No: no} }
	n := r.N(160, 1500)
	for i := 0; i < n && !stallsExhausted(); i++ {
		kind := i % 3
		text, dc := e2eText(r.Rng, kind)
		ref := r.Rng.Pick([]int{0, 1, 3, 23, 255, 256, 0x0103, 0x1234, 0xFFFF, r.Rng.Intn(0x10000)})
		src, dst := a("100"), a(r.Rng.pickStr([]string{"12", "1", "200"}))
		parts, err := pdu.ComposeMultipartShortMessage(text, dc, uint16(ref))
		if err != nil || len(parts) == 0 {
			r.Count(fmt.Sprintf("e2e/refused/%d", i), false, "end-to-end/compose refused")
			continue
		}
		wire := i%2 == 1 // every second history: each PDU goes through Marshal and ReadPDU before it reaches the combiner
		in := fmt.Sprintf("e2e coding=%d ref=%d dst=%s wire=%v text=%q", byte(dc), ref, dst.No, wire, text)
		var ps []*pdu.DeliverSM
		ours := map[*pdu.DeliverSM]int{} // pointer -> part number (from 1)
		for j, m := range parts {
			p := wrapPart(src, dst, m)
			ps = append(ps, p)
			ours[p] = j + 1
		}
		nOurs := len(ps)
		// other traffic: anything not filed under (src, dst, ref)
		otherRef := (ref + 1 + r.Rng.Intn(3)) & 0xFFFF
		switch r.Rng.Intn(4) {
		case 0: // another composed message, same addresses, other reference
			t2, dc2 := e2eText(r.Rng, r.Rng.Intn(3))
			if p2, err := pdu.ComposeMultipartShortMessage(t2, dc2, uint16(otherRef)); err == nil {
				for _, m := range p2 {
					ps = append(ps, wrapPart(src, dst, m))
				}
			}
		case 1: // the same reference towards a destination whose digits collide under the old Sprint key
			d2 := a("1")
			if dst.No == "1" {
				d2 = a("12")
			}
			for q := 1; q <= 2; q++ {
				ps = append(ps, segVal{src, d2, ie0(ref&0xFF, 2, q)}.build())
			}
			for q := 1; q <= len(parts) && q < 4; q++ { // same numbering as ours, other destination
				ps = append(ps, segVal{src, d2, ie8(ref, len(parts), q)}.build())
			}
		case 2: // incomplete and malformed segments under other references, duplicates of them
			ps = append(ps, segVal{src, dst, ie8(otherRef, 3, 1)}.build(), segVal{src, dst, ie8(otherRef, 3, 1)}.build(),
				segVal{src, dst, ie8(otherRef, 3, 0)}.build(), segVal{src, dst, ie8(otherRef, 2, 5)}.build(),
				segVal{dst, src, ie8(ref, len(parts), 1)}.build())
		}
		for c := r.Rng.Intn(3); c > 0; c-- {
			ps = append(ps, segVal{src, dst, nil}.build(), segVal{src, dst, map[byte][]byte{0x24: {1}}}.build())
		}
		if wire {
			wireErr := error(nil)
			for j, p := range ps {
				p.Header.Sequence = int32(j + 1)
				d, err := overWire(p)
				if err != nil {
					wireErr = err
					break
				}
				if k, ok := ours[p]; ok {
					delete(ours, p)
					ours[d] = k
				}
				ps[j] = d
			}
			if wireErr != nil {
				r.Fail("e2e/wire-refused", "a composed part wrapped into a deliver_sm did not survive Marshal and ReadPDU", in, wireErr.Error(), "the decoded deliver_sm")
				continue
			}
		}
		// any order (now and then in order, or reversed)
		order := r.Rng.perm(len(ps))
		switch r.Rng.Intn(6) {
		case 0:
			for j := range order {
				order[j] = j
			}
		case 1:
			for j := range order {
				order[j] = len(ps) - 1 - j
			}
		}
		hist := make([]*pdu.DeliverSM, len(ps))
		lastOurs := -1
		for j, ix := range order {
			hist[j] = ps[ix]
			if _, ok := ours[ps[ix]]; ok {
				lastOurs = j
			}
		}
		// ---- run: like runCombinePDUs, but keeping the delivered pointers
		type ev struct {
			at    int
			parts []*pdu.DeliverSM
		}
		var evs []ev
		step := 0
		add := pdu.CombineMultipartDeliverSM(func(l []*pdu.DeliverSM) { evs = append(evs, ev{step, append([]*pdu.DeliverSM(nil), l...)}) })
		panicked := false
		for j, p := range hist {
			step = j
			hung, pk, msg := callWatch(func() { add(p) })
			if hung {
				r.Fail("combine/never-returns", "a call of the combiner did not return", in, fmt.Sprintf("input %d: %s", j+1, msg), "returns normally")
				panicked = true
				break
			}
			if pk {
				r.Fail("combine/panic", "the combiner panicked", in, fmt.Sprintf("panic at input %d: %s", j+1, msg), "returns normally")
				panicked = true
				break
			}
		}
		bucket := fmt.Sprintf("end-to-end/coding=%d/parts=%s", byte(dc), bucketN(nOurs))
		if wire {
			bucket = "end-to-end over the wire (Marshal, ReadPDU)/parts=" + bucketN(nOurs)
		}
		r.Count(fmt.Sprintf("e2e/%d/%d/%s", byte(dc), ref, text), nOurs > 1, bucket)
		if panicked {
			continue
		}
		// ---- direct test
		var mine []ev
		for _, e := range evs {
			for _, p := range e.parts {
				if _, ok := ours[p]; ok {
					mine = append(mine, e)
					break
				}
			}
		}
		describe := func(es []ev) string {
			var s []string
			for _, e := range es {
				var l []string
				for _, p := range e.parts {
					switch k, ok := ours[p]; {
					case p == nil:
						l = append(l, "nil")
					case ok:
						l = append(l, fmt.Sprintf("part%d", k))
					default:
						l = append(l, "other")
					}
				}
				s = append(s, fmt.Sprintf("at input %d: %v", e.at+1, l))
			}
			return fmt.Sprint(s)
		}
		switch {
		case len(mine) != 1:
			r.Fail("e2e/not-exactly-one-delivery", "the parts of a composed message were not delivered in exactly one callback", in,
				fmt.Sprintf("%d callbacks hold parts of the message: %s", len(mine), describe(mine)), "exactly one")
		default:
			e := mine[0]
			okOrder := len(e.parts) == nOurs
			for j := 0; okOrder && j < nOurs; j++ {
				okOrder = e.parts[j] != nil && ours[e.parts[j]] == j+1
			}
			if !okOrder {
				r.Fail("e2e/wrong-order-or-content", "the delivery does not hold exactly the N parts in sequence order", in, describe(mine),
					fmt.Sprintf("part1 … part%d", nOurs))
			}
			if e.at != lastOurs {
				r.Fail("e2e/not-at-last-part", "the delivery was not made at the arrival of the last part", in, describe(mine),
					fmt.Sprintf("at input %d", lastOurs+1))
			}
			if okOrder {
				var sb strings.Builder
				perr := error(nil)
				for _, p := range e.parts {
					s, err := p.Message.Parse()
					if err != nil {
						perr = err
					}
					sb.WriteString(s)
				}
				if perr != nil || sb.String() != text {
					r.Fail("e2e/text-not-reassembled", "the parsed payloads of the delivered parts, joined, are not the composed text", in,
						fmt.Sprintf("err=%v joined=%q", perr, sb.String()), "the text")
				}
			}
		}
		// ---- the same history for the C10 oracle and as model cases
		table := make([]segVal, len(ps))
		for j, p := range ps {
			table[j] = segOfPDU(p)
		}
		obs := c10One(r, table, tableKey(table), order, "", nil, false)
		referenceCases(r, table, order, obs)
		_, _, _, _, jinfo := judgeFull(table, order, obs)
		// (a history that holds malformed other traffic is compared leniently by referenceCases; the exact trace from the
		// composition model is demanded where every segment is well formed)
		if dc == coding.GSM7BitCoding && obs.PanicAt < 0 && len(ps) <= 60 && !jinfo.lenient {
			others := make([]string, 0, len(ps)-nOurs)
			for _, s := range table[nOurs:] {
				others = append(others, coqSeg(s))
			}
			proj := projOf(table, order)
			r.Case("e2e-from-composition-model "+in,
				fmt.Sprintf("chk_e2e %s %s %d %s %d %s %s %s %s", coqAddr(src), coqAddr(dst), ref, coqText([]rune(text)), nOurs,
					coqList(others), coqNatList(order), coqNatList(proj), coqTrace(proj, obs.Trace)))
		}
		if i < 2 {
			r.Sample(map[string]interface{}{"op": "compose->combine", "coding": byte(dc), "ref": ref, "parts": nOurs,
				"arrival_order": fmt.Sprint(order), "delivery": describe(mine)})
		}
	}
}

func bucketN(n int) string {
	switch {
	case n == 1:
		return "1"
	case n <= 3:
		return "2-3"
	case n <= 8:
		return "4-8"
	}
	return "9+"
}
