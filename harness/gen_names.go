package main

import (
	"strings"

)

// specNames translates a Go struct field into the SMPP v5 parameter names it
// occupies on the wire (in order).  A Go name the dictionary does not know is
// emitted as "?" (a wildcard on the Coq side): a harmless rename loses the
// name check for that field, it does not raise an alarm.
var specNameDict = map[string][]string{
	"ServiceType": {"service_type"}, "SystemID": {"system_id"}, "Password": {"password"}, "SystemType": {"system_type"},
	"Version": {"interface_version"}, "MessageID": {"message_id"}, "FinalDate": {"final_date"}, "MessageState": {"message_state"},
	"SourceAddr":   {"source_addr_ton", "source_addr_npi", "source_addr"},
	"DestAddr":     {"dest_addr_ton", "dest_addr_npi", "destination_addr"},
	"ESMEAddr":     {"esme_addr_ton", "esme_addr_npi", "esme_addr"},
	"AddressRange": {"addr_ton", "addr_npi", "address_range"},
	"ESMClass":     {"esm_class"}, "ProtocolID": {"protocol_id"}, "PriorityFlag": {"priority_flag"},
	"ScheduleDeliveryTime": {"schedule_delivery_time"}, "ValidityPeriod": {"validity_period"},
	"RegisteredDelivery": {"registered_delivery"}, "ReplaceIfPresent": {"replace_if_present_flag"},
	"DataCoding": {"data_coding"}, "DefaultMessageID": {"sm_default_msg_id"},
	"DestAddrList": {"dest_address"}, "UnsuccessfulSMEs": {"unsuccess_sme"}, "Tags": {"tlvs"},
}

func init() { genExtra = append(genExtra, genFieldNames) }

func genFieldNames(w *CoqWriter) {
	w.P("(* Go field names translated to SMPP v5 parameter names (dictionary: harness/gen_names.go); one name per parameter the field occupies *)")
	w.P("Definition field_names : list (N * list string) := [")
	ts := pduTypes()
	for i, t := range ts {
		var names []string
		isReplace := observePrepare(t.T).isReplace
		for j := 0; j < t.T.NumField(); j++ {
			f := t.T.Field(j)
			kind := classify(f.Type)
			n := 1
			switch kind {
			case "FHeader", "FSkipped":
				n = 0
			case "FAddr":
				n = 3
			case "FShortMsg":
				n = 3
				if isReplace {
					n = 2
				}
			}
			if n == 0 {
				continue
			}
			var got []string
			if kind == "FShortMsg" {
				got = []string{"data_coding", "sm_default_msg_id", "short_message"}
				if isReplace {
					got = got[1:]
				}
				if f.Name != "Message" {
					got = nil
				}
			} else {
				got = specNameDict[f.Name]
			}
			if len(got) != n {
				got = make([]string, n)
				for k := range got {
					got[k] = "?"
				}
			}
			names = append(names, got...)
		}
		q := make([]string, len(names))
		for k, s := range names {
			q[k] = "\"" + s + "\""
		}
		w.P(" (%d, [%s]%%string)%s", t.ID, strings.Join(q, "; "), sep(i, len(ts)))
	}
	w.P("].")
}
