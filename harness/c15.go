package main

// C15 — connection teardown wakes every caller and stops every loop, without panics.

import (
	"errors"
	"fmt"
	"io"
	"net"
	"os"
	"syscall"
	"time"

	"github.com/M2MGateway/go-smpp/pdu"
)

func init() { corrTable["C15"] = func(r *Run) { connInChild(r, corrC15) } }

var c15Terms = []string{"eof", "read-error", "read-timeout", "parent-cancel", "close-answered", "close-answered-early",
	"close-unsolicited-behind-unbind_resp", "own-context", "read-error-mid-frame", "read-timeout-mid-frame", "close-write-fails"}

func corrC15(r *Run) {
	r.Import("Model.ConnRun")
	r.PerShard(8)
	r.Rule = "teardown placements: terminating event in {peer EOF, read error, read timeout (scripted and by the library's own read deadline; reported once or for good; between frames or inside a frame: in its header, right behind it, in its body), parent-context cancel, Close whose transport Write fails, " +
		"Close with answered unbind (response after / before the Write returned / followed at once by an unsolicited PDU nobody receives), Close with unanswered unbind (1 s), " +
		"keep-alive failure (enquire_link unanswered, then unbind answered or unanswered), keep-alive idle or in flight at peer EOF, a caller's own context} " +
		"x 0..4 (and 17, 33, 65) outstanding Submit calls each with its Write held or returned x {no inbound traffic, unsolicited PDUs queued before the event, Watch blocked handing a PDU to an absent consumer, a peer REQUEST carrying the sequence number of an outstanding Submit}; " +
		"a Submit begun after the teardown; keep-alive whose transport Write fails, keep-alive over several ticks; " +
		"first the minimised pre-repair witnesses (D27, D28, D28 at EOF, blocked delivery, repeated response); " +
		"non-trivial = placements with at least one Submit blocked at the event; distinct by event list"
	ts := pduTypes()
	c15Witnesses(r)
	n := r.N(540, 2400)
	for i := 0; i < n; i++ {
		i := i
		confirmed(r, func() { c15Scenario(r, ts, i, c15Terms[i%len(c15Terms)]) })
	}
	// many outstanding requests (beyond any plausible request window: 17, 33, 65)
	manyK := []int{17, 33, 65, 17, 17, 33}
	manyTerm := []string{"eof", "close-answered", "parent-cancel", "close-answered", "parent-cancel", "eof"}
	for i, nm := 0, r.N(12, 48); i < nm; i++ {
		i := i
		confirmed(r, func() { c15Many(r, ts, i, manyK[i%len(manyK)], manyTerm[i%len(manyTerm)]) })
	}
	for i, nt := 0, r.N(1, 6); i < nt; i++ {
		i := i
		confirmed(r, func() { c15CloseUnanswered(r, ts, i) })
		confirmed(r, func() { c15KeepAliveFailure(r, i, i%2 == 0) })
		confirmed(r, func() { c15ReadDeadline(r, ts, i) })
	}
	for i, nk := 0, r.N(16, 80); i < nk; i++ {
		i := i
		confirmed(r, func() { c15KeepAliveEOF(r, i, i%2 == 0) })
	}
	// the handshakes with EVERY command_status the library has a name for (zero included) and a few it has none for:
	// what the peer puts into the status of its unbind_resp / enquire_link_resp must not decide whether the teardown happens
	for i, st := range sweepStatuses() {
		i, st := i, st
		confirmed(r, func() { c15CloseStatus(r, i, st, 0) })
		if i%6 == 0 {
			confirmed(r, func() { c15CloseStatus(r, i, st, 1+(i/6)%2) })
		}
		confirmed(r, func() { c15KeepAliveStatus(r, i, st, i%9 == 4) })
	}
}

// c15CloseStatus: Close's unbind answered by unbind_resp carrying status (kind 0), by a generic_nack (kind 1) or by a
// response of another type (kind 2) with the unbind's sequence number: the handshake is complete — Close returns nil,
// the transport is closed, Done() closes, Watch returns, blocked Submits are released.
func c15CloseStatus(r *Run, idx int, status uint32, kind int) {
	w := NewWorld(true)
	defer w.Shutdown()
	w.StartWatch()
	var subs []*c15Sub
	for g := 0; g < idx%3; g++ {
		c := w.Go(g, CallSpec{Kind: "submit", Seq: int32(40 + g), P: &pdu.EnquireLink{}})[0]
		w.Release(c)
		subs = append(subs, &c15Sub{c: c})
	}
	cl := w.Go(100, CallSpec{Kind: "close", Seq: 77})[0]
	var answer interface{}
	what := "unbind_resp"
	switch kind {
	case 0:
		answer = &pdu.UnbindResp{Header: pdu.Header{Sequence: 77, CommandStatus: pdu.CommandStatus(status)}}
	case 1:
		what = "generic_nack"
		answer = &pdu.GenericNACK{Header: pdu.Header{Sequence: 77, CommandStatus: pdu.CommandStatus(status)}}
	default:
		what = "submit_sm_resp"
		answer = &pdu.SubmitSMResp{Header: pdu.Header{Sequence: 77, CommandStatus: pdu.CommandStatus(status)}, MessageID: "m"}
	}
	f := frameOf(answer)
	t0 := time.Now()
	if idx%2 == 0 {
		w.Release(cl)
		t0 = time.Now()
		w.Peer([][]byte{f}, nil)
	} else {
		w.Peer([][]byte{f}, nil)
		t0 = time.Now()
		w.Release(cl)
	}
	term := fmt.Sprintf("close-answered-by-%s/status=%#x", what, status)
	input := "sched " + w.Script()
	r.Count(input, true, "close-status/"+what)
	if runStuck(r, w, input) {
		return
	}
	c15Common(r, w, input, term, subs, t0, true)
	if !w.Returned(cl) || cl.Err != nil {
		r.Fail("close-result/"+term, "Close whose unbind was answered did not return nil", input, cl.Class(), "nil")
	}
	if !w.T.IsClosed() {
		r.Fail("close-transport/"+term, "Close whose unbind was answered did not close the transport", input, "transport open", "transport closed")
	}
	r.Case(fmt.Sprintf("close-status#%d-%d %s %.160s", idx, kind, term, input), w.CaseExpr(connVariant))
}

// c15KeepAliveStatus: the enquire_link of the keep-alive loop answered with status (by enquire_link_resp, or by generic_nack):
// it was answered — the loop goes on waiting for its next tick and does not close the connection; at the peer's EOF
// Done() closes and the loop returns.
func c15KeepAliveStatus(r *Run, idx int, status uint32, nack bool) {
	w := NewWorld(true)
	defer w.Shutdown()
	w.StartWatch()
	w.KeepAlive(time.Hour, time.Minute, 5, 6)
	ping := w.KaCall("ping", 5)
	w.sync()
	var answer interface{} = &pdu.EnquireLinkResp{Header: pdu.Header{Sequence: 5, CommandStatus: pdu.CommandStatus(status)}}
	what := "enquire_link_resp"
	if nack {
		what = "generic_nack"
		answer = &pdu.GenericNACK{Header: pdu.Header{Sequence: 5, CommandStatus: pdu.CommandStatus(status)}}
	}
	if idx%2 == 0 {
		w.Release(ping)
		w.PeerPDU(answer)
	} else {
		w.PeerPDU(answer)
		w.Release(ping)
	}
	term := fmt.Sprintf("keepalive-answered-by-%s/status=%#x", what, status)
	nw, doneBefore := w.T.NWrites(), w.doneClosed()
	t0 := time.Now()
	w.PeerEnd(io.EOF)
	input := "sched " + w.Script()
	r.Count(input, true, "keepalive-status/"+what)
	if runStuck(r, w, input) {
		return
	}
	if nw != 1 || doneBefore {
		r.Fail("keepalive-closed/"+term, "the keep-alive loop closed the connection although its enquire_link was answered", input,
			fmt.Sprintf("%d transport writes, Done() closed=%v before the peer's EOF", nw, doneBefore), "1 write (the enquire_link), Done() open")
	}
	w.WaitUntil(promptly, func() bool { return w.KaReturned() })
	if !w.KaReturned() {
		r.Fail("keepalive-stuck/"+term, "EnquireLink did not return within 1 s of Done()", input, "EnquireLink still running", "EnquireLink returns")
	}
	c15Common(r, w, input, term, nil, t0, true)
	if w.KaReturned() {
		r.Case(fmt.Sprintf("keepalive-status#%d %s %.160s", idx, term, input), w.CaseExpr(connVariant))
	}
}

// The error values a transport hands to a failing Read.  transient: errors.As finds a net.Error reporting Temporary() or
// Timeout() in it — what a real net.Conn returns when the read deadline passes (os.ErrDeadlineExceeded inside a
// *net.OpError) or a system call was interrupted.  Whatever the flavour: the transport reported an error, the connection ends.
type c15Flavour struct {
	name      string
	err       error
	transient bool
}

var c15ReadErrors = []c15Flavour{
	{"plain", errScriptedReset, false},
	{"unexpected-eof", io.ErrUnexpectedEOF, false},
	{"econnreset", syscall.ECONNRESET, false},
	{"op-error-econnreset", &net.OpError{Op: "read", Net: "tcp", Err: os.NewSyscallError("read", syscall.ECONNRESET)}, false},
	{"wrapped", fmt.Errorf("read: %w", errScriptedReset), false},
	{"temporary-only", tempErr{}, true},
	{"eintr", syscall.EINTR, true},
	{"eagain", syscall.EAGAIN, true},
}

var c15ReadTimeouts = []c15Flavour{
	{"net-error-timeout", timeoutErr{}, true},
	{"deadline-exceeded", os.ErrDeadlineExceeded, true},
	{"op-error-deadline-exceeded", &net.OpError{Op: "read", Net: "tcp", Err: os.ErrDeadlineExceeded}, true},
	{"wrapped-timeout", fmt.Errorf("read: %w", timeoutErr{}), true},
}

// c15End lets the transport report a flavour: transient ones mostly once (the next Read would wait again), others for good.
func c15End(w *World, rng *Rng, f c15Flavour) {
	if (f.transient && rng.Intn(8) != 0) || (!f.transient && rng.Intn(4) == 0) {
		w.PeerEndOnce(f.err)
	} else {
		w.PeerEnd(f.err)
	}
}

var _ = errors.Is

type c15Sub struct {
	c        *Call
	held     bool
	collided bool // the peer sent a PDU with this call's sequence number: the call may have returned it
}

// c15ReleaseHeld lets every open Write of the given Submits return, until none is open any more (a call may reach the
// transport only once another's Write has returned).
func c15ReleaseHeld(w *World, subs []*c15Sub, mark bool) {
	for again := true; again && w.Stuck == ""; {
		again = false
		for _, s := range subs {
			if w.Held(s.c) {
				w.Release(s.c)
				if mark {
					s.held = false
				}
				again = true
			}
		}
	}
}

// c15Common runs the checks every teardown shares: no panic, Done() closed, blocked Submit calls returned an error promptly.
func c15Common(r *Run, w *World, input, term string, subs []*c15Sub, t0 time.Time, needWatch bool) {
	for _, p := range w.Panics() {
		r.Fail("panic/"+term, "a library goroutine panicked during teardown", input, p, "no panic")
	}
	if w.watchPanic != "" {
		r.Fail("watch-died", "Watch died of a panic while reading an inbound frame", head(input, 2500), w.watchPanic, "whatever octets arrive, Watch delivers, answers with generic_nack or returns")
	}
	if !w.doneClosed() {
		r.Fail("done/"+term, "Done() is not closed after the terminating event", input, "Done() open", "Done() closed")
	}
	if needWatch && !w.WatchReturned() {
		r.Fail("watch/"+term, "Watch did not return after the terminating event", input, "Watch running", "Watch returns")
	}
	for _, s := range subs {
		c := s.c
		switch {
		case !w.Returned(c):
			r.Fail("submit-blocked/"+term, "a blocked Submit was not released by the teardown", input,
				fmt.Sprintf("Submit seq=%d still blocked", c.Seq), "returns a non-nil error")
		case c.Err == nil && s.collided && c.Resp != nil && pdu.ReadSequence(c.Resp) == c.Seq:
			// by the sequence number that PDU was its response
		case c.Err == nil:
			r.Fail("submit-no-error/"+term, "a Submit released by the teardown returned nil", input, c.Class(), "non-nil error")
		case !s.held && c.RetAt.Sub(t0) > promptly:
			r.Fail("submit-late/"+term, "a blocked Submit returned later than 1 s after the terminating event", input,
				c.RetAt.Sub(t0).String(), "within 1 s")
		}
	}
}

func c15Scenario(r *Run, ts []pduType, idx int, term string) {
	rng := r.Rng
	// 0 none, 1 unsolicited PDUs queued before the event, 2 Watch blocked in a delivery nobody receives,
	// 3 a request of the peer that carries the sequence number of an outstanding Submit
	inflight := rng.Intn(4)
	if term == "close-unsolicited-behind-unbind_resp" {
		inflight = 0
	}
	if (term == "close-answered" || term == "close-answered-early") && inflight == 2 {
		inflight = 1 // the unbind_resp could not be read behind a blocked delivery
	}
	auto := inflight != 2 && term != "close-unsolicited-behind-unbind_resp"
	w := NewWorld(auto)
	defer w.Shutdown()
	if idx%2 == 1 {
		w.C.ReadTimeout = time.Hour // Watch arms a read deadline before every ReadPDU (the scripted transport keeps it; it never passes)
	}
	w.StartWatch()
	seq := int32(1 + rng.Intn(1<<16))
	fresh := func() int32 { seq += int32(1 + rng.Intn(3)); return seq }
	var subs []*c15Sub
	k := rng.Intn(5)
	if inflight == 3 && k == 0 {
		k = 1 + rng.Intn(4)
	}
	for g := 0; g < k; g++ {
		c := w.Go(g, CallSpec{Kind: "submit", Seq: fresh(), P: genSendable(rng, ts, true, 600)})[0]
		s := &c15Sub{c: c, held: true}
		if rng.Intn(3) != 0 {
			w.Release(c)
			s.held = false
		}
		subs = append(subs, s)
	}
	switch inflight {
	case 1:
		var fs [][]byte
		var cs [][]int
		for i, n := 0, 1+rng.Intn(3); i < n; i++ {
			f := genUnsolicited(rng, ts, fresh())
			if rng.Intn(3) == 0 {
				// one of the pdu engine's hostile frames that does not end Watch on the reference decoder (well-formed or
				// answered by generic_nack; on a tree whose ReadPDU panics on it: Watch dies, reported below)
				if h, _ := genHostileFrame(rng, ts, fresh()); true {
					if k, _, _ := classifyFrame(h); k == "pdu" || k == "panic" {
						f = h
					} else if k == "bad" {
						f = h
						c15ReleaseHeld(w, subs, true) // (no caller Write is open when the generic_nack is due)
					}
				}
			}
			fs = append(fs, f)
			cs = append(cs, genCuts(rng, len(f)))
		}
		w.Peer(fs, cs)
	case 2:
		w.Peer([][]byte{genUnsolicited(rng, ts, fresh())}, nil) // gated consumer, no grant: Watch stays in the send
	case 3:
		// the peer numbers its own requests itself: one of them carries the number of an outstanding Submit.
		// Whatever the connection makes of it, that Submit still ends with its context and with the connection.
		x := subs[rng.Intn(len(subs))]
		x.collided = true
		var f []byte
		switch rng.Intn(4) {
		case 0: // ... or an undecodable frame does (answered by generic_nack; the Submit stays outstanding)
			f = genBadFrame(rng, ts, x.c.Seq)
			c15ReleaseHeld(w, subs, true) // (no caller Write is open when the generic_nack is due: see c16.go)
		case 1: // ... or a response PDU of a type that does not answer the request
			f = genUnsolicited(rng, ts, x.c.Seq)
		default:
			f = expectedFrame(genSendable(rng, ts, true, 600), x.c.Seq)
		}
		w.Peer([][]byte{f}, [][]int{genCuts(rng, len(f))})
	}
	needWatch := true
	closeFails := false
	t0 := time.Now()
	var cl *Call
	switch term {
	case "eof":
		w.PeerEnd(io.EOF)
	case "read-error":
		fl := c15ReadErrors[(idx/len(c15Terms))%len(c15ReadErrors)]
		term += "/" + fl.name
		c15End(w, rng, fl)
	case "read-timeout":
		fl := c15ReadTimeouts[(idx/len(c15Terms))%len(c15ReadTimeouts)]
		term += "/" + fl.name
		c15End(w, rng, fl)
	case "read-error-mid-frame", "read-timeout-mid-frame":
		// the transport fails while Watch is inside a frame: in its header, right behind it, in its body
		var f []byte
		for tries := 0; len(f) < 20; tries++ {
			genCap("c15 frame with a body", tries, "")
			f = genUnsolicited(rng, ts, fresh())
		}
		cut := []int{16, 16, 17 + rng.Intn(len(f)-17), 17 + rng.Intn(len(f)-17), 1 + rng.Intn(15)}[rng.Intn(5)]
		if term == "read-timeout-mid-frame" {
			fl := c15ReadTimeouts[(idx/len(c15Terms))%len(c15ReadTimeouts)]
			w.PeerTrunc(f, cut, fl.err, rng.Intn(3) != 0)
		} else {
			fl := c15ReadErrors[(idx/len(c15Terms))%len(c15ReadErrors)]
			w.PeerTrunc(f, cut, fl.err, fl.transient || rng.Bool())
		}
	case "close-write-fails":
		// the unbind cannot be written: Close returns the error; it cancels the connection all the same
		cl = w.Go(100, CallSpec{Kind: "close", Seq: fresh(), WriteFails: true})[0]
		if !w.Returned(cl) {
			c15ReleaseHeld(w, subs, true) // (the unbind waits for the transport behind an open Write)
		}
		needWatch = inflight == 2
		closeFails = true
	case "parent-cancel":
		w.CancelParent()
		needWatch = inflight == 2 // parked in Read it cannot notice; blocked in the delivery it must
		if rng.Bool() {
			w.PeerEnd(io.EOF) // the transport ends afterwards: now Watch has to return
			needWatch = true
		}
	case "close-answered", "close-answered-early", "close-unsolicited-behind-unbind_resp":
		cl = w.Go(100, CallSpec{Kind: "close", Seq: fresh()})[0]
		if !w.Written(cl) {
			c15ReleaseHeld(w, subs, true) // (the unbind waits for the transport behind an open Write)
		}
		resp := frameOf(&pdu.UnbindResp{Header: pdu.Header{Sequence: cl.Seq}})
		switch term {
		case "close-answered":
			w.Release(cl)
			t0 = time.Now()
			w.Peer([][]byte{resp}, [][]int{genCuts(rng, len(resp))})
		case "close-answered-early":
			w.Peer([][]byte{resp}, nil)
			t0 = time.Now()
			w.Release(cl)
		default:
			w.Release(cl)
			t0 = time.Now()
			w.Peer([][]byte{resp, genUnsolicited(rng, ts, fresh())}, nil)
		}
	case "own-context":
		// a caller's own context ends: that caller returns, the others stay; then EOF ends the rest
		var open []*c15Sub
		was := map[*c15Sub]bool{}
		for _, o := range subs {
			if w.Returned(o.c) {
				was[o] = true // (it took the peer's colliding request for its response)
			} else {
				open = append(open, o)
			}
		}
		if len(open) > 0 {
			x := open[rng.Intn(len(open))]
			for _, o := range open {
				if o.collided {
					x = o
				}
			}
			tc := time.Now()
			w.CancelCtx(x.c)
			if x.held {
				w.Release(x.c)
				x.held = false
			}
			if !w.Returned(x.c) && !w.Written(x.c) {
				// on its way to the transport behind another caller's open Write: like a call inside its own Write
				// it goes on once the transport lets it
				c15ReleaseHeld(w, subs, true)
				if w.Held(x.c) {
					w.Release(x.c)
				}
			}
			input := "sched " + w.Script()
			tookIt := x.collided && x.c.Err == nil && x.c.Resp != nil && pdu.ReadSequence(x.c.Resp) == x.c.Seq
			if !w.Returned(x.c) || (x.c.Err == nil && !tookIt) || x.c.RetAt.Sub(tc) > promptly {
				r.Fail("submit-outlives-context", "a Submit call outlived its own context", input, x.c.Class(), "returns ctx.Err() promptly")
			}
			for _, o := range subs {
				if o != x && !was[o] && w.Returned(o.c) {
					r.Fail("submit-foreign-context", "cancelling one caller's context released another caller", input, o.c.Class(), "blocked")
				}
			}
		}
		t0 = time.Now()
		w.PeerEnd(io.EOF)
	}
	if inflight == 2 && term != "parent-cancel" && w.Stuck == "" && w.watchSending() {
		// the transport's end is reported to Watch only once the slow consumer has taken the PDU it is blocked on
		w.AppGrant()
		t0 = time.Now()
	}
	// callers whose Write is still open go on once it returns and then see the closed connection
	c15ReleaseHeld(w, subs, false)
	// a Submit begun after the teardown: its frame may still reach the transport; it returns an error
	var late *Call
	if rng.Intn(3) == 0 && w.Stuck == "" && w.doneClosed() {
		late = w.Go(200, CallSpec{Kind: "submit", Seq: fresh(), P: genSendable(rng, ts, true, 300)})[0]
		if w.Held(late) {
			w.Release(late)
		}
	}
	input := "sched " + w.Script()
	r.Count(input, k > 0, fmt.Sprintf("%s/outstanding=%d/inflight=%d", term, k, inflight))
	if idx < 2 {
		r.Sample(map[string]interface{}{"terminating_event": term, "outstanding_submits": k, "inflight": inflight, "schedule": w.Script()[:min(len(w.Script()), 400)]})
	}
	if runStuck(r, w, input) {
		return
	}
	c15Common(r, w, input, term, subs, t0, needWatch)
	if late != nil && (!w.Returned(late) || late.Err == nil) {
		r.Fail("submit-after-teardown/"+term, "a Submit begun after the teardown did not return an error", input, late.Class(), "non-nil error")
	}
	if cl != nil && closeFails {
		if !w.Returned(cl) || cl.Err == nil {
			r.Fail("close-result/"+term, "Close whose unbind could not be written did not return the error", input, cl.Class(), "non-nil error")
		}
	} else if cl != nil {
		if !w.Returned(cl) || cl.Err != nil {
			r.Fail("close-result/"+term, "Close with an answered unbind did not return nil", input, cl.Class(), "nil")
		}
		if !w.T.IsClosed() {
			r.Fail("close-transport/"+term, "Close with an answered unbind did not close the transport", input, "transport open", "transport closed")
		}
	}
	r.Case(fmt.Sprintf("%s#%d %.200s", term, idx, input), w.CaseExpr(connVariant))
}

// c15Many: k Submits outstanding at once (all blocked in their select); the last one's own context ends: it alone
// returns; then the terminating event: all return an error, Done() closes, Close completes.
func c15Many(r *Run, ts []pduType, idx, k int, term string) {
	rng := r.Rng
	w := NewWorld(true)
	defer w.Shutdown()
	w.StartWatch()
	var subs []*c15Sub
	for g := 0; g < k && w.Stuck == ""; g++ {
		var p interface{} = &pdu.EnquireLink{}
		if g%5 == 0 {
			p = genSendable(rng, ts, true, 200)
		}
		c := w.Go(g, CallSpec{Kind: "submit", Seq: int32(1000 + 2*g), P: p})[0]
		s := &c15Sub{c: c, held: true}
		if g%7 != 3 { // a few stay inside their transport Write
			if w.Release(c) {
				s.held = false
			}
		}
		subs = append(subs, s)
	}
	label := fmt.Sprintf("%s/outstanding=%d", term, k)
	last := subs[len(subs)-1]
	tc := time.Now()
	w.CancelCtx(last.c)
	if w.Held(last.c) {
		w.Release(last.c)
	}
	if !w.Returned(last.c) && !w.Written(last.c) {
		c15ReleaseHeld(w, subs, true) // (it waits for the transport behind another caller's open Write)
		if w.Held(last.c) {
			w.Release(last.c)
		}
	}
	pre := "sched " + w.Script()
	if w.Stuck == "" {
		if !w.Returned(last.c) || last.c.Err == nil || last.c.RetAt.Sub(tc) > promptly {
			r.Fail("submit-outlives-context/many", fmt.Sprintf("with %d requests outstanding a Submit call outlived its own context", k), tail(pre, 600), last.c.Class(), "returns ctx.Err() promptly")
		}
		for _, o := range subs[:len(subs)-1] {
			if w.Returned(o.c) {
				r.Fail("submit-foreign-context/many", "cancelling one caller's context released another caller", tail(pre, 600), o.c.Class(), "blocked")
				break
			}
		}
	}
	t0 := time.Now()
	var cl *Call
	switch term {
	case "eof":
		w.PeerEnd(io.EOF)
	case "parent-cancel":
		w.CancelParent()
	default:
		cl = w.Go(5000, CallSpec{Kind: "close", Seq: 9000})[0]
		if !w.Written(cl) {
			c15ReleaseHeld(w, subs, true)
		}
		w.Release(cl)
		t0 = time.Now()
		w.PeerPDU(&pdu.UnbindResp{Header: pdu.Header{Sequence: 9000}})
	}
	c15ReleaseHeld(w, subs, false)
	input := "sched " + w.Script()
	r.Count(input, true, "many/"+label)
	if runStuck(r, w, input) {
		return
	}
	c15Common(r, w, tail(input, 900), "many-"+term, subs, t0, term != "parent-cancel")
	if cl != nil && (!w.Returned(cl) || cl.Err != nil || !w.T.IsClosed()) {
		r.Fail("close-result/many", fmt.Sprintf("Close with %d requests outstanding did not complete its answered unbind", k), tail(input, 900), cl.Class(), "nil, transport closed")
	}
	r.Case(fmt.Sprintf("many#%d %s %.120s", idx, label, input), w.CaseExpr(connVariant))
}

// Close whose unbind goes unanswered: after its one-second timeout Done() is closed and blocked Submits are released.
func c15CloseUnanswered(r *Run, ts []pduType, idx int) {
	rng := r.Rng
	w := NewWorld(true)
	defer w.Shutdown()
	w.StartWatch()
	var subs []*c15Sub
	for g, k := 0, 1+rng.Intn(3); g < k; g++ {
		c := w.Go(g, CallSpec{Kind: "submit", Seq: int32(20 + g), P: genSendable(rng, ts, true, 600)})[0]
		w.Release(c)
		subs = append(subs, &c15Sub{c: c})
	}
	tStart := time.Now()
	cl := w.Go(100, CallSpec{Kind: "close", Seq: 99})[0]
	// One forced group from the return of the unbind's Write to the end of Close's own one-second context: no
	// snapshot is taken in between, so it does not matter how the controller's progress relates to that timer
	// (on a loaded machine the second may be over before the Write is released).
	w.ReleaseNoSync(cl)
	w.WaitUntil(6*time.Second, func() bool { return w.Returned(cl) })
	t0 := time.Now()
	w.force(fmt.Sprintf("CancelCtx %d", cl.ID)) // the one-second timeout of Close is the end of its own context
	w.sync()
	input := "sched " + w.Script()
	r.Count(input, true, "close-unanswered")
	if runStuck(r, w, input) {
		return
	}
	if !w.Returned(cl) || cl.Err == nil {
		r.Fail("close-result/close-unanswered", "Close with an unanswered unbind did not return an error", input, cl.Class(), "non-nil error after about one second")
	} else if d := cl.RetAt.Sub(tStart); d < 800*time.Millisecond || d > 2500*time.Millisecond {
		// (a note, not a verdict: the bound is the library's timer plus the machine's load)
		r.Notes = append(r.Notes, "Close with unanswered unbind returned after "+d.String())
	}
	for _, s := range subs { // released by the cancel Close always performs; measured from Close's return
		s.held = false
	}
	c15Common(r, w, input, "close-unanswered", subs, t0.Add(-50*time.Millisecond), false)
	r.Case(fmt.Sprintf("close-unanswered#%d %s", idx, input), w.CaseExpr(connVariant))
}

// keep-alive failure: the enquire_link is never answered; the loop closes the connection and has to return.
func c15KeepAliveFailure(r *Run, idx int, answerUnbind bool) {
	w := NewWorld(true)
	defer w.Shutdown()
	w.StartWatch()
	sub := w.Go(0, CallSpec{Kind: "submit", Seq: 10, P: &pdu.SubmitSM{}})[0]
	w.Release(sub)
	kaTimeout := 30 * time.Millisecond
	if relaxed {
		kaTimeout = 150 * time.Millisecond
	}
	w.KeepAlive(time.Hour, kaTimeout, 50, 51)
	ping := w.KaCall("ping", 50)
	w.sync()
	// One forced group from the return of the enquire_link's Write over the end of its context (the library's own
	// timeout) to the unbind of the Close the loop then calls: no snapshot in between, so the observation does not
	// depend on whether that timer fires before or after the controller releases the Write.
	w.ReleaseNoSync(ping)
	ok := w.WaitUntil(6*time.Second, func() bool { return w.T.NWrites() >= 3 })
	w.force(fmt.Sprintf("CancelCtx %d", ping.ID))
	cl := w.KaCall("kaclose", 51)
	w.sync()
	term := "keepalive-failure-unbind-unanswered"
	t0 := time.Now()
	if ok {
		if answerUnbind {
			w.Release(cl)
			term = "keepalive-failure-unbind-answered"
			t0 = time.Now()
			w.PeerPDU(&pdu.UnbindResp{Header: pdu.Header{Sequence: 51}})
		} else {
			// again one group: Write returns ... Close's own second ends
			w.ReleaseNoSync(cl)
			w.WaitUntil(6*time.Second, func() bool { return w.doneClosed() })
			t0 = time.Now()
			w.force(fmt.Sprintf("CancelCtx %d", cl.ID))
			w.sync()
		}
	}
	input := "sched " + w.Script()
	r.Count(input, true, term)
	if runStuck(r, w, input) {
		return
	}
	if !ok {
		r.Fail("keepalive/no-close", "the keep-alive loop did not close the connection after an unanswered enquire_link", input,
			fmt.Sprintf("%d transport writes", w.T.NWrites()), "an unbind follows the failed enquire_link")
		return
	}
	w.WaitUntil(promptly, func() bool { return w.KaReturned() })
	if !w.KaReturned() {
		r.Fail("keepalive-stuck/"+term, "EnquireLink did not return within 1 s of Done()", input, "EnquireLink still running", "EnquireLink returns")
	}
	c15Common(r, w, input, term, []*c15Sub{{c: sub}}, t0.Add(-50*time.Millisecond), answerUnbind)
	if w.KaReturned() {
		r.Case(fmt.Sprintf("%s#%d %s", term, idx, input), w.CaseExpr(connVariant))
	}
}

// the peer ends the stream while the keep-alive loop waits for its next tick (idle) or for an enquire_link_resp (in flight)
func c15KeepAliveEOF(r *Run, idx int, idle bool) {
	w := NewWorld(true)
	defer w.Shutdown()
	w.StartWatch()
	w.KeepAlive(time.Hour, time.Minute, 5, 6)
	ping := w.KaCall("ping", 5)
	w.sync()
	if idx%4 < 2 {
		w.Release(ping)
	}
	term := "keepalive-in-flight-at-eof"
	if idle {
		term = "keepalive-idle-at-eof"
		if w.Held(ping) {
			w.Release(ping)
		}
		w.PeerPDU(&pdu.EnquireLinkResp{Header: pdu.Header{Sequence: 5}})
	}
	t0 := time.Now()
	// In flight: the enquire_link fails with the closed connection; the loop calls Close, whose unbind
	// still reaches the transport.  That call begins in the same step as the event that wakes the loop.
	var cl *Call
	switch {
	case idle:
		w.PeerEnd(io.EOF)
	case w.Held(ping):
		w.PeerEnd(io.EOF)
		cl = w.KaCall("kaclose", 6)
		w.Release(ping)
	default:
		cl = w.KaCall("kaclose", 6)
		w.PeerEnd(io.EOF)
	}
	if cl != nil && w.Held(cl) {
		w.Release(cl)
	}
	input := "sched " + w.Script()
	r.Count(input, true, term)
	if runStuck(r, w, input) {
		return
	}
	w.WaitUntil(promptly, func() bool { return w.KaReturned() })
	if !w.KaReturned() {
		r.Fail("keepalive-stuck/"+term, "EnquireLink did not return within 1 s of Done()", input, "EnquireLink still running", "EnquireLink returns")
	}
	c15Common(r, w, input, term, nil, t0, true)
	if w.KaReturned() {
		r.Case(fmt.Sprintf("%s#%d %s", term, idx, input), w.CaseExpr(connVariant))
	}
}

// the library's own read deadline (ReadTimeout) ends the connection
func c15ReadDeadline(r *Run, ts []pduType, idx int) {
	w := NewWorld(true)
	defer w.Shutdown()
	w.C.ReadTimeout = 20 * time.Millisecond
	w.StartWatch()
	c := w.Go(0, CallSpec{Kind: "submit", Seq: 31, P: genSendable(r.Rng, ts, true, 600)})[0]
	w.Release(c)
	w.T.ArmDeadlines() // from here on the read deadline Watch has set counts
	w.WaitUntil(3*time.Second, func() bool { return w.WatchReturned() })
	t0 := time.Now()
	w.force("PeerEnd") // the deadline passing is the transport reporting a timeout
	w.sync()
	input := "sched " + w.Script()
	r.Count(input, true, "read-deadline")
	if runStuck(r, w, input) {
		return
	}
	c15Common(r, w, input, "read-deadline", []*c15Sub{{c: c}}, t0.Add(-50*time.Millisecond), true)
	r.Case(fmt.Sprintf("read-deadline#%d %s", idx, input), w.CaseExpr(connVariant))
}

// ---------------------------------------------------------------- pre-repair witnesses
func c15Witnesses(r *Run) {
	// D27: unbind_resp is followed at once by an unsolicited PDU nobody receives; Close closes the queue while Watch sends on it.
	{
		w := NewWorld(false)
		w.StartWatch()
		cl := w.Go(0, CallSpec{Kind: "close", Seq: 9})[0]
		w.Release(cl)
		w.Peer([][]byte{frameOf(&pdu.UnbindResp{Header: pdu.Header{Sequence: 9}}), frameOf(&pdu.DeliverSM{Header: pdu.Header{Sequence: 100}})}, nil)
		input := "sched " + w.Script()
		r.Count(input, true, "witness/D27")
		if !runStuck(r, w, input) {
			if ps := w.Panics(); len(ps) > 0 || !w.Returned(cl) || cl.Err != nil || !w.WatchReturned() || !w.doneClosed() {
				r.Fail("close/unsolicited-behind-unbind_resp", "Close closes the receive queue while Watch is sending on it", input,
					fmt.Sprintf("close=%s watch_returned=%v done=%v panics=%v", cl.Class(), w.WatchReturned(), w.doneClosed(), ps),
					"Close returns nil, Watch returns without panic, Done() closed")
			}
			r.Case("witness-D27 "+input, w.CaseExpr(connVariant))
		}
		w.Shutdown()
	}
	// blocked delivery: nobody receives from PDU(); a parent-context cancel has to get Watch out of its send
	{
		w := NewWorld(false)
		w.StartWatch()
		w.PeerPDU(&pdu.DeliverSM{Header: pdu.Header{Sequence: 100}})
		w.CancelParent()
		input := "sched " + w.Script()
		r.Count(input, true, "witness/blocked-delivery")
		if !runStuck(r, w, input) {
			if !w.WatchReturned() || len(w.Panics()) > 0 {
				r.Fail("watch/blocked-delivery-at-teardown", "Watch blocked handing a PDU to PDU() does not notice the teardown", input,
					fmt.Sprintf("watch_returned=%v panics=%v", w.WatchReturned(), w.Panics()), "Watch returns")
			}
			r.Case("witness-blocked-delivery "+input, w.CaseExpr(connVariant))
		}
		w.Shutdown()
	}
	// repeated response (D32): Watch must survive it, deliver the PDU behind it and notice EOF
	{
		w := NewWorld(true)
		w.StartWatch()
		c := w.Go(0, CallSpec{Kind: "submit", Seq: 11, P: &pdu.EnquireLink{}})[0]
		resp := frameOf(&pdu.EnquireLinkResp{Header: pdu.Header{Sequence: 11}})
		w.Peer([][]byte{resp, resp, frameOf(&pdu.DeliverSM{Header: pdu.Header{Sequence: 300}})}, nil)
		w.PeerEnd(io.EOF)
		input := "sched " + w.Script()
		r.Count(input, true, "witness/D32")
		if !runStuck(r, w, input) {
			app := w.App()
			if !w.WatchReturned() || len(app) == 0 || app[len(app)-1].Seq != 300 || !w.doneClosed() {
				r.Fail("watch/repeated-response", "a second response with the sequence number of a pending request blocks Watch forever", input,
					fmt.Sprintf("watch_returned=%v PDU()=%s done=%v", w.WatchReturned(), fmtDeliveries(app), w.doneClosed()),
					"deliver_sm 300 is delivered, Watch returns on EOF")
			}
			_ = c // its Write stays open: released now it would find both its response and the closed connection ready
			r.Case("witness-D32 "+input, w.CaseExpr(connVariant))
		}
		w.Shutdown()
	}
}
