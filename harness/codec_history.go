package main

// Histories of calls on the PACKAGE-LEVEL coding objects (coding.DataCoding.Encoding() hands out encoders / decoders
// built on shared values such as gsm7bit.Packed): what a call answers must not depend on the calls made before it in
// the same process - a refused text with an encodable prefix, a decode of invalid octets, the very first call of the
// process.  A history is a list of steps; each step is checked on its own against what the property demands of that
// call alone (C09: the detected coding encodes the whole text and decodes back to it; C07/C17: the parts / octets decode
// to the text), so a failing step is a failure of the history, and the history (replayed in a fresh process) is the input.
//
//	best:<utf8 hex>            BestCoding -> Encoding().NewEncoder().Bytes -> NewDecoder().Bytes
//	bestsafe:<utf8 hex>        the same with BestSafeCoding
//	enc:<dc>:<utf8 hex>        encoder of data_coding dc (accepted or refused: both fine; accepted => decodes back)
//	dec:<dc>:<octet hex>       decoder of dc on arbitrary octets (a poke: nothing is required of the result)
//	compose:<utf8 hex>         (&ShortMessage{}).Compose then Parse
//	multi:<dc|best>:<ref>:<utf8 hex>  ComposeMultipartShortMessage, every part decoded with the coding it carries, joined
//	validate:<dc>:<utf8 hex>   DataCoding.Validate (a poke)
//
// Histories run "warm" (inside the harness process, after whatever ran before) and "cold" (a child process whose first
// calls they are: `harness replay <PID> <file>`), which is what exposes state created by the first call of a process.

import (
	"crypto/sha1"
	"encoding/hex"
	"encoding/json"
	"fmt"
	"os"
	"os/exec"
	"path/filepath"
	"strconv"
	"strings"
	"time"

	"github.com/M2MGateway/go-smpp/coding"
	"github.com/M2MGateway/go-smpp/pdu"
)

func init() {
	replayExtra["codec-history"] = func(f []string) string {
		res := runCodecHistory(f[1:])
		if os.Getenv("VERIF_HISTORY_JSON") != "" {
			b, _ := json.Marshal(res)
			return string(b)
		}
		var sb strings.Builder
		for i, st := range res {
			fmt.Fprintf(&sb, "step %d %s -> %s", i+1, clip(st.Step, 60), st.Observed)
			if st.Class != "" {
				fmt.Fprintf(&sb, "  ** FAILS (%s): required %s", st.Class, st.Required)
			}
			sb.WriteString("; ")
		}
		return sb.String()
	}
	for _, pid := range []string{"C07"} {
		if _, ok := replayTable[pid]; !ok {
			replayTable[pid] = replayText
		}
	}
}

// histPrefix: class prefix of every failure found by a history.  It sorts before the classes of the single-call tests on
// purpose: when the coding objects keep state between calls the single-call tests fail too, with inputs that do not
// reproduce on their own - the history (replayable in a fresh process) is the failing input to look at first.
const histPrefix = "a-history-of-calls"

type histStepResult struct {
	Step     string `json:"step"`
	Observed string `json:"observed"`
	Digest   string `json:"digest"`          // everything the call returned (compared between a cold first call and a warm call)
	Class    string `json:"class,omitempty"` // "" = this step satisfies what is required of it
	What     string `json:"what,omitempty"`
	Required string `json:"required,omitempty"`
}

func hexText(s string) string { return hex.EncodeToString([]byte(s)) }

// outOfScope: texts about which the properties claim nothing for coding dc
func codecOutOfScope(dc coding.DataCoding, s string) bool {
	base, ok := encBaseOfQuick(dc)
	if !ok {
		return true
	}
	switch base {
	case coding.ISO2022JPCoding:
		return strings.ContainsAny(s, "\x1b\x0e\x0f")
	case coding.ASCIICoding:
		return strings.IndexFunc(s, func(x rune) bool { return x > 0x7F }) >= 0
	}
	return false
}

// encBaseOfQuick: the table constant a value denotes, by the library's own accessors (no sweep: histories must not make
// thousands of calls of their own between the steps)
func encBaseOfQuick(dc coding.DataCoding) (coding.DataCoding, bool) {
	if dc.Encoding() == nil {
		return 0, false
	}
	if c, _, kind := dc.MessageWaitingInfo(); kind != -1 {
		return c, true
	} else if c, class := dc.MessageClass(); class != -1 {
		return c, true
	}
	return dc, true
}

// readsBack: decoded is the text, or (GSM 7-bit) the text without its final CR in the known 8k-septet class
func readsBack(dc coding.DataCoding, s, decoded string, septets func(string) int) (ok, knownCR bool) {
	if decoded == s {
		return true, false
	}
	if b, _ := encBaseOfQuick(dc); b == coding.GSM7BitCoding && strings.HasSuffix(s, "\r") && decoded == s[:len(s)-1] {
		if n := septets(s); n > 0 && n%8 == 0 {
			return true, true
		}
	}
	return false, false
}

// runCodecHistory executes the steps back to back (no calls of its own in between) and judges every step afterwards.
func runCodecHistory(steps []string) []histStepResult {
	type raw struct {
		kind   string
		dc     coding.DataCoding
		text   string
		octets []byte
		ok     bool
		pan    bool
		err    error
		parts  []pdu.ShortMessage
		stored coding.DataCoding
		back   string
		backOK bool
		pieces []string
	}
	raws := make([]raw, len(steps))
	for i, st := range steps {
		f := strings.Split(st, ":")
		rw := raw{kind: f[0]}
		arg := func(k int) []byte {
			if k >= len(f) {
				return nil
			}
			b, _ := hex.DecodeString(f[k])
			return b
		}
		num := func(s string) int { n, _ := strconv.Atoi(s); return n }
		switch f[0] {
		case "best", "bestsafe":
			rw.text = string(arg(1))
			rw.pan, _ = guard(func() {
				if f[0] == "best" {
					rw.dc = coding.BestCoding(rw.text)
				} else {
					rw.dc = coding.BestSafeCoding(rw.text)
				}
				b, err := rw.dc.Encoding().NewEncoder().Bytes([]byte(rw.text))
				rw.octets, rw.err, rw.ok = b, err, err == nil
				if rw.ok {
					d, derr := rw.dc.Encoding().NewDecoder().Bytes(b)
					rw.back, rw.backOK = string(d), derr == nil
				}
			})
		case "enc":
			rw.dc, rw.text = coding.DataCoding(num(f[1])), string(arg(2))
			rw.pan, _ = guard(func() {
				b, err := rw.dc.Encoding().NewEncoder().Bytes([]byte(rw.text))
				rw.octets, rw.err, rw.ok = b, err, err == nil
				if rw.ok {
					d, derr := rw.dc.Encoding().NewDecoder().Bytes(b)
					rw.back, rw.backOK = string(d), derr == nil
				}
			})
		case "dec":
			rw.dc, rw.octets = coding.DataCoding(num(f[1])), arg(2)
			rw.pan, _ = guard(func() {
				d, derr := rw.dc.Encoding().NewDecoder().Bytes(rw.octets)
				rw.back, rw.backOK = string(d), derr == nil
			})
		case "validate":
			rw.dc, rw.text = coding.DataCoding(num(f[1])), string(arg(2))
			rw.pan, _ = guard(func() { rw.ok = rw.dc.Validate(rw.text) })
		case "splitter": // splitter:<dc>:<limit>:<text>
			rw.dc, rw.text = coding.DataCoding(num(f[1])), string(arg(3))
			rw.pan, _ = guard(func() {
				sp := rw.dc.Splitter()
				rw.ok = sp != nil
				if rw.ok {
					rw.back = strconv.Itoa(sp.Len(rw.text))
					for _, x := range rw.text {
						if sp(x) > 8*num(f[2]) {
							return // Split does not terminate on a character wider than the limit
						}
					}
					rw.pieces = sp.Split(rw.text, num(f[2]))
				}
			})
		case "compose":
			rw.text = string(arg(1))
			rw.pan, _ = guard(func() {
				var m pdu.ShortMessage
				rw.err = m.Compose(rw.text)
				rw.ok = rw.err == nil
				if rw.ok {
					rw.stored, rw.octets = m.DataCoding, m.Message
					d, perr := m.Parse()
					rw.back, rw.backOK = d, perr == nil
				}
			})
		case "multi":
			rw.text = string(arg(3))
			ref := uint16(num(f[2]))
			rw.pan, _ = guard(func() {
				if f[1] == "best" {
					rw.dc = coding.BestCoding(rw.text)
				} else {
					rw.dc = coding.DataCoding(num(f[1]))
				}
				rw.parts, rw.err = pdu.ComposeMultipartShortMessage(rw.text, rw.dc, ref)
				rw.ok = rw.err == nil
				if rw.ok {
					rw.backOK = true
					for _, p := range rw.parts {
						d, derr := p.DataCoding.Encoding().NewDecoder().Bytes(p.Message)
						if derr != nil {
							rw.backOK = false
						}
						rw.pieces = append(rw.pieces, string(d))
						rw.back += string(d)
					}
				}
			})
		}
		raws[i] = rw
	}
	// ---- judge (the history is over: calls made from here on cannot influence it)
	septets := func(s string) int { return gsm7SeptetCount(s) }
	known := map[coding.DataCoding][]rng{}
	for _, d := range detectList {
		known[d.dc], _ = readRanges(knownFile(d.name))
	}
	out := make([]histStepResult, len(steps))
	for i, rw := range raws {
		res := histStepResult{Step: steps[i]}
		fail := func(class, what, required string) {
			if res.Class == "" {
				res.Class, res.What, res.Required = class, what, required
			}
		}
		name := "dc" + strconv.Itoa(int(byte(rw.dc)))
		if b, ok := encBaseOfQuick(rw.dc); ok {
			name = labelName(b)
		}
		switch rw.kind {
		case "best", "bestsafe", "enc":
			res.Observed = fmt.Sprintf("data_coding=%d accepted=%v octets=%s", byte(rw.dc), rw.ok, clip(hex.EncodeToString(rw.octets), 48))
			if rw.pan {
				fail(rw.kind+"/"+name+"/panic", "the call panicked", "octets or an error")
				break
			}
			x, rejected := firstRejected(rw.dc, rw.text)
			switch {
			case !rw.ok && rw.kind != "enc" && rejected && inRanges(known[rw.dc], x):
				// finding D17 (known): not a matter of history
			case !rw.ok && rw.kind != "enc" && rejected:
				fail(rw.kind+"/"+name+"/unencodable/"+uplus(x), "the detected coding's encoder rejects the text", "the encoder accepts the whole text")
			case !rw.ok && !rejected:
				fail(rw.kind+"/"+name+"/refused-although-every-character-is-accepted", "the encoder refused a text all of whose characters it accepts one by one", "octets")
			case rw.ok && rejected && !codecOutOfScope(rw.dc, rw.text):
				fail(rw.kind+"/"+name+"/accepted-although-a-character-is-rejected", "the encoder accepted a text with a character it rejects on its own ("+uplus(x)+")", "an error")
			case rw.ok && !codecOutOfScope(rw.dc, rw.text):
				res.Observed += fmt.Sprintf(" decoded=%q", clip(rw.back, 40))
				if good, _ := readsBack(rw.dc, rw.text, rw.back, septets); !rw.backOK || !good {
					fail(rw.kind+"/"+name+"/reads-back-as-another-text", "decoding the encoded octets with the same coding returns a different text", fmt.Sprintf("decoded=%q", clip(rw.text, 40)))
				}
			}
		case "compose":
			res.Observed = fmt.Sprintf("err=%v data_coding=%d octets=%s parsed=%q", rw.err, byte(rw.stored), clip(hex.EncodeToString(rw.octets), 48), clip(rw.back, 40))
			if rw.pan {
				fail("compose/panic", "Compose panicked", "a message or an error")
				break
			}
			c := coding.BestCoding(rw.text)
			x, rejected := firstRejected(c, rw.text)
			switch {
			case !rw.ok && isTooLarge(rw.err):
			case !rw.ok && rejected && inRanges(known[c], x):
			case !rw.ok:
				fail("compose/"+labelName(c)+"/fails-for-lack-of-an-encoding", "Compose fails although the text fits and the detected coding can carry it", "a composed message")
			default:
				if good, _ := readsBack(rw.stored, rw.text, rw.back, septets); !rw.backOK || !good {
					fail("compose/"+labelName(c)+"/parses-to-different-text", "the composed octets parse back to a different text", fmt.Sprintf("parsed=%q", clip(rw.text, 40)))
				}
			}
		case "multi":
			res.Observed = fmt.Sprintf("data_coding=%d err=%v parts=%d joined=%q", byte(rw.dc), rw.err, len(rw.parts), clip(rw.back, 40))
			if rw.pan {
				fail("multipart/"+name+"/panic", "ComposeMultipartShortMessage panicked", "parts or an error")
				break
			}
			x, rejected := firstRejected(rw.dc, rw.text)
			switch {
			case !rw.ok && (rejected || isTooLarge(rw.err) || isTooMany(rw.err)):
				// refused for a character outside the code or for size: nothing is claimed (conditional on success)
			case !rw.ok:
				fail("multipart/"+name+"/rejected-representable-text", "a text the coding can represent was rejected", "parts")
			case rejected && !codecOutOfScope(rw.dc, rw.text):
				fail("multipart/"+name+"/accepted-although-a-character-is-rejected", "parts were returned for a text with a character the encoder rejects ("+uplus(x)+")", "an error")
			case !codecOutOfScope(rw.dc, rw.text):
				good := rw.backOK && rw.back == rw.text
				if !good && rw.backOK && name == "gsm7" {
					var ps [][]rune
					for _, p := range rw.pieces {
						ps = append(ps, []rune(p))
					}
					good = gsm7JoinModuloCR([]rune(rw.text), ps)
				}
				if !good {
					fail("multipart/"+name+"/parts-read-back-as-another-text", "the parts, decoded with the coding they carry and joined, are not the text", fmt.Sprintf("joined=%q", clip(rw.text, 40)))
				}
				for k, p := range rw.parts {
					if p.UDHeader.Len()+len(p.Message) > 140 {
						fail("multipart/"+name+"/part-exceeds-140", fmt.Sprintf("part %d exceeds 140 octets", k+1), "at most 140")
					}
				}
			}
		case "dec":
			res.Observed = fmt.Sprintf("ok=%v decoded=%q", rw.backOK, clip(rw.back, 30))
			if rw.pan {
				fail("dec/"+name+"/panic", "the decoder panicked", "a text or an error")
			}
		case "validate":
			res.Observed = fmt.Sprintf("%v", rw.ok)
		case "splitter":
			res.Observed = fmt.Sprintf("splitter=%v Len=%s segments=%d", rw.ok, rw.back, len(rw.pieces))
			if strings.Join(rw.pieces, "") != rw.text && len(rw.pieces) > 0 {
				fail("splitter/"+name+"/segments-do-not-join-to-text", "the segments do not join to the text", "the text")
			}
		}
		{
			h := sha1.New()
			fmt.Fprintf(h, "%v|%v|%d|%x|%q|%v|%d|%q|", rw.ok, rw.pan, byte(rw.dc), rw.octets, rw.back, rw.backOK, byte(rw.stored), rw.pieces)
			for _, p := range rw.parts {
				fmt.Fprintf(h, "%d %v %x|", byte(p.DataCoding), p.UDHeader, p.Message)
			}
			res.Digest = hex.EncodeToString(h.Sum(nil)[:8])
		}
		out[i] = res
	}
	return out
}

// ---------------------------------------------------------------- generation
type codecHistories struct {
	r      *Run
	prefix string // class prefix, e.g. histPrefix
	nCold  int
	cold   [][]string
}

// pools of characters per table coding: accepted by the encoder / rejected by it
type histPool struct {
	dc        coding.DataCoding
	good, bad []rune
}

func histPools() []histPool {
	mk := func(dc coding.DataCoding, cands [][2]rune) histPool {
		p := histPool{dc: dc}
		enc := dc.Encoding().NewEncoder()
		for _, rg := range cands {
			for x := rg[0]; x <= rg[1]; x++ {
				if x == 0x1b || x == '\r' || x == 0x0e || x == 0x0f {
					continue
				}
				if _, ok := encodeOne(enc, x); ok {
					p.good = append(p.good, x)
				} else if len(p.bad) < 40 {
					p.bad = append(p.bad, x)
				}
			}
		}
		p.bad = append(p.bad, 0x2713, 0x1F600)
		if dc == coding.UCS2Coding {
			p.bad = nil
		}
		return p
	}
	basic := [][2]rune{{0x20, 0x7E}, {0xA1, 0xFF}, {0x391, 0x3A9}, {0x20AC, 0x20AC}}
	return []histPool{
		mk(coding.GSM7BitCoding, basic),
		mk(coding.Latin1Coding, basic),
		mk(coding.CyrillicCoding, [][2]rune{{0x20, 0x7E}, {0x401, 0x45F}, {0xC0, 0xD0}}),
		mk(coding.HebrewCoding, [][2]rune{{0x20, 0x7E}, {0x5D0, 0x5EA}, {0xC0, 0xD0}}),
		mk(coding.ShiftJISCoding, [][2]rune{{0x20, 0x7E}, {0x3041, 0x3093}, {0x4E00, 0x4E80}, {0xFF61, 0xFF9F}, {0xC0, 0xD0}}),
		mk(coding.ISO2022JPCoding, [][2]rune{{0x20, 0x7E}, {0x3041, 0x3093}, {0x4E00, 0x4E80}, {0xFF61, 0xFF9F}, {0xC0, 0xD0}}),
		mk(coding.EUCJPCoding, [][2]rune{{0x20, 0x7E}, {0x3041, 0x3093}, {0x4E00, 0x4E80}, {0xC0, 0xD0}}),
		mk(coding.EUCKRCoding, [][2]rune{{0x20, 0x7E}, {0xAC00, 0xAC80}, {0xC0, 0xD0}}),
		mk(coding.UCS2Coding, [][2]rune{{0x20, 0x7E}, {0x4E00, 0x4E40}, {0x1F600, 0x1F610}}),
	}
}

func (p histPool) text(r *Run, n int) string {
	rs := make([]rune, n)
	for i := range rs {
		rs[i] = p.good[r.Rng.Intn(len(p.good))]
	}
	return string(rs)
}

// one history for pool p: a refused text with an encodable prefix of k characters (several entry points), pokes, then
// accepted texts of several lengths through the detector, the encoder, Compose and the multipart composer
func genCodecHistory(r *Run, p histPool, all []histPool, k int) []string {
	var steps []string
	dcs := strconv.Itoa(int(byte(p.dc)))
	refused := func() {
		if len(p.bad) == 0 {
			return
		}
		t := p.text(r, k) + string(p.bad[r.Rng.Intn(len(p.bad))])
		if r.Rng.Intn(2) == 0 {
			t += p.text(r, r.Rng.Intn(6))
		}
		switch r.Rng.Intn(3) {
		case 0:
			steps = append(steps, "enc:"+dcs+":"+hexText(t))
		case 1:
			steps = append(steps, "multi:"+dcs+":"+strconv.Itoa(r.Rng.Intn(65536))+":"+hexText(t))
		default:
			steps = append(steps, "enc:"+dcs+":"+hexText(t), "validate:"+dcs+":"+hexText(t))
		}
	}
	lens := []int{1, 5, 20, 21, 24, 33, 40, 70, 100, 153, 160, 200}
	accepted := func() {
		n := lens[r.Rng.Intn(len(lens))]
		q := p
		if r.Rng.Intn(5) == 0 {
			q = all[r.Rng.Intn(len(all))]
		}
		t := q.text(r, n)
		qd := strconv.Itoa(int(byte(q.dc)))
		switch r.Rng.Intn(5) {
		case 0:
			steps = append(steps, "best:"+hexText(t))
		case 1:
			steps = append(steps, "bestsafe:"+hexText(t))
		case 2:
			steps = append(steps, "enc:"+qd+":"+hexText(t))
		case 3:
			steps = append(steps, "compose:"+hexText(t))
		default:
			who := qd
			if r.Rng.Intn(2) == 0 {
				who = "best"
			}
			steps = append(steps, "multi:"+who+":"+strconv.Itoa(r.Rng.Intn(65536))+":"+hexText(t))
		}
	}
	if r.Rng.Intn(4) == 0 { // start on accepted text: what the first call of a process leaves behind
		accepted()
	}
	refused()
	badOctets := func() string { // octets that are not a text of the coding, behind a decodable prefix of k characters
		if p.dc == coding.GSM7BitCoding {
			return hex.EncodeToString(gsm7BrokenOctets(r, k))
		}
		b, _, _ := implEncode(p.dc, p.text(r, k))
		return hex.EncodeToString(append(b, r.Rng.Bytes(1+r.Rng.Intn(4))...))
	}
	if r.Rng.Intn(3) == 0 {
		steps = append(steps, "dec:"+dcs+":"+badOctets())
	}
	for i, n := 0, 2+r.Rng.Intn(3); i < n; i++ {
		accepted()
		switch r.Rng.Intn(6) {
		case 0:
			refused()
		case 1:
			steps = append(steps, "dec:"+dcs+":"+badOctets())
		}
	}
	return steps
}

// gsm7BrokenOctets: k letters then ESC ESC, packed - the decoder gives up at the second escape, after k characters
func gsm7BrokenOctets(r *Run, k int) []byte {
	dangling := r.Rng.Intn(2) == 0 // the message ENDS in an escape septet: 8m-1 letters then ESC, no spare septet behind
	if dangling {
		k = (k/8+1)*8 - 1
		if r.Rng.Intn(4) == 0 {
			k = 0 // the single octet 1b
		}
	}
	ss := make([]byte, 0, k+2)
	for i := 0; i < k; i++ {
		ss = append(ss, byte('a'+r.Rng.Intn(26)))
	}
	if dangling {
		return packSeptetsRef(append(ss, 0x1b))
	}
	return packSeptetsRef(append(ss, 0x1b, 0x1b))
}

func reportCodecHistory(r *Run, prefix string, steps []string, res []histStepResult, mode string, knownClasses map[string]bool) {
	in := "codec-history " + strings.Join(steps, " ")
	for i, st := range res {
		if st.Class == "" {
			continue
		}
		class := prefix + "/" + st.Class
		if knownClasses[st.Class] { // the narrow known classes keep their names (they do not depend on the history)
			class = st.Class
		}
		r.Fail(class, st.What+" (step "+strconv.Itoa(i+1)+" of a "+mode+" history on the package-level coding objects)", in,
			fmt.Sprintf("step %d %s: %s", i+1, clip(st.Step, 50), st.Observed), st.Required)
		return
	}
}

// codecHistoryTests: warm histories in this process and cold ones in child processes; pid names the replay table.
func codecHistoryTests(r *Run, pid string, nWarm, nCold int) {
	pools := histPools()
	ks := []int{1, 2, 3, 5, 8, 13, 20, 40}
	known := map[string]bool{}
	// corpus: the minimal history of seeding round 6 (refused "Hi <check mark> there" on the GSM 7-bit encoder, then 40 characters)
	corpus := [][]string{
		{"enc:0:" + hexText("Hi ✓ there"), "best:" + hexText(strings.Repeat("status report follows ", 2))},
		{"enc:0:" + hexText("abc✓"), "compose:" + hexText(strings.Repeat("x", 24)), "bestsafe:" + hexText(strings.Repeat("y", 70))},
		{"multi:0:7:" + hexText("ok \U0001F600"), "multi:0:255:" + hexText(strings.Repeat("z", 170))},
		{"dec:0:" + hex.EncodeToString(packSeptetsRef([]byte("stale\x1b\x1b"))), "enc:0:" + hexText(strings.Repeat("q", 33)), "best:" + hexText("café €5 " + strings.Repeat("w", 30))},
	}
	nConfirm := 0
	run := func(steps []string, bucket string) {
		res := runCodecHistory(steps)
		r.Count("codec-history "+strings.Join(steps, " "), true, bucket)
		failed := false
		for _, st := range res {
			failed = failed || st.Class != ""
		}
		if !failed {
			return
		}
		// does the history fail on its own, as the first calls of a fresh process?  Then that is the input to report.
		// Otherwise the failure needs calls made earlier in this run: reported under a class that sorts behind.
		if nConfirm < 12 {
			nConfirm++
			if cres, cerr := runColdHistory(r, pid, 1000+nConfirm, steps); cerr == "" {
				for _, st := range cres {
					if st.Class != "" {
						reportCodecHistory(r, histPrefix, steps, cres, "cold (fresh process)", known)
						return
					}
				}
			}
		}
		reportCodecHistory(r, histPrefix+"~after-earlier-calls-of-this-run", steps, res, "warm", known)
	}
	for _, h := range corpus {
		run(h, "history on the shared coding objects: corpus")
	}
	for i, j := 0, 0; i < nWarm; i++ {
		p := pools[0] // the hand-written GSM 7-bit codec most often
		if i%3 != 0 {
			j++
			p = pools[1+j%(len(pools)-1)]
		}
		run(genCodecHistory(r, p, pools, ks[r.Rng.Intn(len(ks))]), "history on the shared coding objects: "+labelName(p.dc))
	}
	// cold: each history is the first thing a fresh process does
	var cold [][]string
	cold = append(cold, corpus[0], []string{"best:" + hexText(strings.Repeat("plain ascii first ", 3)), "best:" + hexText("then €[~] and ΔΩ " + strings.Repeat("k", 20)), "compose:" + hexText("éèù {x}")},
		[]string{"best:" + hexText("€{first call uses the extension table} " + strings.Repeat("e", 12)), "best:" + hexText(strings.Repeat("plain ", 8)), "bestsafe:" + hexText("Δ " + strings.Repeat("d", 30))},
		[]string{"dec:0:1b", "best:" + hexText("e-mail (3) = <ok>"), "compose:" + hexText("(see above)")},
		[]string{"dec:0:" + hex.EncodeToString(packSeptetsRef([]byte("left over\x1b\x1b"))), "best:" + hexText(strings.Repeat("after a bad decode ", 2)), "compose:" + hexText(strings.Repeat("m", 40))})
	for i, j := 0, 0; len(cold) < nCold; i++ {
		p := pools[0]
		if i%2 != 0 {
			j++
			p = pools[1+j%(len(pools)-1)]
		}
		cold = append(cold, genCodecHistory(r, p, pools, ks[r.Rng.Intn(len(ks))]))
	}
	type coldRes struct {
		res []histStepResult
		err string
	}
	results := make([]coldRes, len(cold))
	sem := make(chan struct{}, 4)
	done := make(chan int, len(cold))
	for i := range cold {
		go func(i int) {
			sem <- struct{}{}
			defer func() { <-sem; done <- i }()
			results[i].res, results[i].err = runColdHistory(r, pid, i, cold[i])
		}(i)
	}
	for range cold {
		<-done
	}
	for i, h := range cold {
		r.Count("cold codec-history "+strings.Join(h, " "), true, "history as the first calls of a fresh process")
		if results[i].err != "" {
			r.Notes = append(r.Notes, "cold history could not be run: "+results[i].err)
			continue
		}
		reportCodecHistory(r, histPrefix, h, results[i].res, "cold (fresh process)", known)
	}
}

// runColdHistory runs the steps as the first calls of a child process (timing problems are retried, never reported)
func runColdHistory(r *Run, pid string, idx int, steps []string) ([]histStepResult, string) {
	path := filepath.Join(r.Dir, fmt.Sprintf("cold_history_%d.txt", idx))
	if err := os.WriteFile(path, []byte("codec-history "+strings.Join(steps, " ")), 0o644); err != nil {
		return nil, err.Error()
	}
	defer os.Remove(path)
	var last string
	for attempt := 0; attempt < 3; attempt++ {
		cmd := exec.Command(os.Args[0], "replay", pid, path)
		cmd.Env = append(os.Environ(), "VERIF_HISTORY_JSON=1")
		outc := make(chan []byte, 1)
		go func() { b, _ := cmd.Output(); outc <- b }()
		select {
		case b := <-outc:
			var res []histStepResult
			if err := json.Unmarshal([]byte(strings.TrimSpace(string(b))), &res); err == nil && len(res) == len(steps) {
				return res, ""
			}
			last = "unparsable child output: " + clip(string(b), 120)
		case <-time.After(60 * time.Second):
			if cmd.Process != nil {
				_ = cmd.Process.Kill()
			}
			last = "child timed out"
		}
	}
	return nil, last
}

// coldFirstCallTests: the package-level tables (alphabetMap, encodingMap, splitterMap, the GSM 7-bit tables, x/text's tables)
// are built at init time or on first use.  For every coding and every entry point - Encoding().NewEncoder(), Validate,
// Splitter(), and BestCoding / BestSafeCoding / Compose / the multipart pipeline on a text of every repertoire - a child process
// makes that call as its VERY FIRST library call; the answer must be the one the same call gives here, in a process that has
// made thousands of calls (and each call must satisfy what is required of it alone).
func coldFirstCallTests(r *Run, pid string) {
	pools := histPools()
	var hs [][]string
	dcsAll := append(append([]coding.DataCoding{}, closureBases...), 0xF1, 0xE0, 0xF5)
	for _, dc := range dcsAll {
		p := pools[0]
		for _, q := range pools {
			if b, ok := encBaseOfQuick(dc); ok && (q.dc == b || (b == coding.ASCIICoding && q.dc == coding.Latin1Coding)) {
				p = q
			}
		}
		t := hexText(p.text(r, 12+r.Rng.Intn(30)))
		d := strconv.Itoa(int(byte(dc)))
		hs = append(hs, []string{"enc:" + d + ":" + t}, []string{"validate:" + d + ":" + t}, []string{"splitter:" + d + ":9:" + t})
	}
	for _, p := range pools {
		t := hexText(p.text(r, 10+r.Rng.Intn(60)))
		long := hexText(p.text(r, 150+r.Rng.Intn(100)))
		hs = append(hs, []string{"best:" + t}, []string{"bestsafe:" + t}, []string{"compose:" + t}, []string{"multi:best:" + strconv.Itoa(r.Rng.Intn(65536)) + ":" + long})
	}
	hs = append(hs, []string{"best:"}, []string{"compose:"}, []string{"dec:0:" + hex.EncodeToString(packSeptetsRef([]byte("hello")))})
	type cr struct {
		res []histStepResult
		err string
	}
	results := make([]cr, len(hs))
	sem := make(chan struct{}, 6)
	done := make(chan int, len(hs))
	for i := range hs {
		go func(i int) {
			sem <- struct{}{}
			defer func() { <-sem; done <- i }()
			results[i].res, results[i].err = runColdHistory(r, pid, 2000+i, hs[i])
		}(i)
	}
	for range hs {
		<-done
	}
	for i, h := range hs {
		in := "codec-history " + strings.Join(h, " ")
		r.Count("first call "+in, true, "first library call of a fresh process: "+strings.SplitN(h[0], ":", 2)[0])
		if results[i].err != "" {
			r.Notes = append(r.Notes, "first-call child could not be run: "+results[i].err)
			continue
		}
		warm := runCodecHistory(h)
		reportCodecHistory(r, histPrefix, h, results[i].res, "cold (first call of a fresh process)", nil)
		for k := range h {
			if results[i].res[k].Class == "" && warm[k].Class == "" && results[i].res[k].Digest != warm[k].Digest {
				r.Fail(histPrefix+"/first-call-differs-from-a-later-call/"+strings.SplitN(h[k], ":", 2)[0],
					"a call gives another answer as the first library call of a fresh process than later in a process", in,
					"first call: "+results[i].res[k].Observed, "as in a warm process: "+warm[k].Observed)
				break
			}
		}
	}
}
