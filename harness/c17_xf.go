package main

// Entry points other than Bytes.  The theorems of C17 / C09 speak about the octets Encoder.Bytes returns for a text (and
// the text Decoder.Bytes returns for octets).  The same encoder / decoder is also reachable through Encoder.String,
// transform.String / Bytes / Append, transform.NewWriter(...).Write+Close and transform.NewReader(...), which hand the
// transformer the input in CHUNKS (String: 128 octets of destination at first, doubling; Reader / Writer: 4096-octet buffers;
// a caller's own Write pieces).  Every entry point must give what Bytes gives: the same outcome class and the same octets.
// Texts: a one-octet filler with a multi-octet character (2, 3, 4 octets of UTF-8; 2, 3, 8 octets of code) placed so that
// its octets lie across every offset around 128, 256 and 4096 of the input - for the encoders in the UTF-8 text, for the
// decoders in the encoded octets - and texts with a character outside the code at those places (all must refuse).

import (
	"bytes"
	"encoding/hex"
	"fmt"
	"io"
	"strconv"
	"strings"
	"time"
	"unicode/utf8"

	"github.com/M2MGateway/go-smpp/coding"
	"golang.org/x/text/transform"
)

func init() {
	replayExtra["xf"] = func(f []string) string {
		n, _ := strconv.Atoi(f[2])
		raw := []byte{}
		if len(f) > 3 {
			raw, _ = hex.DecodeString(f[3])
		}
		dc := coding.DataCoding(n)
		var sb strings.Builder
		for _, e := range xfRun(dc, f[1], raw) {
			fmt.Fprintf(&sb, "%s: ok=%v %s; ", e.name, e.err == "", clip(hex.EncodeToString(e.out), 40)+e.err)
		}
		return sb.String()
	}
}

type xfResult struct {
	name string
	out  []byte
	err  string // "" = nil error; "hang" / "panic: ..." included
}

// xfGuard runs f with a watchdog: a transformer that never makes progress must not hang the check
func xfGuard(name string, f func() ([]byte, error)) xfResult {
	ch := make(chan xfResult, 1)
	go func() {
		res := xfResult{name: name}
		defer func() {
			if p := recover(); p != nil {
				res.err = fmt.Sprintf(" panic: %v", p)
			}
			ch <- res
		}()
		out, err := f()
		res.out = out
		if err != nil {
			res.err = " error: " + err.Error()
		}
	}()
	select {
	case r := <-ch:
		return r
	case <-time.After(20 * time.Second):
		return xfResult{name: name, err: " does not return"}
	}
}

type pieceReader struct {
	src   []byte
	sizes []int
	k     int
}

func (p *pieceReader) Read(b []byte) (int, error) {
	if len(p.src) == 0 {
		return 0, io.EOF
	}
	n := p.sizes[p.k%len(p.sizes)]
	p.k++
	if n > len(p.src) {
		n = len(p.src)
	}
	if n > len(b) {
		n = len(b)
	}
	copy(b, p.src[:n])
	p.src = p.src[n:]
	return n, nil
}

// xfRun: every entry point of the encoder ("enc") or decoder ("dec") of dc on src; the first result is Bytes (the reference)
func xfRun(dc coding.DataCoding, dir string, src []byte) []xfResult {
	mk := func() transform.Transformer {
		if dir == "enc" {
			return dc.Encoding().NewEncoder()
		}
		return dc.Encoding().NewDecoder()
	}
	cp := func() []byte { return append([]byte{}, src...) }
	var res []xfResult
	res = append(res, xfGuard("Bytes", func() ([]byte, error) {
		if dir == "enc" {
			return dc.Encoding().NewEncoder().Bytes(cp())
		}
		return dc.Encoding().NewDecoder().Bytes(cp())
	}))
	res = append(res, xfGuard("String", func() ([]byte, error) {
		var s string
		var err error
		if dir == "enc" {
			s, err = dc.Encoding().NewEncoder().String(string(src))
		} else {
			s, err = dc.Encoding().NewDecoder().String(string(src))
		}
		return []byte(s), err
	}))
	res = append(res, xfGuard("transform.String", func() ([]byte, error) {
		s, _, err := transform.String(mk(), string(src))
		return []byte(s), err
	}))
	res = append(res, xfGuard("transform.Append", func() ([]byte, error) {
		b, _, err := transform.Append(mk(), make([]byte, 0, 16), cp())
		return b, err
	}))
	writer := func(name string, cuts []int) {
		res = append(res, xfGuard(name, func() ([]byte, error) {
			var buf bytes.Buffer
			w := transform.NewWriter(&buf, mk())
			rest := cp()
			for i := 0; len(rest) > 0; i++ {
				n := len(rest)
				if len(cuts) > 0 {
					n = cuts[i%len(cuts)]
					if n > len(rest) {
						n = len(rest)
					}
				}
				if _, err := w.Write(rest[:n]); err != nil {
					return buf.Bytes(), err
				}
				rest = rest[n:]
			}
			err := w.Close()
			return buf.Bytes(), err
		}))
	}
	writer("Writer(one Write)", nil)
	writer("Writer(pieces of 127)", []int{127})
	writer("Writer(pieces 1,128,3)", []int{1, 128, 3})
	reader := func(name string, sizes []int) {
		res = append(res, xfGuard(name, func() ([]byte, error) {
			return io.ReadAll(transform.NewReader(&pieceReader{src: cp(), sizes: sizes}, mk()))
		}))
	}
	reader("Reader(whole)", []int{1 << 20})
	reader("Reader(pieces of 128)", []int{128})
	reader("Reader(pieces 127,2,4095)", []int{127, 2, 4095})
	return res
}

// xfCompare: every entry point must answer as Bytes does
func xfCompare(r *Run, prefix, name string, dc coding.DataCoding, dir string, src []byte, bucket string) {
	in := fmt.Sprintf("xf %s %d %s", dir, byte(dc), hex.EncodeToString(src))
	r.Count(in, true, bucket)
	res := xfRun(dc, dir, src)
	ref := res[0]
	if strings.Contains(ref.err, "panic") || strings.Contains(ref.err, "does not return") {
		r.Fail(prefix+"/"+name+"/"+dir+"/Bytes"+strings.ReplaceAll(strings.SplitN(strings.TrimSpace(ref.err), ":", 2)[0], " ", "-"), "Bytes panicked or did not return", in, ref.err, "octets or an error")
		return
	}
	for _, e := range res[1:] {
		same := (e.err == "") == (ref.err == "") && (ref.err != "" || bytes.Equal(e.out, ref.out))
		if strings.Contains(e.err, "panic") || strings.Contains(e.err, "does not return") {
			same = false
		}
		if same {
			continue
		}
		entry := strings.SplitN(e.name, "(", 2)[0]
		what := "octets-differ-from-Bytes"
		switch {
		case strings.Contains(e.err, "panic"):
			what = "panic"
		case strings.Contains(e.err, "does not return"):
			what = "does-not-return"
		case ref.err == "" && e.err != "":
			what = "refuses-what-Bytes-accepts"
		case ref.err != "" && e.err == "":
			what = "accepts-what-Bytes-refuses"
		}
		r.Fail(prefix+"/"+name+"/"+dir+"/"+entry+"-"+what, "an entry point other than Bytes gives another answer for the same input", in,
			fmt.Sprintf("%s: %s%s (input of %d octets%s)", e.name, clip(hex.EncodeToString(e.out), 60), e.err, len(src), xfWhere(src, e.out, ref.out)),
			fmt.Sprintf("as Bytes: %s%s", clip(hex.EncodeToString(ref.out), 60), ref.err))
		return
	}
}

func xfWhere(src, got, want []byte) string {
	for i := 0; i < len(src); i++ {
		if src[i] >= 0x80 {
			return fmt.Sprintf(", first multi-octet character at octet %d", i)
		}
	}
	return ""
}

// xfTexts builds the texts for one coding: filler (one octet of UTF-8, accepted) and wide characters (accepted, 2/3/4 octets
// of UTF-8) at every offset around the chunk edges; plus a rejected character there.
func xfEntryPointTests(r *Run, prefix string, dcs []coding.DataCoding) {
	edges := []int{128, 256, 4096}
	for _, dc := range dcs {
		if dc.Encoding() == nil {
			continue
		}
		name := labelName(dc)
		if b, ok := encBaseOfQuick(dc); ok && b != dc {
			name = fmt.Sprintf("dc%d", byte(dc))
		}
		enc := dc.Encoding().NewEncoder()
		filler := rune('a')
		var wides []rune
		seen := map[int]bool{}
		for _, x := range []rune{0xE9, 0xA7, 0x416, 0x5D0, 0x3A9, 0x20AC, 0x3042, 0x65E5, 0xFF71, 0xAC00, 0x2116, 0x2017, 0x1F600, 0x10000} {
			if _, ok := encodeOne(enc, x); ok && !seen[utf8.RuneLen(x)] {
				seen[utf8.RuneLen(x)] = true
				wides = append(wides, x)
			}
		}
		var rejected rune
		for _, x := range []rune{0x1F600, 0x2713, 0x0100} {
			if _, ok := encodeOne(enc, x); !ok {
				rejected = x
				break
			}
		}
		fb, _ := encodeOne(enc, filler)
		gsm := false
		if b, ok := encBaseOfQuick(dc); ok && b == coding.GSM7BitCoding {
			gsm = true // the GSM 7-bit transformers need the whole message (ErrShortSrc until atEOF): Reader / Writer give up
			// beyond their 4096-octet buffers, legitimately (C08 covers their Transformer contract)
		}
		for ei, edge := range edges {
			if gsm && edge == 4096 {
				continue
			}
			for wi, wch := range wides {
				if r.Quick && edge == 4096 && wi > 0 {
					break
				}
				L := utf8.RuneLen(wch)
				wb, _ := encodeOne(enc, wch)
				// ---- encoder: the character's UTF-8 octets across the edge of the INPUT
				for j := 0; j <= L; j++ {
					pre := edge - j
					text := strings.Repeat(string(filler), pre) + string(wch) + strings.Repeat(string(filler), 3+r.Rng.Intn(9))
					if ei == 0 && j == 1 && r.Rng.Intn(2) == 0 { // a second one across the next edge
						text += strings.Repeat(string(filler), 128-((len(text)+1)%128)) + string(wch) + "!"
					}
					xfCompare(r, prefix, name, dc, "enc", []byte(text), name+": encoder entry points, wide character across a chunk edge")
				}
				// ---- decoder: the character's CODE across the edge of the encoded octets
				if len(fb) > 0 && len(wb) > 1 {
					for j := 0; j <= len(wb); j++ {
						pre := (edge - j) / len(fb)
						if pre < 0 {
							continue
						}
						text := strings.Repeat(string(filler), pre) + string(wch) + strings.Repeat(string(filler), 2+r.Rng.Intn(5))
						if octets, ok, _ := implEncode(dc, text); ok {
							xfCompare(r, prefix, name, dc, "dec", octets, name+": decoder entry points, code across a chunk edge")
						}
					}
				}
			}
			// ---- a character outside the code at the edge: every entry point must refuse
			if rejected != 0 && (!r.Quick || edge != 4096) {
				for _, j := range []int{0, 1, utf8.RuneLen(rejected)} {
					text := strings.Repeat(string(filler), edge-j) + string(rejected) + "tail"
					xfCompare(r, prefix, name, dc, "enc", []byte(text), name+": encoder entry points, rejected character at a chunk edge")
				}
			}
		}
		// ---- random mixtures longer than the buffers
		for k, nk := 0, r.N(2, 12); k < nk; k++ {
			var sb strings.Builder
			target := 130 + r.Rng.Intn(300)
			if k%3 == 2 && !gsm {
				target = 4000 + r.Rng.Intn(4500)
			}
			for sb.Len() < target {
				if len(wides) > 0 && r.Rng.Intn(3) == 0 {
					sb.WriteRune(wides[r.Rng.Intn(len(wides))])
				} else {
					sb.WriteRune(filler + rune(r.Rng.Intn(20)))
				}
			}
			xfCompare(r, prefix, name, dc, "enc", []byte(sb.String()), name+": encoder entry points, random mixture")
			if octets, ok, _ := implEncode(dc, sb.String()); ok {
				xfCompare(r, prefix, name, dc, "dec", octets, name+": decoder entry points, random mixture")
			}
		}
	}
}
