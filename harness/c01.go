package main

import (
	"fmt"
	"reflect"
	"strings"

	"github.com/M2MGateway/go-smpp/pdu"
)

func init() { corrTable["C01"] = corrC01 }

// skippedNonZero names the fields of p that neither codec walk handles and that hold a non-zero value.
func skippedNonZero(p interface{}) []string {
	v := reflect.ValueOf(p).Elem()
	var out []string
	for i := 0; i < v.NumField(); i++ {
		if classify(v.Type().Field(i).Type) == "FSkipped" && !v.Field(i).IsZero() {
			out = append(out, v.Type().Name()+"."+v.Type().Field(i).Name)
		}
	}
	return out
}

// zeroSkipped returns the canonical text with skipped fields blanked.
func canonNoSkipped(p interface{}) string {
	v := reflect.ValueOf(p).Elem()
	items := make([]string, v.NumField())
	for i := range items {
		if h, ok := v.Field(i).Interface().(pdu.Header); ok {
			items[i] = fmt.Sprintf("H status=%d seq=%d", uint32(h.CommandStatus), h.Sequence)
		} else if classify(v.Type().Field(i).Type) == "FSkipped" {
			items[i] = "skipped"
		} else {
			items[i] = coqField(v.Field(i))
		}
	}
	return strings.Join(items, "; ")
}

// stretch makes one value of the PDU large, to push later fields across the
// decoder's 4096-octet buffer or the frame towards the 64 KiB limit.
func stretchC01(r *Rng, p interface{}, kind int) {
	v := reflect.ValueOf(p).Elem()
	for i := 0; i < v.NumField(); i++ {
		f := v.Field(i)
		switch x := f.Interface().(type) {
		case pdu.Tags:
			if kind == 1 || kind == 2 {
				t := pdu.Tags{}
				for k, val := range x {
					t[k] = val
				}
				if kind == 1 {
					// one TLV value straddling the 4096 refill points
					t[uint16(0x1400+r.Intn(16))] = genBytes(r, r.Pick([]int{4070, 4080, 4096, 4100, 8180, 8200}))
				} else {
					// fill the frame close to 64 KiB
					t[0x0424] = genBytes(r, 65000-r.Intn(3))
					for k := range t {
						if k != 0x0424 && len(t[k]) > 100 {
							delete(t, k)
						}
					}
				}
				f.Set(reflect.ValueOf(t))
				return
			}
		}
		if kind == 0 && f.Kind() == reflect.String {
			n := r.Pick([]int{4000, 4050, 4079, 4080, 4081, 4090, 4096, 4100, 8190, 8200, 20000})
			b := make([]byte, n)
			for j := range b {
				b[j] = byte('a' + (j % 26))
			}
			f.SetString(string(b))
			return
		}
	}
}

// straddle lengthens the first string (or address) of the PDU so that a uniformly chosen
// octet of the original frame lands on one of the decoder's 4096-octet refill boundaries:
// every later field gets its turn at being cut by the refill.
func straddle(r *Rng, p interface{}) {
	_, err, w, panicked, _ := marshalRec(clonePDU(p))
	if err != nil || panicked || len(w.calls) != 1 || len(w.calls[0]) < 18 {
		return
	}
	l0 := len(w.calls[0])
	boundary := r.Pick([]int{4096, 4096, 4096, 8192, 12288})
	pos := 17 + r.Intn(l0-17)
	n := boundary - pos + r.Pick([]int{-1, 0, 0, 0, 1})
	if n <= 0 {
		return
	}
	pad := make([]byte, n)
	for j := range pad {
		pad[j] = byte('a' + (j % 26))
	}
	v := reflect.ValueOf(p).Elem()
	for i := 0; i < v.NumField(); i++ {
		f := v.Field(i)
		if f.Kind() == reflect.String {
			f.SetString(f.String() + string(pad))
			return
		}
		if a, ok := f.Interface().(pdu.Address); ok {
			a.No += string(pad)
			f.Set(reflect.ValueOf(a))
			return
		}
	}
}

// fillTo adds one TLV sized so that the whole frame has exactly [target] octets.
func fillTo(r *Rng, p interface{}, target int) {
	v := reflect.ValueOf(p).Elem()
	for i := 0; i < v.NumField(); i++ {
		if _, ok := v.Field(i).Interface().(pdu.Tags); ok {
			v.Field(i).Set(reflect.ValueOf(pdu.Tags{0x0005: {1}}))
			_, err, w, panicked, _ := marshalRec(clonePDU(p))
			if err != nil || panicked || len(w.calls) != 1 {
				return
			}
			size := target - len(w.calls[0]) - 4
			if size < 1 || size > 65534 {
				return
			}
			v.Field(i).Set(reflect.ValueOf(pdu.Tags{0x0005: {1}, 0x0424: genBytes(r, size)}))
			return
		}
	}
}

// cleanRoundTrip: Marshal -> ReadPDU of a clone of p, with nothing in front of it, gives p back
func cleanRoundTrip(p interface{}) bool {
	_, err, w, panicked, _ := marshalRec(clonePDU(p))
	if err != nil || panicked || len(w.calls) != 1 {
		return false
	}
	o := readOnce(&chunkReader{data: w.calls[0], sched: []int{len(w.calls[0])}})
	if o.Kind != "ok" {
		return false
	}
	h := reflect.ValueOf(p).Elem().Field(0).Interface().(pdu.Header)
	if h.CommandStatus != 0 {
		oh := reflect.ValueOf(o.PDU).Elem().Field(0).Interface().(pdu.Header)
		return oh.CommandStatus == h.CommandStatus && oh.Sequence == h.Sequence
	}
	return canonNoLenID(o.PDU) == canonNoLenID(p)
}

func corrC01(r *Run) {
	r.Import("Model.PduRun")
	r.PerShard(60)
	r.Rule = "values of all 33 registered types in the representable domain (boundary-biased fields; every octet value in octet fields; 0..255 destinations of both kinds; " +
		"0..255 records; UDH with 0..6 elements; strings, TLV values and messages placed across the decoder's 4096-octet refill points; TLV sets up to the 64 KiB limit; " +
		"header-only frames with non-zero status), Marshal -> ReadPDU under a random read schedule; non-trivial = distinct (type, value) with a body; distinct by canonical value"
	ts := pduTypes()
	n := r.N(30, 800)
	caseBudget := r.N(264, 6000)
	bigBudget := r.N(14, 400) // frames of several KiB are slow to parse inside coqc: a fixed number per run
	vol := &pduVolume{maxLen: 2500}
	defer vol.diff(r)
	volPerType := r.N(120, 2500) // further values per type, for the direct tests and the extracted model only
	perType := caseBudget / len(ts) // every type gets its share of the kernel cases (responses come last in id order)
	for _, t := range ts {
		typeBudget := perType
		poisons := allPoisons(t, poisonBase(r.Rng, t))
		for i := 0; i < n+volPerType; i++ {
			p := genPDU(r.Rng, t, modeDomain)
			switch {
			case i%10 == 6 || i%10 == 7 || i%10 == 3:
				straddle(r.Rng, p)
			case i%10 == 8:
				stretchC01(r.Rng, p, 1)
			case i%30 == 9:
				stretchC01(r.Rng, p, 0)
			case i%30 == 19:
				fillTo(r.Rng, p, r.Rng.Pick([]int{65536, 65536, 65535, 65534, 65000}))
			case i%30 == 29:
				stretchC01(r.Rng, p, 2)
			}
			statusCase := i%9 == 5
			if statusCase {
				h := reflect.ValueOf(p).Elem().Field(0).Addr().Interface().(*pdu.Header)
				h.CommandStatus = pdu.CommandStatus(r.Rng.Pick([]int{1, 0xFF, 0x400, int(uint32(r.Rng.U64()) | 1)}))
			}
			// a Marshal call that FAILS first — every refusal kind at every field position of this type and destinations that
			// give up after k octets, in rotation: nothing of it may show up in the round trip of the next value
			var hist *poison
			if len(poisons) > 0 {
				x := poisons[i%len(poisons)]
				if failed, _, _ := x.run(); failed {
					hist = &x
				}
			}
			orig := clonePDU(p)
			term := coqValue(orig)
			rp := replayValue(orig)
			if hist != nil {
				rp["failed_call_before"] = hist.replay()
			}
			r.SetReplay(rp)
			valueLine := canonValueLine(orig)
			_, err, w, panicked, pmsg := marshalRec(p)
			vol.marshal(t.ID, valueLine, term, err, panicked, w)
			in := fmt.Sprintf("roundtrip %s %s", t.Name, term)
			if len(in) > 4000 {
				in = in[:4000] + "…"
			}
			if hist != nil {
				in = fmt.Sprintf("after a Marshal that failed (%s): ", *hist) + in
			}
			if panicked {
				r.Fail(pcls("roundtrip/marshal-panic/"+t.Name, pmsg), "Marshal panicked on a representable value", in, pmsg, "no panic")
				continue
			}
			if err != nil || len(w.calls) != 1 {
				r.Count(t.Name+term, false, t.Name+"/marshal-error")
				continue // property is conditional on Marshal's success
			}
			frame := w.calls[0]
			if len(frame) > 65536 {
				r.Count(t.Name+term, false, t.Name+"/oversize")
				continue
			}
			sched := randomSched(r.Rng, len(frame))
			c := &chunkReader{data: append(append([]byte(nil), frame...), 0xEE, 0xEE), sched: sched}
			o := readOnce(c)
			if o.Kind != "neither" {
				vol.readone(c.data, sched, o)
			}
			bucket := t.Name + "/ok"
			if statusCase {
				bucket = t.Name + "/status"
			}
			r.Count(t.Name+term, reflect.ValueOf(p).Elem().NumField() > 1, bucket)
			if i == 0 && (t.ID == 4 || t.ID == 0x80000021) {
				r.Sample(map[string]interface{}{"type": t.Name, "value": term, "frame_octets": len(frame), "schedule": schedString(sched)})
			}
			fail := func(class, what, obs, req string) {
				if hist != nil && cleanRoundTrip(orig) {
					// the same value survives the trip when no failed call precedes it: state carried between Marshal calls
					class = "roundtrip/after-failed-marshal/" + hist.kind + "/" + strings.TrimPrefix(class, "roundtrip/")
					what += " — only after an unrelated Marshal call had failed"
				}
				r.Fail(class, what, in+fmt.Sprintf(" frame=%s sched=%s", shortHex(frame), schedString(sched)), obs, req)
			}
			switch {
			case o.Kind == "panic":
				fail(pcls("roundtrip/readpdu-panic/"+t.Name, o.Msg), "ReadPDU panicked on Marshal's output", o.Msg, "no panic")
			case o.Kind != "ok":
				fail("roundtrip/readpdu-error/"+t.Name, "ReadPDU rejected Marshal's output", fmt.Sprintf("%s err=%v", o.Kind, o.Err), "success")
			default:
				h := reflect.ValueOf(o.PDU).Elem().Field(0).Interface().(pdu.Header)
				if reflect.TypeOf(o.PDU) != reflect.TypeOf(orig) || int(h.CommandLength) != len(frame) || uint32(h.CommandID) != t.ID {
					fail("roundtrip/header/"+t.Name, "returned type / command_id / command_length are not those of the frame",
						fmt.Sprintf("type=%T len=%d id=%#x", o.PDU, h.CommandLength, uint32(h.CommandID)),
						fmt.Sprintf("type=%T len=%d id=%#x", orig, len(frame), t.ID))
				}
				if o.Consumed != len(frame) {
					fail("roundtrip/consumed/"+t.Name, "ReadPDU consumed a different number of octets than the frame has",
						fmt.Sprint(o.Consumed), fmt.Sprint(len(frame)))
				}
				if statusCase {
					oh := reflect.ValueOf(orig).Elem().Field(0).Interface().(pdu.Header)
					if h.CommandStatus != oh.CommandStatus || h.Sequence != oh.Sequence || len(frame) != 16 {
						fail("roundtrip/status-header/"+t.Name, "header fields did not survive with a non-zero status",
							fmt.Sprintf("%+v frame=%d", h, len(frame)), fmt.Sprintf("%+v frame=16", oh))
					}
				} else if canonNoLenID(o.PDU) != canonNoLenID(orig) {
					if sk := skippedNonZero(orig); len(sk) > 0 && canonNoSkipped(o.PDU) == canonNoSkipped(orig) {
						for _, name := range sk {
							fail("skipped-field/"+name, "a field neither codec walk handles is lost on the wire",
								canonNoLenID(o.PDU), canonNoLenID(orig))
						}
					} else {
						fail("roundtrip/value/"+t.Name, "decoded PDU differs from the original", canonNoLenID(o.PDU), canonNoLenID(orig))
					}
				}
			}
			// model: Marshal produces this frame; ReadPDU under this schedule gives this observation
			if i < n && typeBudget > 0 && (len(frame) < 2500 || (len(frame) < 20000 && bigBudget > 0 && i%3 == 0)) {
				if len(frame) >= 2500 {
					bigBudget--
				}
				typeBudget--
				r.Case(fmt.Sprintf("marshal+readpdu %s %.200s", t.Name, term),
					fmt.Sprintf("beq_obytes (marshal %s %s) (Ok %s) && beq_read (run_read %s %s) %s",
						layoutRef(t.ID), term, coqHex(frame), coqHex(c.data), schedTerm(sched), o.term()))
			}
		}
	}
	// deterministic corpus of semantically loaded contents in every C-octet-string / address / destination / unsuccess
	// position of every type (harness/pdu_corpus.go): Marshal -> ReadPDU must return them unchanged
	for k, it := range corpusPDUs(ts, 1, 0) {
		orig := clonePDU(it.p)
		r.SetReplay(replayValue(orig))
		_, err, w, panicked, pmsg := marshalRec(it.p)
		in := "roundtrip (loaded content " + it.what + ") " + it.t.Name + " " + coqValue(orig)
		if panicked {
			r.Fail(pcls("roundtrip/marshal-panic/"+it.t.Name, pmsg), "Marshal panicked on a representable value", in, pmsg, "no panic")
			continue
		}
		if err != nil || len(w.calls) != 1 {
			r.Fail("roundtrip/marshal-refused/"+it.t.Name, "Marshal refused a representable value (NUL-free strings, octet fields)", in, fmt.Sprint(err), "a frame")
			continue
		}
		frame := w.calls[0]
		o := readOnce(&chunkReader{data: frame, sched: []int{len(frame)}})
		r.Count(it.what, true, "loaded-content")
		switch {
		case o.Kind == "panic":
			r.Fail(pcls("roundtrip/readpdu-panic/"+it.t.Name, o.Msg), "ReadPDU panicked on Marshal's output", in, o.Msg, "no panic")
		case o.Kind != "ok":
			r.Fail("roundtrip/readpdu-error/"+it.t.Name, "ReadPDU rejected Marshal's output", in+" frame="+shortHex(frame), fmt.Sprintf("%s err=%v", o.Kind, o.Err), "success")
		case canonNoLenID(o.PDU) != canonNoLenID(orig):
			r.Fail("roundtrip/value/"+it.t.Name, "decoded PDU differs from the original", in+" frame="+shortHex(frame), canonNoLenID(o.PDU), canonNoLenID(orig))
		}
		if k%400 == int(r.Seed%400) {
			r.Case("marshal+readpdu (loaded content) "+it.what,
				fmt.Sprintf("beq_obytes (marshal %s %s) (Ok %s) && beq_read (run_read %s []) %s",
					layoutRef(it.t.ID), coqValue(orig), coqHex(frame), coqHex(frame), o.term()))
		}
	}
	// aliasing: what ReadPDU / Marshal hand out belongs to the caller — writing through its maps and slices must not change any
	// later result, nor another PDU decoded from the same frame (harness/pdu_corpus.go: checkAliasing)
	checkAliasing(r, "roundtrip", ts)
	// dense sweeps (every message length x every way the short message can be written; every string length; every TLV length)
	for _, part := range []string{"message", "strings", "tlvs"} {
		for _, it := range denseSweep(ts, part) {
			if strings.HasSuffix(it.what, "TLV length=0") || strings.HasSuffix(it.what, "udhi+nil-udh") ||
				strings.HasSuffix(it.what, " udh-empty") || strings.HasSuffix(it.what, " udh-1") {
				// outside C01's domain: an empty TLV value (the encoder leaves it out); the indicator set without a header, a header
				// where no indicator exists ("a user-data header present exactly when the UDH indicator is set") — C12 marshals these
				continue
			}
			orig := clonePDU(it.p)
			r.SetReplay(replayValue(orig))
			_, err, w, panicked, _ := marshalRec(it.p)
			if err != nil || panicked || len(w.calls) != 1 {
				continue // C12 owns Marshal's own verdicts
			}
			frame := w.calls[0]
			o := readOnce(&chunkReader{data: frame, sched: []int{len(frame)}})
			r.Count("dense/"+it.what, true, "dense-sweep/"+part)
			in := "roundtrip (dense sweep: " + it.what + ") " + it.t.Name + " " + coqValue(orig) + " frame=" + shortHex(frame)
			switch {
			case o.Kind == "panic":
				r.Fail(pcls("roundtrip/readpdu-panic/"+it.t.Name, o.Msg), "ReadPDU panicked on Marshal's output", in, o.Msg, "no panic")
			case o.Kind != "ok":
				r.Fail("roundtrip/readpdu-error/"+it.t.Name, "ReadPDU rejected Marshal's output", in, fmt.Sprintf("%s err=%v", o.Kind, o.Err), "success")
			case canonNoLenID(o.PDU) != canonNoLenID(orig):
				r.Fail("roundtrip/value/"+it.t.Name, "decoded PDU differs from the original", in, canonNoLenID(o.PDU), canonNoLenID(orig))
			}
		}
	}
}
