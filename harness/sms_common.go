package main

import (
	"bytes"
	"encoding/hex"
	"fmt"
	"io"
	"reflect"
	"strings"
	"testing/iotest"
	"time"

	"github.com/M2MGateway/go-smpp/sms"
)

// ---------------------------------------------------------------- running the implementation
type smsObs struct {
	Class      int         // 0 returned a value, 1 returned an error, 2 panicked
	Packet     interface{} // when Class == 0
	Name       string      // struct name
	PanicMsg   string
	EncClass   int    // outcome class of sms.Marshal on the packet (only when Class == 0)
	EncErr     string // error text of Marshal, if any
	Out        []byte // octets written by Marshal
	EncPanic   string
	Again      []byte // octets written by a second Marshal of the same packet
	AgainOK    bool
	TermAfter  string // observables of the packet AFTER the first Marshal (Marshal writes into SubmitFlags)
	AgainPanic string
	ValidType  bool   // packet is a pointer to one of the eight structs
	Term       string // Gallina observables of the decoded struct, taken BEFORE Marshal (which writes into SubmitFlags)
}

func smsRun(in []byte) (o smsObs) { return smsRunReader(bytes.NewReader(in)) }

// smsRunReader decodes from any reader, then (when a value came back) re-encodes it twice:
// Marshal writes into the SubmitFlags of its argument, the second call must write the same octets.
func smsRunReader(rd io.Reader) (o smsObs) {
	var p interface{}
	var err error
	panicked, msg := guard(func() { p, err = sms.Unmarshal(rd) })
	switch {
	case panicked:
		o.Class, o.PanicMsg = 2, msg
		return
	case err != nil:
		o.Class = 1
		return
	}
	o.Packet = p
	switch p.(type) {
	case *sms.Deliver, *sms.DeliverReport, *sms.DeliverReportError, *sms.Submit, *sms.SubmitReport,
		*sms.SubmitReportError, *sms.StatusReport, *sms.Command:
		o.ValidType = true
		o.Name = reflect.TypeOf(p).Elem().Name()
		o.Term = smsObsTerm(p)
	}
	var buf bytes.Buffer
	var merr error
	panicked, msg = guard(func() { _, merr = sms.Marshal(&buf, p) })
	switch {
	case panicked:
		o.EncClass, o.EncPanic = 2, msg
	case merr != nil:
		o.EncClass, o.EncErr = 1, merr.Error()
	default:
		o.Out = append([]byte{}, buf.Bytes()...)
		if o.ValidType {
			o.TermAfter = smsObsTerm(p) // the structure after Marshal has written into it
		}
		var again bytes.Buffer
		p2, m2 := guard(func() { _, merr = sms.Marshal(&again, p) })
		o.Again = append([]byte{}, again.Bytes()...)
		o.AgainOK = !p2 && merr == nil
		if p2 {
			o.AgainPanic = "panic: " + m2
		}
	}
	return
}

// ---------------------------------------------------------------- readers that deliver the same octets differently
// schedReader hands out the octets in chunks of the scheduled sizes (then one octet per call); with
// eofWithData the last chunk comes together with io.EOF, otherwise io.EOF follows on the next call.
type schedReader struct {
	data        []byte
	sched       []int
	eofWithData bool
}

func (s *schedReader) Read(p []byte) (int, error) {
	if len(s.data) == 0 {
		return 0, io.EOF
	}
	if len(p) == 0 {
		return 0, nil
	}
	n := 1
	if len(s.sched) > 0 {
		n, s.sched = s.sched[0], s.sched[1:]
		if n < 1 {
			n = 1
		}
	}
	if n > len(p) {
		n = len(p)
	}
	if n > len(s.data) {
		n = len(s.data)
	}
	copy(p, s.data[:n])
	s.data = s.data[n:]
	if len(s.data) == 0 && s.eofWithData {
		return n, io.EOF
	}
	return n, nil
}

type smsReaderKind struct {
	Name string
	New  func(rng *Rng, in []byte) io.Reader
}

func randSched(rng *Rng, n int) []int {
	var sc []int
	for left := n; left > 0; {
		k := rng.Pick([]int{1, 1, 2, 3, 5, 7, 8, 13, 64})
		sc = append(sc, k)
		left -= k
	}
	return sc
}

var smsReaderKinds = []smsReaderKind{
	{"one-octet-per-read", func(_ *Rng, in []byte) io.Reader { return iotest.OneByteReader(bytes.NewReader(in)) }},
	{"half-reads", func(_ *Rng, in []byte) io.Reader { return iotest.HalfReader(bytes.NewReader(in)) }},
	{"eof-with-last-data", func(_ *Rng, in []byte) io.Reader { return iotest.DataErrReader(bytes.NewReader(in)) }},
	{"scheduled-chunks", func(rng *Rng, in []byte) io.Reader {
		return &schedReader{data: append([]byte{}, in...), sched: randSched(rng, len(in)), eofWithData: rng.Bool()}
	}},
}

// smsReaderIndependence: the outcome of sms.Unmarshal depends on the octets only, not on how the
// reader hands them out.  o is the observation through bytes.NewReader; every listed reader must give
// the same outcome class and (when a value came back) the same observables and re-encoding.
func smsReaderIndependence(r *Run, in []byte, o smsObs, label, input string) {
	for _, k := range smsReaderKinds {
		o2 := smsRunReader(k.New(r.Rng, in))
		same := o2.Class == o.Class && o2.Term == o.Term && o2.Name == o.Name && o2.EncClass == o.EncClass && bytes.Equal(o2.Out, o.Out)
		if same {
			continue
		}
		show := func(x smsObs) string {
			switch x.Class {
			case 2:
				return "panic: " + x.PanicMsg
			case 1:
				return "error"
			}
			return fmt.Sprintf("%s %+v", x.Name, x.Packet)
		}
		r.Fail("reader/"+k.Name+"/"+label, "sms.Unmarshal gives a different result when the same octets arrive through a reader that returns them in smaller pieces",
			input, show(o2), "as through bytes.NewReader: "+show(o))
	}
}

// smsMarshalTwice: Marshal writes the validity-period format into its argument.  A second call on the same
// structure must return normally (C18) and, for the well-formed TPDUs of C19, write the same octets again.
func smsMarshalTwice(r *Run, o smsObs, label, input string, sameOctets bool) {
	if o.Class != 0 || !o.ValidType || o.EncClass != 0 {
		return
	}
	if o.AgainPanic != "" {
		r.Fail("marshal-panic/second-call/"+label, "sms.Marshal panicked when called a second time on a structure sms.Unmarshal returned", input,
			"panic: "+o.AgainPanic, "Marshal returns normally")
	} else if sameOctets && (!o.AgainOK || !bytes.Equal(o.Out, o.Again)) {
		r.Fail("roundtrip/second-marshal/"+label, "a second sms.Marshal of the same decoded structure does not reproduce the TPDU", input,
			hex.EncodeToString(o.Again), hex.EncodeToString(o.Out))
	}
}

// ---------------------------------------------------------------- Go value -> Gallina observable ([oval] of Model/Tpdu.v)
func smsRunes(s string) string { return coqRunes([]rune(s)) }

func smsTimeFields(t time.Time) string {
	name, off := t.Zone()
	neg := off < 0 || off == 0 && name == "-" // what Time.WriteTo takes for a negative zone
	z := func(n int) string {
		if n < 0 {
			return fmt.Sprintf("(%d)", n)
		}
		return fmt.Sprint(n)
	}
	zq := z(off / 900)
	if off%900 != 0 {
		zq = "999999"
	}
	return fmt.Sprintf("%s %d %d %d %d %d %s %s", z(t.Year()), int(t.Month()), t.Day(), t.Hour(), t.Minute(), t.Second(), zq, coqBool(neg))
}

func smsDurSeconds(d time.Duration) string {
	if d%time.Second != 0 || d < 0 {
		return "999999999999" // not a whole number of seconds: no model value, the case fails
	}
	return fmt.Sprint(int64(d / time.Second))
}

// smsObsTerm prints the decoded struct as a Gallina list of observables, field by field.
func smsObsTerm(p interface{}) string {
	v := reflect.ValueOf(p).Elem()
	var items []string
	for i := 0; i < v.NumField(); i++ {
		f := v.Field(i)
		if f.Kind() == reflect.Interface { // the validity period
			switch x := f.Interface().(type) {
			case nil:
				items = append(items, "OVPNone")
			case sms.EnhancedDuration:
				items = append(items, fmt.Sprintf("OVPEnh %s %d", smsDurSeconds(x.Duration), x.Indicator))
			case sms.Duration:
				items = append(items, "OVPRel "+smsDurSeconds(x.Duration))
			case sms.Time:
				items = append(items, "OVPAbs "+smsTimeFields(x.Time))
			default:
				items = append(items, "OByte 888")
			}
			continue
		}
		switch x := f.Interface().(type) {
		case byte:
			items = append(items, fmt.Sprintf("OByte %d", x))
		case []byte:
			items = append(items, "OBytes "+coqHex(x))
		case sms.SCAddress:
			items = append(items, fmt.Sprintf("OAddr %d %d %s", x.NPI, x.TON, smsRunes(x.No)))
		case sms.Address:
			items = append(items, fmt.Sprintf("OAddr %d %d %s", x.NPI, x.TON, smsRunes(x.No)))
		case sms.Time:
			items = append(items, "OTime "+smsTimeFields(x.Time))
		case sms.Flags, sms.DeliverFlags, sms.SubmitFlags, sms.ParameterIndicator:
			items = append(items, "OFlags "+coqNList(smsFlagVals(f)))
		case bool:
			if x {
				items = append(items, "OByte 777") // a walk started to decode this field: the model has it as skipped
			} else {
				items = append(items, "OSkip")
			}
		case sms.FailureCause:
			if x != 0 {
				items = append(items, "OByte 777")
			} else {
				items = append(items, "OSkip")
			}
		default:
			items = append(items, "OByte 888")
		}
	}
	return coqList(items)
}

// ---------------------------------------------------------------- TPDU assembly for the generators
type seg struct {
	Name string
	B    []byte
}
type tpduSegs []seg

func (t tpduSegs) Bytes() []byte {
	var out []byte
	for _, s := range t {
		out = append(out, s.B...)
	}
	return out
}
func (t tpduSegs) Clone() tpduSegs {
	out := make(tpduSegs, len(t))
	for i, s := range t {
		out[i] = seg{s.Name, append([]byte{}, s.B...)}
	}
	return out
}

// semi-octets of a digit string (nibble values 0..15), swapped, 0xF filler
func semiDigits(d []byte) []byte {
	var out []byte
	for i := 0; i+1 < len(d); i += 2 {
		out = append(out, d[i+1]<<4|d[i])
	}
	if len(d)%2 == 1 {
		out = append(out, 0xF0|d[len(d)-1])
	}
	return out
}

func randDigits(r *Rng, n int) []byte {
	d := make([]byte, n)
	for i := range d {
		d[i] = byte(r.Intn(10))
	}
	return d
}

// service-centre address: length = octets following, type, digits
func scAddrBytes(toa byte, digits []byte) []byte {
	b := semiDigits(digits)
	return append([]byte{byte(1 + len(b)), toa}, b...)
}

// TP address: length = number of digits, type, digits
func tpAddrBytes(toa byte, digits []byte) []byte {
	return append([]byte{byte(len(digits)), toa}, semiDigits(digits)...)
}

// pack septets, GSM 03.38 6.1.2.1.1, zero fill bits
func packSeptetsSpec(ss []byte) []byte {
	out := make([]byte, (len(ss)*7+7)/8)
	for i, s := range ss {
		bit := i * 7
		out[bit/8] |= s << (bit % 8)
		if bit%8 > 1 {
			out[bit/8+1] |= s >> (8 - bit%8)
		}
	}
	return out
}

// alphanumeric TP address: length = useful semi-octets = ceil(7n/4)
func tpAlnumBytes(toa byte, septets []byte) []byte {
	return append([]byte{byte((len(septets)*7 + 3) / 4), toa}, packSeptetsSpec(septets)...)
}

func bcd(n int) byte { return byte(n%10)<<4 | byte(n/10) }

// SCTS: yy mm dd hh mi ss zone (quarter hours, sign in bit 3 of the tens nibble)
func sctsBytes(yy, mo, dd, hh, mi, ss, zq int) []byte {
	z := zq
	if z < 0 {
		z = -z
	}
	zb := bcd(z)
	if zq < 0 {
		zb |= 0x08
	}
	return []byte{bcd(yy), bcd(mo), bcd(dd), bcd(hh), bcd(mi), bcd(ss), zb}
}

func randSCTS(r *Rng) []byte {
	return sctsBytes(r.Intn(100), 1+r.Intn(12), 1+r.Intn(28), r.Intn(24), r.Intn(60), r.Intn(60), r.Intn(49))
}

func randAddrSeg(r *Rng) []byte {
	if r.Intn(5) == 0 {
		n := 1 + r.Intn(11)
		ss := make([]byte, n)
		for i := range ss {
			ss[i] = byte(32 + r.Intn(90))
		}
		return tpAlnumBytes(0xD0|byte(r.Intn(16)), ss)
	}
	toa := byte(0x80 | r.Intn(128))
	if toa>>4&7 == 5 {
		toa ^= 0x10
	}
	return tpAddrBytes(toa, randDigits(r, 1+r.Intn(20)))
}

func randSCSeg(r *Rng) []byte {
	return scAddrBytes(byte(0x81|r.Intn(2)<<4), randDigits(r, 1+r.Intn(14)))
}

func randUD(r *Rng) (udl byte, ud []byte) {
	n := r.Pick([]int{0, 1, 2, 7, 8, 20, 139, 140, 160})
	if r.Intn(3) == 0 {
		n = r.Intn(161)
	}
	if n > 140 { // septet-counted: fewer octets than UDL
		return byte(n), r.Bytes((n*7 + 7) / 8)
	}
	return byte(n), r.Bytes(n)
}

// smsBase builds a well-formed TPDU of the given kind as named segments.
//
//	kinds: deliver, deliver-report, deliver-report-error, submit, submit-report,
//	       submit-report-error, status-report, command
//
// variant v (0, 1, 2, ...) walks the SMS-SUBMIT validity-period formats: v%4 = TP-VPF, and for the enhanced format
// (v%4 == 1) the four sub-formats starting with hh:mm:ss, so that the first bases of a run cover every decoder branch
func smsBase(r *Rng, kind string, v int) tpduSegs {
	var t tpduSegs
	add := func(n string, b ...byte) { t = append(t, seg{n, b}) }
	pi := func() byte { return byte(r.Intn(8)) }
	optional := func(p byte) {
		if p&1 != 0 {
			add("PID", r.Byte())
		}
		if p&2 != 0 {
			add("DCS", r.Byte())
		}
		if p&4 != 0 {
			udl, ud := randUD(r)
			add("UDL", udl)
			add("UD", ud...)
		}
	}
	switch kind {
	case "deliver":
		add("SC", randSCSeg(r)...)
		add("FO", byte(r.Intn(64))<<2)
		add("OA", randAddrSeg(r)...)
		add("PID", r.Byte())
		add("DCS", r.Byte())
		add("SCTS", randSCTS(r)...)
		udl, ud := randUD(r)
		add("UDL", udl)
		add("UD", ud...)
	case "deliver-report":
		add("SC", 0)
		add("FO", byte(r.Intn(64))<<2)
		p := pi()
		add("PI", p)
		optional(p)
	case "deliver-report-error":
		add("SC", 0)
		add("FO", byte(r.Intn(64))<<2)
		add("FCS", 0x80|r.Byte())
		p := pi()
		add("PI", p)
		optional(p)
	case "submit":
		add("SC", 0)
		fo := byte(r.Intn(64))<<2 | 1
		fo = fo&^0x18 | byte(v%4)<<3
		add("FO", fo)
		add("MR", r.Byte())
		add("DA", randAddrSeg(r)...)
		add("PID", r.Byte())
		add("DCS", r.Byte())
		switch fo >> 3 & 3 {
		case 1: // enhanced
			vp := make([]byte, 7)
			switch (v/4 + 3) % 4 {
			case 0:
				vp[0] = byte(r.Intn(2)) << 6
			case 1:
				vp[0], vp[1] = 1|byte(r.Intn(2))<<6, r.Byte()
			case 2:
				vp[0], vp[1] = 2, r.Byte()
			case 3:
				vp[0], vp[1], vp[2], vp[3] = 3, bcd(r.Intn(100)), bcd(r.Intn(60)), bcd(r.Intn(60))
			}
			add("VP", vp...)
		case 2:
			add("VP", r.Byte())
		case 3:
			add("VP", randSCTS(r)...)
		}
		udl, ud := randUD(r)
		add("UDL", udl)
		add("UD", ud...)
	case "submit-report":
		add("SC", randSCSeg(r)...)
		add("FO", byte(r.Intn(64))<<2|1)
		p := pi()
		add("PI", p)
		add("SCTS", randSCTS(r)...)
		optional(p)
	case "submit-report-error":
		add("SC", randSCSeg(r)...)
		add("FO", byte(r.Intn(64))<<2|1)
		add("FCS", 0x80|r.Byte())
		p := pi()
		add("PI", p)
		add("SCTS", randSCTS(r)...)
		optional(p)
	case "status-report":
		add("SC", randSCSeg(r)...)
		add("FO", byte(r.Intn(64))<<2|2)
		add("MR", r.Byte())
		add("RA", randAddrSeg(r)...)
		add("SCTS", randSCTS(r)...)
		add("DT", randSCTS(r)...)
		add("ST", r.Byte())
	case "command":
		add("SC", 0)
		add("FO", byte(r.Intn(64))<<2|2)
		add("MR", r.Byte())
		add("PID", r.Byte())
		add("CT", r.Byte())
		add("MN", r.Byte())
		add("DA", randAddrSeg(r)...)
		n := r.Intn(20)
		add("CDL", byte(n))
		add("CD", r.Bytes(n)...)
	}
	return t
}

var smsKinds = []string{"deliver", "deliver-report", "deliver-report-error", "submit", "submit-report",
	"submit-report-error", "status-report", "command"}

// smsMutate replaces one field by arbitrary octets; returns the mutated TPDU and
// a label "<field>/<how>".
func smsMutate(r *Rng, t tpduSegs) (tpduSegs, string) {
	m := t.Clone()
	i := r.Intn(len(m))
	s := &m[i]
	how := r.Intn(6)
	semi := s.Name == "SCTS" || s.Name == "DT" || s.Name == "VP" || s.Name == "OA" || s.Name == "DA" || s.Name == "RA" || s.Name == "SC"
	switch {
	case how == 0 && semi && len(s.B) > 0: // a filler nibble somewhere
		k := r.Intn(len(s.B))
		if r.Bool() {
			s.B[k] |= 0xF0
		} else {
			s.B[k] |= 0x0F
		}
		return m, s.Name + "/filler-nibble"
	case how == 1 && semi && len(s.B) > 0: // a non-decimal nibble
		k := r.Intn(len(s.B))
		nib := byte(10 + r.Intn(6))
		if r.Bool() {
			s.B[k] = s.B[k]&0x0F | nib<<4
		} else {
			s.B[k] = s.B[k]&0xF0 | nib
		}
		return m, s.Name + "/non-decimal-nibble"
	case how == 2 && len(s.B) > 0: // length / first octet lies
		s.B[0] = byte(r.Pick([]int{0, 1, 2, 3, 7, 8, 0x7f, 0x80, 0xfe, 0xff, int(r.Byte())}))
		return m, s.Name + "/first-octet"
	case how == 3: // arbitrary octets, other length
		s.B = r.Bytes(r.Intn(len(s.B) + 4))
		return m, s.Name + "/arbitrary-resized"
	case how == 4 && len(s.B) > 1: // truncated field (rest of the TPDU follows)
		s.B = s.B[:r.Intn(len(s.B))]
		return m, s.Name + "/truncated"
	}
	s.B = r.Bytes(len(s.B))
	return m, s.Name + "/arbitrary"
}

func smsHexList(samples []string) [][]byte {
	var out [][]byte
	for _, s := range samples {
		b, err := hex.DecodeString(strings.ReplaceAll(s, " ", ""))
		if err != nil {
			panic(err)
		}
		out = append(out, b)
	}
	return out
}

// smsReaderCase ties the WHOLE decoder written over the bufio model (Model/TpduReader.v unmarshal_reader, about which
// C18_reader_independence and the C19 ..._any_reader theorems speak) to sms.Unmarshal behind a chunking reader: the input
// is decoded (and re-encoded) through bufio-over-schedReader with the given schedule; the model evaluated ON THE SAME
// SCHEDULE must give the same structure, observables and re-encoding, or the same outcome class.  Caller must have
// imported Model.TpduReaderRun.  strict: an ordinary case; otherwise advisory.
func smsReaderCase(r *Run, in []byte, sched []int, eofd bool, strict bool, label, failInput string) {
	o := smsRunReader(&schedReader{data: append([]byte{}, in...), sched: append([]int{}, sched...), eofWithData: eofd})
	sc := make([]string, len(sched))
	for j, x := range sched {
		sc[j] = fmt.Sprintf("%d%%nat", x)
	}
	r.Count(fmt.Sprintf("readerdec/%s/%x/%v/%v", label, in, sched, eofd), len(in) > 2, "whole decoder on a chunked reader, model on the same schedule")
	emit := r.Advisory
	if strict {
		emit = r.Case
	}
	desc := fmt.Sprintf("reader decoder %s %x sched %v eof-with-data %v", label, in, sched, eofd)
	if len(desc) > 300 {
		desc = desc[:300] + "..."
	}
	if o.Class == 2 {
		r.Fail("unmarshal-panic/reader/"+label, "sms.Unmarshal panicked behind a chunking reader", failInput,
			"panic: "+o.PanicMsg, "an error or one of the eight TPDU structures")
	}
	args := fmt.Sprintf("%s %s %s", coqHex(in), coqList(sc), coqBool(eofd))
	switch {
	case o.Class == 0 && o.ValidType && o.EncClass == 0:
		emit(desc, fmt.Sprintf("sms_reader_dec_is %s \"%s\" %s && sms_reader_enc_is %s %s", args, o.Name, o.Term, args, coqHex(o.Out)))
	case o.Class == 0 && o.ValidType:
		emit(desc, fmt.Sprintf("sms_reader_dec_is %s \"%s\" %s", args, o.Name, o.Term))
	default:
		emit(desc, fmt.Sprintf("sms_reader_class %s =? %d", args, o.Class))
	}
}
