package main

// C10: long histories (a message left incomplete while thousands of other
// messages start and complete) and large totals (every N in 1..255, in order,
// reversed and in random order).  The histories are generated from a few
// numbers on both sides (Model/CombinerRun.v: chk_long, chk_order), the trace is
// reported sparsely: only the arrivals whose callbacks differ from the default.

import (
	"encoding/hex"
	"encoding/json"
	"fmt"
	"strings"

	"github.com/M2MGateway/go-smpp/pdu"
)

func seg16(src, dst pdu.Address, ref, total, seq int) segVal {
	return segVal{src, dst, map[byte][]byte{8: {byte(ref >> 8), byte(ref), byte(total), byte(seq)}}}
}

// sparse exceptions of a trace against per-arrival defaults (0 none, 1 own alone, 2 previous+own)
func sparseExceptions(tr [][][]int, dflt []int) string {
	var exc []string
	for j, cbs := range tr {
		id := j + 1
		var want [][]int
		switch dflt[j] {
		case 1:
			want = [][]int{{id}}
		case 2:
			want = [][]int{{id - 1, id}}
		}
		if fmt.Sprint(cbs) == fmt.Sprint(want) || (len(cbs) == 0 && len(want) == 0) {
			continue
		}
		cs := make([]string, len(cbs))
		for k, cb := range cbs {
			ids := make([]string, len(cb))
			for l, x := range cb {
				if x < 0 {
					x = 99999999
				}
				ids[l] = fmt.Sprint(x)
			}
			cs[k] = coqList(ids)
		}
		exc = append(exc, fmt.Sprintf("(%d, %s)", id, coqList(cs)))
	}
	return coqList(exc)
}

func hexOrder(order []int) string {
	b := make([]byte, len(order))
	for i, q := range order {
		b[i] = byte(q)
	}
	return `(hx "` + hex.EncodeToString(b) + `")`
}

func jsonInts(xs []int) string { return strings.ReplaceAll(fmt.Sprint(xs), " ", ",") }

var longSrc, longDst = pdu.Address{TON: 1, NPI: 1, No: "100"}, pdu.Address{TON: 1, NPI: 1, No: "12"}

const longRef, longLo = 40000, 100

// longTable builds the history of a "long" case: the target's segments before,
// k other messages, the target's segments after.
func longTable(total int, before []int, k int, two bool, after []int) (table []segVal, dflt []int) {
	src, dst := longSrc, longDst
	for _, q := range before {
		table = append(table, seg16(src, dst, longRef, total, q))
		dflt = append(dflt, 0)
	}
	for i := 0; i < k; i++ {
		fr := longLo + i
		if fr >= longRef { // the other messages never use the target's reference
			fr++
		}
		if two {
			table = append(table, seg16(src, dst, fr, 2, 1), seg16(src, dst, fr, 2, 2))
			dflt = append(dflt, 0, 2)
		} else {
			table = append(table, seg16(src, dst, fr, 1, 1))
			dflt = append(dflt, 1)
		}
	}
	for _, q := range after {
		table = append(table, seg16(src, dst, longRef, total, q))
		dflt = append(dflt, 0)
	}
	return
}

// replayLong re-runs a "long {...}" or "order {...}" input.
func replayLong(arg string) string {
	var table []segVal
	var hist []int
	switch {
	case strings.HasPrefix(arg, "long "):
		var j struct {
			Total  int   `json:"total"`
			Before []int `json:"before"`
			Others int   `json:"others"`
			Two    bool  `json:"two_part"`
			After  []int `json:"after"`
		}
		if err := json.Unmarshal([]byte(strings.TrimPrefix(arg, "long ")), &j); err != nil {
			return "bad replay input: " + err.Error()
		}
		table, _ = longTable(j.Total, j.Before, j.Others, j.Two, j.After)
		hist = seqInts(0, len(table))
	default:
		var j struct {
			Total int   `json:"total"`
			Order []int `json:"order"`
		}
		if err := json.Unmarshal([]byte(strings.TrimPrefix(arg, "order ")), &j); err != nil {
			return "bad replay input: " + err.Error()
		}
		for q := 1; q <= j.Total; q++ {
			table = append(table, seg16(longSrc, longDst, 0x0100+j.Total, j.Total, q))
		}
		for _, q := range j.Order {
			hist = append(hist, q-1)
		}
	}
	obs := runCombine(table, hist)
	class, what, observed, required := judge(table, hist, obs)
	if class == "" {
		return fmt.Sprintf("%d arrivals: satisfies the property", len(hist))
	}
	return fmt.Sprintf("%d arrivals, panicAt=%d : %s — %s; observed %.300s; required %s", len(hist), obs.PanicAt, class, what, observed, required)
}

func c10LongAndLarge(r *Run) {
	src, dst := longSrc, longDst
	judgeIt := func(table []segVal, hist []int, obs combineObs, in string) {
		if class, what, observed, required := judge(table, hist, obs); class != "" {
			r.Fail(class, what, in, observed, required)
		}
	}
	// ---- a message left incomplete while K other messages start and complete, then its missing segments
	type long struct {
		total         int
		before, after []int
		k             int
		two           bool
	}
	// around every power of two a bounded table is likely to be sized by, not only 4096
	ks := []int{1, 1000, 4095, 4096, 4097, 5000, 64, 65, 256, 257, 1024, 1025, 2049, 8192, 8193}
	if !r.Quick {
		ks = append(ks, 63, 255, 1023, 2048, 8191, 16384, 16385, 20000, 32768, 32769, 65000)
	}
	var longs []long
	for i, k := range ks {
		longs = append(longs, long{2, []int{1}, []int{2}, k, false})
		if (i%2 == 1 && i < 6) || !r.Quick {
			longs = append(longs, long{3, []int{3, 1}, []int{2}, k, false}, long{2, []int{2}, []int{1}, k / 2, true})
		}
	}
	longs = append(longs, long{2, []int{1}, []int{2}, 4096 + r.Rng.Intn(3000), r.Rng.Bool()})
	for _, l := range longs {
		const ref, lo = longRef, longLo
		if l.k > 65000-lo {
			l.k = 65000 - lo
		}
		table, dflt := longTable(l.total, l.before, l.k, l.two, l.after)
		hist := seqInts(0, len(table))
		obs := runCombine(table, hist)
		in := fmt.Sprintf(`long {"total":%d,"before":%s,"others":%d,"two_part":%v,"after":%s}`,
			l.total, jsonInts(l.before), l.k, l.two, jsonInts(l.after))
		r.Count(in, true, fmt.Sprintf("long history/other messages in between=%s", bucketK(l.k)))
		judgeIt(table, hist, obs, in)
		if obs.PanicAt >= 0 || lo+l.k >= ref {
			continue // (the model-side generator numbers the fillers lo, lo+1, ... without a gap)
		}
		r.Case(in, fmt.Sprintf("chk_long %s %s %d %d %s %d %d%%nat %s %s %s", coqAddr(src), coqAddr(dst), ref, l.total, hexOrder(l.before),
			lo, l.k, coqBool(l.two), hexOrder(l.after), sparseExceptions(obs.Trace, dflt)))
	}
	r.Sample(map[string]interface{}{"op": "combine", "what": "long history", "shape": "segment 1 of 2, then 4096 other one-part concatenated messages, then segment 2",
		"required": "delivered at the arrival of segment 2"})

	// ---- every total N in 1..255: in order, reversed, random order(s)
	reps := r.N(1, 4)
	for n := 1; n <= 255; n++ {
		var orders [][]int
		inOrder := seqInts(1, n+1)
		rev := make([]int, n)
		for i := range rev {
			rev[i] = n - i
		}
		orders = append(orders, inOrder, rev)
		for c := 0; c < reps; c++ {
			p := r.Rng.perm(n)
			for i := range p {
				p[i]++
			}
			orders = append(orders, p)
		}
		// the last arrival in the first / in the last 64 sequence numbers
		p := r.Rng.perm(n)
		for i := range p {
			p[i]++
		}
		for i, q := range p {
			if q == 1 {
				p[i], p[n-1] = p[n-1], p[i]
			}
		}
		orders = append(orders, p)
		ref := 0x0100 + n
		for oi, order := range orders {
			table := make([]segVal, n)
			for q := 1; q <= n; q++ {
				table[q-1] = seg16(src, dst, ref, n, q)
			}
			hist := make([]int, n)
			for i, q := range order {
				hist[i] = q - 1
			}
			obs := runCombine(table, hist)
			in := fmt.Sprintf(`order {"total":%d,"order":%s}`, n, jsonInts(order))
			r.Count(fmt.Sprintf("large/%d/%d/%v", n, oi, order), n > 1, fmt.Sprintf("large totals/N=%s", bucketK(n)))
			judgeIt(table, hist, obs, in)
			if obs.PanicAt >= 0 {
				continue
			}
			edge := n <= 16 || n >= 253 || (n%64 >= 63 || n%64 <= 1)
			if r.Quick && (oi != (n+int(r.Seed))%4 || !(edge || n%3 == int(r.Seed)%3)) {
				continue // quick tier: all orders of every N are judged by the oracle; model cases: one order (rotating) for a third of the totals and for those next to 0, 64, 128, 192, 255
			}
			r.Case(fmt.Sprintf("large-total N=%d order#%d", n, oi),
				fmt.Sprintf("chk_order %s %s %d %d %s %s", coqAddr(src), coqAddr(dst), ref, n, hexOrder(order), sparseExceptions(obs.Trace, make([]int, n))))
		}
	}
	r.Sample(map[string]interface{}{"op": "combine", "what": "large totals", "shape": "every N in 1..255: in order, reversed, random orders", "required": "no callback before the last missing segment"})
}

func bucketK(k int) string {
	switch {
	case k < 64:
		return "<64"
	case k < 256:
		return "64-255"
	case k < 4096:
		return "256-4095"
	case k < 8192:
		return "4096-8191"
	}
	return "8192+"
}
